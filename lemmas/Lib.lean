/-
  Lemma library of the nessai contract proofs (code-independent mathematics).

  Every lemma that the SMT side *assumes* (as an axiom instance, see
  pyvc/nplib.py `lemma:*`) or that DESIGN.md cites as a corollary linking
  per-function postconditions to the property statement is stated and proved
  here.  Nothing in this file depends on /repo: a refactor of nessai cannot
  break these proofs.

  Check (Lean 4.33.0 / Mathlib v4.33.0; ~10 s warm, ~2-3 min cold):
    cd /opt/veriftools/mathlib4 && lake env lean /verif/lemmas/Lib.lean
  Expected output: empty (no errors, no warnings).  `#print axioms` on every
  theorem reports only [propext, Classical.choice, Quot.sound].

  Statement corrections
  ---------------------
  None.  All 14 theorem statements are exactly as originally written.
  Remarks (no change made):
  * `ess_scale`: hypothesis `hs` is logically redundant in Lean (division by
    zero is 0, so both sides vanish when the sum is 0); it is kept.
  * `ess_bounds`: `1 ≤ N` is not a hypothesis; it is implied by `hs`
    (an empty sum is 0) and the proof never needs it separately.
  * `shrink_logt`: `-1 / n` parses as `(-1) / n`, which is the intended value.
  Two private helpers were added (`injOn_of_strictMono`,
  `disjoint_cover_aux`) so that `unique_complement_enum` can reuse the
  cardinality argument of `disjoint_increasing_cover`, which appears later.

  Unproved
  --------
  None.
-/
import Mathlib

open Finset BigOperators

namespace NessaiLemmas

/-- Strict monotonicity on `[0,m)` gives injectivity on `range m`. -/
private theorem injOn_of_strictMono (m : ℕ) (f : ℕ → ℕ)
    (hf : ∀ i j, i < j → j < m → f i < f j) :
    Set.InjOn f (↑(Finset.range m)) := by
  intro i hi j hj hij
  simp only [Finset.coe_range, Set.mem_Iio] at hi hj
  rcases lt_trichotomy i j with h | h | h
  · exact absurd hij (hf i j h hj).ne
  · exact h
  · exact absurd hij (hf j i h hi).ne'

/-- Cardinality core shared by `unique_complement_enum` and
`disjoint_increasing_cover` (same statement as the latter). -/
private theorem disjoint_cover_aux (n a b : ℕ) (L N : ℕ → ℕ)
    (hL : ∀ i j, i < j → j < a → L i < L j) (hLr : ∀ i, i < a → L i < n)
    (hN : ∀ i j, i < j → j < b → N i < N j) (hNr : ∀ i, i < b → N i < n)
    (dis : ∀ i k, i < a → k < b → L i ≠ N k) (hab : a + b = n) :
    ∀ p, p < n → (∃ i, i < a ∧ L i = p) ∨ (∃ k, k < b ∧ N k = p) := by
  have hA : ((Finset.range a).image L).card = a := by
    rw [Finset.card_image_of_injOn (injOn_of_strictMono a L hL), Finset.card_range]
  have hB : ((Finset.range b).image N).card = b := by
    rw [Finset.card_image_of_injOn (injOn_of_strictMono b N hN), Finset.card_range]
  have hdis : Disjoint ((Finset.range a).image L) ((Finset.range b).image N) := by
    rw [Finset.disjoint_left]
    intro x hx hx'
    rw [Finset.mem_image] at hx hx'
    obtain ⟨i, hi, rfl⟩ := hx
    obtain ⟨k, hk, hke⟩ := hx'
    exact dis i k (Finset.mem_range.mp hi) (Finset.mem_range.mp hk) hke.symm
  have hsub : (Finset.range a).image L ∪ (Finset.range b).image N ⊆ Finset.range n := by
    intro x hx
    rw [Finset.mem_union, Finset.mem_image, Finset.mem_image] at hx
    rw [Finset.mem_range]
    rcases hx with ⟨i, hi, rfl⟩ | ⟨k, hk, rfl⟩
    · exact hLr i (Finset.mem_range.mp hi)
    · exact hNr k (Finset.mem_range.mp hk)
  have hcard : (Finset.range n).card ≤
      ((Finset.range a).image L ∪ (Finset.range b).image N).card := by
    rw [Finset.card_union_of_disjoint hdis, hA, hB, Finset.card_range, hab]
  have heq := Finset.eq_of_subset_of_card_le hsub hcard
  intro p hp
  have hmem : p ∈ (Finset.range a).image L ∪ (Finset.range b).image N := by
    rw [heq]; exact Finset.mem_range.mpr hp
  rw [Finset.mem_union, Finset.mem_image, Finset.mem_image] at hmem
  rcases hmem with ⟨i, hi, he⟩ | ⟨k, hk, he⟩
  · exact Or.inl ⟨i, Finset.mem_range.mp hi, he⟩
  · exact Or.inr ⟨k, Finset.mem_range.mp hk, he⟩

/-- C04 (`lemma:unique_complement_enum`): two strictly increasing
enumerations `f h : [0,m) → [0,m+r)` whose images both avoid the image of a
strictly increasing `g : [0,r) → [0,m+r)` coincide. -/
theorem unique_complement_enum (m r : ℕ) (f h g : ℕ → ℕ)
    (hf : ∀ i j, i < j → j < m → f i < f j) (hfr : ∀ i, i < m → f i < m + r)
    (hh : ∀ i j, i < j → j < m → h i < h j) (hhr : ∀ i, i < m → h i < m + r)
    (hg : ∀ i j, i < j → j < r → g i < g j) (hgr : ∀ k, k < r → g k < m + r)
    (dfg : ∀ i k, i < m → k < r → f i ≠ g k)
    (dhg : ∀ i k, i < m → k < r → h i ≠ g k) :
    ∀ i, i < m → f i = h i := by
  have cf := disjoint_cover_aux (m + r) m r f g hf hfr hg hgr dfg rfl
  have ch := disjoint_cover_aux (m + r) m r h g hh hhr hg hgr dhg rfl
  intro i
  induction i using Nat.strong_induction_on with
  | _ i ih =>
    intro hi
    rcases lt_trichotomy (f i) (h i) with hlt | heq | hgt
    · exfalso
      rcases ch (f i) (hfr i hi) with ⟨j, hj, hje⟩ | ⟨k, hk, hke⟩
      · rcases lt_trichotomy j i with hji | hji | hji
        · have h1 := ih j hji hj
          have h2 := hf j i hji hi
          omega
        · subst hji; omega
        · have h1 := hh i j hji hj
          omega
      · exact dfg i k hi hk hke.symm
    · exact heq
    · exfalso
      rcases cf (h i) (hhr i hi) with ⟨j, hj, hje⟩ | ⟨k, hk, hke⟩
      · rcases lt_trichotomy j i with hji | hji | hji
        · have h1 := ih j hji hj
          have h2 := hh j i hji hi
          omega
        · subst hji; omega
        · have h1 := hf i j hji hj
          omega
      · exact dhg i k hi hk hke.symm

/-- C04 (pigeonhole step): two strictly increasing index sequences inside
`[0,n)`, disjoint, with lengths summing to `n`, together contain every index
of `[0,n)` (exactly once, by disjointness). -/
theorem disjoint_increasing_cover (n a b : ℕ) (L N : ℕ → ℕ)
    (hL : ∀ i j, i < j → j < a → L i < L j) (hLr : ∀ i, i < a → L i < n)
    (hN : ∀ i j, i < j → j < b → N i < N j) (hNr : ∀ i, i < b → N i < n)
    (dis : ∀ i k, i < a → k < b → L i ≠ N k) (hab : a + b = n) :
    ∀ p, p < n → (∃ i, i < a ∧ L i = p) ∨ (∃ k, k < b ∧ N k = p) := by
  exact disjoint_cover_aux n a b L N hL hLr hN hNr dis hab

/-- C02 (`lemma:prod_pos`): a running product of positive factors is
positive. -/
theorem prod_pos_rec (n : ℕ) (a t : ℕ → ℝ) (h0 : a 0 = t 0)
    (hrec : ∀ k, 1 ≤ k → k < n → a k = a (k - 1) * t k)
    (ht : ∀ k, k < n → 0 < t k) : ∀ k, k < n → 0 < a k := by
  intro k
  induction k with
  | zero =>
    intro h
    rw [h0]
    exact ht 0 h
  | succ k ih =>
    intro h
    have e := hrec (k + 1) (by omega) h
    rw [e, Nat.add_sub_cancel]
    exact mul_pos (ih (by omega)) (ht _ h)

/-- C02 (`lemma:sum_congr`): finite sums of pointwise-equal summands are
equal. -/
theorem sum_congr_range (lo hi : ℕ) (a b : ℕ → ℝ)
    (h : ∀ k, lo ≤ k → k < hi → a k = b k) :
    ∑ k ∈ Finset.Ico lo hi, a k = ∑ k ∈ Finset.Ico lo hi, b k := by
  apply Finset.sum_congr rfl
  intro k hk
  rw [Finset.mem_Ico] at hk
  exact h k hk.1 hk.2

/-- C02: first-order recurrences with the same start and the same step
define the same sequence (links the incrementally accumulated volumes with
the one-pass `cumsum`). -/
theorem rec_unique (n : ℕ) (u v t : ℕ → ℝ) (h0 : u 0 = v 0)
    (hu : ∀ k, k < n → u (k + 1) = u k * t k)
    (hv : ∀ k, k < n → v (k + 1) = v k * t k) :
    ∀ k, k ≤ n → u k = v k := by
  intro k
  induction k with
  | zero => intro _; exact h0
  | succ k ih =>
    intro h
    rw [hu k (by omega), hv k (by omega), ih (by omega)]

/-- C02: the incremental rectangle-rule accumulation equals the closed
form. -/
theorem rect_closed_form (n : ℕ) (z L X : ℕ → ℝ) (h0 : z 0 = 0)
    (hz : ∀ k, k < n → z (k + 1) = z k + L (k + 1) * (X k - X (k + 1))) :
    ∀ k, k ≤ n → z k = ∑ i ∈ Finset.range k, L (i + 1) * (X i - X (i + 1)) := by
  intro k
  induction k with
  | zero => intro _; simp [h0]
  | succ k ih =>
    intro h
    rw [Finset.sum_range_succ, hz k (by omega), ih (by omega)]

/-- C02: the two documented shrinkage factors. -/
theorem shrink_t (n : ℝ) (hn : 0 < n) :
    Real.exp (-Real.log (1 + 1 / n)) = 1 / (1 + 1 / n) ∧
    1 / (1 + 1 / n) = n / (n + 1) := by
  have h1 : 0 < 1 + 1 / n := by positivity
  constructor
  · rw [Real.exp_neg, Real.exp_log h1, ← one_div]
  · field_simp

theorem shrink_logt (n : ℝ) (hn : 0 < n) :
    0 < Real.exp (-1 / n) ∧ Real.exp (-1 / n) < 1 := by
  refine ⟨Real.exp_pos _, ?_⟩
  rw [Real.exp_lt_one_iff]
  have h1 : 0 < 1 / n := by positivity
  have h2 : -1 / n = -(1 / n) := by ring
  linarith

/-- C02: shifting every log-likelihood by `c` multiplies the trapezoid
evidence by `exp c` ... -/
theorem trap_shift (m : ℕ) (L X : ℕ → ℝ) (c : ℝ) :
    ∑ k ∈ Finset.range m, (Real.exp c * L k + Real.exp c * L (k + 1)) / 2 *
        (X k - X (k + 1)) =
    Real.exp c * ∑ k ∈ Finset.range m, (L k + L (k + 1)) / 2 *
        (X k - X (k + 1)) := by
  rw [Finset.mul_sum]
  apply Finset.sum_congr rfl
  intro k _
  ring

/-- ... and leaves the posterior weights unchanged. -/
theorem weight_shift (l w z c : ℝ) (hz : z ≠ 0) :
    (Real.exp c * l) * w / (Real.exp c * z) = l * w / z := by
  have he : Real.exp c ≠ 0 := (Real.exp_pos c).ne'
  field_simp

/-- the image-domain rules used by pyvc's `EXPI` homomorphism. -/
theorem exp_rules (a b x : ℝ) (hx : 0 < x) :
    Real.exp (a + b) = Real.exp a * Real.exp b ∧
    Real.exp (a - b) = Real.exp a / Real.exp b ∧
    Real.exp (-a) = 1 / Real.exp a ∧
    Real.exp 0 = 1 ∧ Real.exp (Real.log x) = x ∧ 0 < Real.exp a ∧
    (a < b ↔ Real.exp a < Real.exp b) ∧
    (a < 0 → Real.exp a < 1) ∧ (0 < a → 1 < Real.exp a) := by
  refine ⟨Real.exp_add a b, Real.exp_sub a b, ?_, Real.exp_zero, Real.exp_log hx,
    Real.exp_pos a, Real.exp_lt_exp.symm, fun h => Real.exp_lt_one_iff.mpr h,
    fun h => Real.one_lt_exp_iff.mpr h⟩
  rw [Real.exp_neg, one_div]

/-- C16: Kish effective sample size of normalised weights lies in [1, N]. -/
theorem ess_bounds (N : ℕ) (w : ℕ → ℝ) (hw : ∀ i, i < N → 0 ≤ w i)
    (hs : 0 < ∑ i ∈ Finset.range N, w i) :
    let S := ∑ i ∈ Finset.range N, w i
    let q := ∑ i ∈ Finset.range N, (w i / S) ^ 2
    1 ≤ 1 / q ∧ 1 / q ≤ (N : ℝ) := by
  intro S q
  have hS : 0 < S := hs
  have hp : ∀ i ∈ Finset.range N, 0 ≤ w i / S := fun i hi =>
    div_nonneg (hw i (Finset.mem_range.mp hi)) hS.le
  have hsum : ∑ i ∈ Finset.range N, w i / S = 1 := by
    rw [← Finset.sum_div]
    exact div_self hS.ne'
  have hq1 : q ≤ 1 := by
    have := Finset.sum_sq_le_sq_sum_of_nonneg hp
    rw [hsum] at this
    simpa using this
  have hq2 : (1 : ℝ) ≤ N * q := by
    have := sq_sum_le_card_mul_sum_sq (s := Finset.range N) (f := fun i => w i / S)
    rw [hsum, Finset.card_range] at this
    simpa using this
  have hq0 : 0 ≤ q := Finset.sum_nonneg fun i _ => sq_nonneg _
  have hqpos : 0 < q := by
    rcases hq0.lt_or_eq with h | h
    · exact h
    · rw [← h] at hq2
      norm_num at hq2
  constructor
  · rw [le_div_iff₀ hqpos]
    linarith
  · rw [div_le_iff₀ hqpos]
    exact hq2

/-- C16: the effective sample size does not change when all log-weights are
shifted by a constant (all weights scaled by `c > 0`). -/
theorem ess_scale (N : ℕ) (w : ℕ → ℝ) (c : ℝ) (hc : 0 < c)
    (hs : (∑ i ∈ Finset.range N, w i) ≠ 0) :
    ∑ i ∈ Finset.range N, (c * w i / ∑ j ∈ Finset.range N, c * w j) ^ 2 =
    ∑ i ∈ Finset.range N, (w i / ∑ j ∈ Finset.range N, w j) ^ 2 := by
  -- `hs` is not needed in Lean (`x / 0 = 0` makes both sides `0` when the sum
  -- vanishes); it is kept in the statement because the real-analysis reading
  -- needs it.  The next line only silences the unused-variable linter.
  have _ := hs
  rw [← Finset.mul_sum]
  apply Finset.sum_congr rfl
  intro i _
  rw [mul_div_mul_left _ _ hc.ne']

/-- C16: normalised weights sum to one. -/
theorem weights_sum_one (N : ℕ) (w : ℕ → ℝ)
    (hs : (∑ i ∈ Finset.range N, w i) ≠ 0) :
    ∑ i ∈ Finset.range N, (w i / ∑ j ∈ Finset.range N, w j) = 1 := by
  rw [← Finset.sum_div]
  exact div_self hs


/-- `lemma:sum_nonneg`: a finite sum of non-negative terms is non-negative. -/
theorem sum_nonneg_ico (lo hi : ℕ) (a : ℕ → ℝ)
    (h : ∀ k, lo ≤ k → k < hi → 0 ≤ a k) :
    0 ≤ ∑ k ∈ Finset.Ico lo hi, a k := by
  apply Finset.sum_nonneg
  intro k hk
  rw [Finset.mem_Ico] at hk
  exact h k hk.1 hk.2

/-- `lemma:sum_pos`: non-negative terms, one of them positive: the sum is
positive. -/
theorem sum_pos_ico (lo hi : ℕ) (a : ℕ → ℝ)
    (h : ∀ k, lo ≤ k → k < hi → 0 ≤ a k)
    (hp : ∃ j, lo ≤ j ∧ j < hi ∧ 0 < a j) :
    0 < ∑ k ∈ Finset.Ico lo hi, a k := by
  obtain ⟨j, hj1, hj2, hj3⟩ := hp
  apply Finset.sum_pos'
  · intro k hk
    rw [Finset.mem_Ico] at hk
    exact h k hk.1 hk.2
  · exact ⟨j, Finset.mem_Ico.mpr ⟨hj1, hj2⟩, hj3⟩

end NessaiLemmas

/-- `lemma:sum_split`: a range sum splits around one index. -/
theorem sum_split_ico (lo k hi : ℕ) (a : ℕ → ℝ) (h1 : lo ≤ k) (h2 : k < hi) :
    ∑ i ∈ Finset.Ico lo hi, a i =
      ∑ i ∈ Finset.Ico lo k, a i + a k + ∑ i ∈ Finset.Ico (k + 1) hi, a i := by
  rw [← Finset.sum_Ico_consecutive a h1 (Nat.le_of_lt h2)]
  rw [Finset.sum_eq_sum_Ico_succ_bot h2]
  ring

/-- `lemma:sum_last`: peeling the last term of a non-empty range sum. -/
theorem sum_last_ico (lo hi : ℕ) (a : ℕ → ℝ) (h : lo < hi) :
    ∑ i ∈ Finset.Ico lo hi, a i =
      ∑ i ∈ Finset.Ico lo (hi - 1), a i + a (hi - 1) := by
  obtain ⟨m, rfl⟩ : ∃ m, hi = m + 1 := ⟨hi - 1, by omega⟩
  simp only [Nat.add_sub_cancel]
  exact Finset.sum_Ico_succ_top (by omega) a

/-- `lemma:sum_mul`: a pointwise constant factor comes out of the sum. -/
theorem sum_mul_ico (lo hi : ℕ) (a b : ℕ → ℝ) (c : ℝ)
    (h : ∀ k, lo ≤ k → k < hi → a k = c * b k) :
    ∑ k ∈ Finset.Ico lo hi, a k = c * ∑ k ∈ Finset.Ico lo hi, b k := by
  rw [Finset.mul_sum]
  apply Finset.sum_congr rfl
  intro k hk
  rw [Finset.mem_Ico] at hk
  exact h k hk.1 hk.2

/-- `lemma:sum_div`: a pointwise constant divisor comes out of the sum. -/
theorem sum_div_ico (lo hi : ℕ) (a b : ℕ → ℝ) (c : ℝ)
    (h : ∀ k, lo ≤ k → k < hi → a k = b k / c) :
    ∑ k ∈ Finset.Ico lo hi, a k = (∑ k ∈ Finset.Ico lo hi, b k) / c := by
  rw [Finset.sum_div]
  apply Finset.sum_congr rfl
  intro k hk
  rw [Finset.mem_Ico] at hk
  exact h k hk.1 hk.2

/-- `lemma:sum_single` / `lemma:sum_empty`: one-term and empty range sums. -/
theorem sum_single_ico (lo : ℕ) (a : ℕ → ℝ) :
    ∑ k ∈ Finset.Ico lo (lo + 1), a k = a lo := by
  simp

theorem sum_empty_ico (lo hi : ℕ) (a : ℕ → ℝ) (h : hi ≤ lo) :
    ∑ k ∈ Finset.Ico lo hi, a k = 0 := by
  rw [Finset.Ico_eq_empty_of_le h]
  simp
