"""C09: proposal pools never leave the prior, hold the model's prior and
likelihood values, have the requested size and hand every point out at most
once.  (The distributional half of C09 -- the pool follows the prior inside
the contour -- is a statement about probability measures and is not decided
here.)

Abstract view of a pool: `samples` (rows with a point x, logP, logL) and the
list `indices` of the rows not handed out yet.  POOL_INV: the indices are
pairwise distinct and in range; every row holds the model's log-prior LPr(x)
and log-likelihood LL(x) at its point and the point is inside the prior bounds
(InBounds)."""
from pyvc.contracts import contract, shape, Contract
from .shapes import LP_ARR, LP_ROW

PA = "nessai/proposal/analytic.py"
PR = "nessai/proposal/rejection.py"
PF = "nessai/proposal/flowproposal.py"


def pool_inv(S="self.samples", idx="self.indices"):
    return [
        f"distinct({idx})",
        f"forall(k, 0, len({idx}), 0 <= {idx}[k] and {idx}[k] < len({S}))",
        f"forall(i, 0, len({S}), InBounds({S}[i]['x']) and "
        f"{S}[i]['logP'] == LPr({S}[i]['x']) and "
        f"{S}[i]['logL'] == LL({S}[i]['x']))",
    ]


shape("PoolModel", {}, methods={
    "new_point": Contract(
        "<abstract>", "PoolModel.new_point", params={"N": "Int"},
        trusted=True, trusted_reason="Model.new_point: N draws from the "
        "prior, inside the prior bounds (user / default implementation; "
        "its distribution is not decided here)",
        returns=LP_ARR,
        ensures=["len(result) == N",
                 "forall(i, 0, N, InBounds(result[i]['x']))"]),
    "batch_evaluate_log_prior": Contract(
        "<abstract>", "PoolModel.batch_evaluate_log_prior",
        params={"x": LP_ARR}, trusted=True, trusted_reason="C10",
        returns="Seq(Real)",
        ensures=["len(result) == len(x)",
                 "forall(i, 0, len(x), result[i] == LPr(x[i]['x']))"]),
    "batch_evaluate_log_likelihood": Contract(
        "<abstract>", "PoolModel.batch_evaluate_log_likelihood",
        params={"x": LP_ARR}, trusted=True,
        trusted_reason="C10; REQUIRES every point inside the prior bounds "
        "(the likelihood is never evaluated outside the prior support)",
        requires=["forall(i, 0, len(x), InBounds(x[i]['x']))"],
        returns="Seq(Real)",
        ensures=["len(result) == len(x)",
                 "forall(i, 0, len(x), result[i] == LL(x[i]['x']))"]),
})
shape("AnalyticPool", {
    "samples": LP_ARR, "indices": "List(Int)", "populated": "Bool",
    "poolsize": "Int", "model": "Obj(PoolModel)", "population_time": "Any",
}, cls="AnalyticProposal")

contract(
    PA, "AnalyticProposal.populate", props=["C09"],
    self_shape="AnalyticPool", params={"N": "Opt(Int)"},
    requires=["implies(N is not None, N >= 0)", "self.poolsize >= 0"],
    modifies=["self.samples", "self.indices", "self.populated"],
    ensures=pool_inv() + [
        "len(self.samples) == (self.poolsize if N is None else N)",
        "len(self.indices) == len(self.samples)", "self.populated",
    ],
)
DRAW_ENS = [
    # the point handed out is a pool row whose index leaves the index list:
    # it cannot be handed out again
    "len(self.indices) == final('n_before', 'Int') - 1",
    "forall(k, 0, len(self.indices), "
    "self.indices[k] != final('index', 'Int'))",
    "0 <= final('index', 'Int') and "
    "final('index', 'Int') < len(self.samples)",
    "row_eq(result, self.samples[final('index', 'Int')])",
    "InBounds(result['x']) and result['logP'] == LPr(result['x']) and "
    "result['logL'] == LL(result['x'])",
    "self.populated == (len(self.indices) > 0)",
]
contract(
    PA, "AnalyticProposal.draw", props=["C09"], self_shape="AnalyticPool",
    params={"old_sample": LP_ROW, "**kwargs": {}},
    requires=pool_inv() + ["self.poolsize >= 1",
                           "implies(self.populated, "
                           "len(self.indices) >= 1)"],
    modifies=["self.samples", "self.indices", "self.populated",
              "self.population_time"],
    returns=LP_ROW,
    ensures=pool_inv() + [e.replace("final('n_before', 'Int')",
                                    "(old(len(self.indices)) if "
                                    "old(self.populated) else "
                                    "self.poolsize)")
                          for e in DRAW_ENS],
)

# ---- rejection sampling from the prior (RejectionProposal) -----------------
shape("RejectionPool", {
    "samples": LP_ARR, "indices": "List(Int)", "populated": "Bool",
    "poolsize": "Int", "model": "Obj(PoolModel)",
    "population_acceptance": "Any", "_checked_population": "Bool",
}, cls="RejectionProposal", methods={
    "log_proposal": Contract(
        "<abstract>", "RejectionProposal.log_proposal", params={"x": LP_ARR},
        trusted=True, trusted_reason="log-density of the proposal "
        "(the model's own new_point density): some real per point",
        returns="Seq(Real)", ensures=["len(result) == len(x)"]),
})
contract(PR, "RejectionProposal.draw_proposal", props=["C09"], inline=True,
         verify=False, self_shape="RejectionPool")
contract(
    PR, "RejectionProposal.compute_weights", props=["C09"],
    self_shape="RejectionPool",
    params={"x": LP_ARR, "return_log_prior": ("const", True)},
    returns="Tuple(Seq(Real),Seq(Real))",
    ensures=["len(result[0]) == len(x) and len(result[1]) == len(x)",
             "forall(i, 0, len(x), result[1][i] == LPr(x[i]['x']))"],
)
contract(
    PR, "RejectionProposal.populate", props=["C09"],
    self_shape="RejectionPool", params={"N": "Opt(Int)"},
    requires=["implies(N is not None, N >= 1)", "self.poolsize >= 1"],
    modifies=["self.samples", "self.indices", "self.populated",
              "self.population_acceptance", "self._checked_population"],
    ensures=pool_inv() + [
        # a prior-rejection pool holds at most the requested number
        "len(self.samples) <= (self.poolsize if N is None else N)",
        "len(self.indices) == len(self.samples)", "self.populated",
    ],
)

# ---- the flow-based pool (FlowProposal) ---------------------------------------
shape("FlowPool", {
    "samples": LP_ARR, "indices": "List(Int)", "populated": "Bool",
    "populating": "Bool", "update_poolsize": "Bool", "poolsize": "Int",
    "ns_acceptance": "Real",
}, cls="FlowProposal", methods={
    "update_poolsize_scale": Contract(
        "<abstract>", "FlowProposal.update_poolsize_scale",
        params={"acceptance": "Real"}, trusted=True,
        trusted_reason="rescales the pool size (stays >= 1: ASSUMED)",
        modifies=["self.poolsize"], ensures=["self.poolsize >= 1"]),
    "populate": Contract(
        "<abstract>", "FlowProposal.populate",
        params={"worst_point": LP_ROW, "N": "Int"}, trusted=True,
        trusted_reason="ASSUMED here: the population loop (rejection "
        "sampling with the flow; its building blocks backward_pass / "
        "check_prior_bounds are proved to return in-bounds points only) "
        "fills a pool of exactly N rows with the model's prior and "
        "likelihood and a fresh permutation as index list",
        requires=["N >= 1"],
        modifies=["self.samples", "self.indices", "self.populated"],
        ensures=pool_inv() + ["len(self.samples) == N",
                              "len(self.indices) == N", "self.populated"]),
})
contract(
    PF, "FlowProposal.draw", props=["C09"], self_shape="FlowPool",
    params={"worst_point": LP_ROW},
    requires=pool_inv() + ["self.poolsize >= 1",
                           "implies(self.populated, "
                           "len(self.indices) >= 1)"],
    modifies=["self.samples", "self.indices", "self.populated",
              "self.populating", "self.poolsize"],
    returns=LP_ROW,
    loops={0: {"inv": pool_inv() + [
        "self.poolsize >= 1",
        "implies(self.populated, len(self.indices) >= 1)"],
        "modifies": ["self.samples", "self.indices", "self.populated"]}},
    ensures=pool_inv() + [
        "implies(old(self.populated), len(self.indices) == "
        "old(len(self.indices)) - 1)",
        "forall(k, 0, len(self.indices), "
        "self.indices[k] != final('index', 'Int'))",
        "0 <= final('index', 'Int') and "
        "final('index', 'Int') < len(self.samples)",
        "row_eq(result, self.samples[final('index', 'Int')])",
        "InBounds(result['x']) and result['logP'] == LPr(result['x']) and "
        "result['logL'] == LL(result['x'])",
        "self.populated == (len(self.indices) > 0)",
    ],
)
