"""C09: proposal pools never leave the prior, hold the model's prior and
likelihood values, have the requested size and hand every point out at most
once.  (The distributional half of C09 -- the pool follows the prior inside
the contour -- is a statement about probability measures and is not decided
here.)

Abstract view of a pool: `samples` (rows with a point x, logP, logL) and the
list `indices` of the rows not handed out yet.  POOL_INV: the indices are
pairwise distinct and in range; every row holds the model's log-prior LPr(x)
and log-likelihood LL(x) at its point and the point is inside the prior bounds
(InBounds)."""
from pyvc.contracts import contract, shape, Contract
from .shapes import LP_ARR, LP_ROW

PA = "nessai/proposal/analytic.py"
PR = "nessai/proposal/rejection.py"
PF = "nessai/proposal/flowproposal.py"


def pool_inv(S="self.samples", idx="self.indices"):
    return [
        f"distinct({idx})",
        f"forall(k, 0, len({idx}), 0 <= {idx}[k] and {idx}[k] < len({S}))",
        f"forall(i, 0, len({S}), InBounds({S}[i]['x']) and "
        f"{S}[i]['logP'] == LPr({S}[i]['x']) and "
        f"{S}[i]['logL'] == LL({S}[i]['x']))",
    ]


shape("PoolModel", {}, methods={
    "new_point": Contract(
        "<abstract>", "PoolModel.new_point", params={"N": "Int"},
        trusted=True, trusted_reason="Model.new_point: N draws from the "
        "prior, inside the prior bounds (user / default implementation; "
        "its distribution is not decided here)",
        returns=LP_ARR,
        ensures=["len(result) == N",
                 "forall(i, 0, N, InBounds(result[i]['x']))"]),
    "batch_evaluate_log_prior": Contract(
        "<abstract>", "PoolModel.batch_evaluate_log_prior",
        params={"x": LP_ARR}, trusted=True, trusted_reason="C10",
        returns="Seq(Real)",
        ensures=["len(result) == len(x)",
                 "forall(i, 0, len(x), result[i] == LPr(x[i]['x']))"]),
    "batch_evaluate_log_likelihood": Contract(
        "<abstract>", "PoolModel.batch_evaluate_log_likelihood",
        params={"x": LP_ARR}, trusted=True,
        trusted_reason="C10; REQUIRES every point inside the prior bounds "
        "(the likelihood is never evaluated outside the prior support)",
        requires=["forall(i, 0, len(x), InBounds(x[i]['x']))"],
        returns="Seq(Real)",
        ensures=["len(result) == len(x)",
                 "forall(i, 0, len(x), result[i] == LL(x[i]['x']))"]),
})
shape("AnalyticPool", {
    "samples": LP_ARR, "indices": "List(Int)", "populated": "Bool",
    "poolsize": "Int", "model": "Obj(PoolModel)", "population_time": "Any",
}, cls="AnalyticProposal")

contract(
    PA, "AnalyticProposal.populate", props=["C09", "C01"],
    self_shape="AnalyticPool", params={"N": "Opt(Int)"},
    requires=["implies(N is not None, N >= 0)", "self.poolsize >= 0"],
    modifies=["self.samples", "self.indices", "self.populated"],
    ensures=pool_inv() + [
        "len(self.samples) == (self.poolsize if N is None else N)",
        "len(self.indices) == len(self.samples)", "self.populated",
    ],
)
DRAW_ENS = [
    # the point handed out is a pool row whose index leaves the index list:
    # it cannot be handed out again
    "len(self.indices) == final('n_before', 'Int') - 1",
    "forall(k, 0, len(self.indices), "
    "self.indices[k] != final('index', 'Int'))",
    "0 <= final('index', 'Int') and "
    "final('index', 'Int') < len(self.samples)",
    "row_eq(result, self.samples[final('index', 'Int')])",
    "InBounds(result['x']) and result['logP'] == LPr(result['x']) and "
    "result['logL'] == LL(result['x'])",
    "self.populated == (len(self.indices) > 0)",
]
contract(
    PA, "AnalyticProposal.draw", props=["C09", "C01"], self_shape="AnalyticPool",
    params={"old_sample": LP_ROW, "**kwargs": {}},
    requires=pool_inv() + ["self.poolsize >= 1",
                           "implies(self.populated, "
                           "len(self.indices) >= 1)"],
    modifies=["self.samples", "self.indices", "self.populated",
              "self.population_time"],
    returns=LP_ROW,
    ensures=pool_inv() + [e.replace("final('n_before', 'Int')",
                                    "(old(len(self.indices)) if "
                                    "old(self.populated) else "
                                    "self.poolsize)")
                          for e in DRAW_ENS],
)

# ---- rejection sampling from the prior (RejectionProposal) -----------------
shape("RejectionPool", {
    "samples": LP_ARR, "indices": "List(Int)", "populated": "Bool",
    "poolsize": "Int", "model": "Obj(PoolModel)",
    "population_acceptance": "Any", "_checked_population": "Bool",
}, cls="RejectionProposal", methods={
    "log_proposal": Contract(
        "<abstract>", "RejectionProposal.log_proposal", params={"x": LP_ARR},
        trusted=True, trusted_reason="log-density of the proposal "
        "(the model's own new_point density): some real per point",
        returns="Seq(Real)", ensures=["len(result) == len(x)"]),
})
contract(PR, "RejectionProposal.draw_proposal", props=["C09", "C01"], inline=True,
         verify=False, self_shape="RejectionPool")
contract(
    PR, "RejectionProposal.compute_weights", props=["C09", "C01"],
    self_shape="RejectionPool",
    params={"x": LP_ARR, "return_log_prior": ("const", True)},
    returns="Tuple(Seq(Real),Seq(Real))",
    ensures=["len(result[0]) == len(x) and len(result[1]) == len(x)",
             "forall(i, 0, len(x), result[1][i] == LPr(x[i]['x']))"],
)
contract(
    PR, "RejectionProposal.populate", props=["C09", "C01"],
    self_shape="RejectionPool", params={"N": "Opt(Int)"},
    requires=["implies(N is not None, N >= 1)", "self.poolsize >= 1"],
    modifies=["self.samples", "self.indices", "self.populated",
              "self.population_acceptance", "self._checked_population"],
    ensures=pool_inv() + [
        # a prior-rejection pool holds at most the requested number
        "len(self.samples) <= (self.poolsize if N is None else N)",
        "len(self.indices) == len(self.samples)", "self.populated",
    ],
)

# ---- the flow-based pool (FlowProposal) ---------------------------------------
shape("FlowPool", {
    "samples": LP_ARR, "indices": "List(Int)", "populated": "Bool",
    "populating": "Bool", "update_poolsize": "Bool", "poolsize": "Int",
    "ns_acceptance": "Real",
}, cls="FlowProposal", methods={
    "update_poolsize_scale": Contract(
        "<abstract>", "FlowProposal.update_poolsize_scale",
        params={"acceptance": "Real"}, trusted=True,
        trusted_reason="rescales the pool size (stays >= 1: ASSUMED)",
        modifies=["self.poolsize"], ensures=["self.poolsize >= 1"]),
    "populate": Contract(
        "<abstract>", "FlowProposal.populate",
        params={"worst_point": LP_ROW, "N": "Int"}, trusted=True,
        trusted_reason="the postcondition proved for FlowProposal.populate "
        "below (variants c09 / c09-acc), restated for the attributes draw "
        "uses, under the ASSUMPTION that the max_samples escape hatch of "
        "the accumulate-weights mode is not taken (then the pool may hold "
        "fewer than N rows, possibly none, and draw's pop() would fail)",
        requires=["N >= 1"],
        modifies=["self.samples", "self.indices", "self.populated"],
        ensures=pool_inv() + ["len(self.samples) == N",
                              "len(self.indices) == N", "self.populated"]),
})
contract(
    PF, "FlowProposal.draw", props=["C09", "C01"], self_shape="FlowPool",
    params={"worst_point": LP_ROW},
    requires=pool_inv() + ["self.poolsize >= 1",
                           "implies(self.populated, "
                           "len(self.indices) >= 1)"],
    modifies=["self.samples", "self.indices", "self.populated",
              "self.populating", "self.poolsize"],
    returns=LP_ROW,
    loops={0: {"inv": pool_inv() + [
        "self.poolsize >= 1",
        "implies(self.populated, len(self.indices) >= 1)"],
        "modifies": ["self.samples", "self.indices", "self.populated"]}},
    ensures=pool_inv() + [
        "implies(old(self.populated), len(self.indices) == "
        "old(len(self.indices)) - 1)",
        "forall(k, 0, len(self.indices), "
        "self.indices[k] != final('index', 'Int'))",
        "0 <= final('index', 'Int') and "
        "final('index', 'Int') < len(self.samples)",
        "row_eq(result, self.samples[final('index', 'Int')])",
        "InBounds(result['x']) and result['logP'] == LPr(result['x']) and "
        "result['logL'] == LL(result['x'])",
        "self.populated == (len(self.indices) > 0)",
    ],
)

# ---- FlowProposal.populate: the rejection loop that fills the flow pool ------
from .shapes import LP
from . import c08_flows as _c08        # noqa: F401  (FlowModel / AltDistAbs)
LPF_ = "nessai/livepoint.py"
ZT = "Seq(Sort(Zs))"
PT = "Seq(Sort(P))"
# rows as backward_pass returns them: abstract points (sort P)
contract(LPF_, "empty_structured_array", variant_name="c09", props=["C09", "C01"],
         trusted=True, verify=False,
         trusted_reason="allocation of n rows of the given dtype (as "
         "abstract points; field defaults: C18's concern)",
         params={"n": "Int", "dtype": "Any"}, requires=["n >= 0"],
         returns=PT, ensures=["len(result) == n"])
shape("FlowPopulate", {
    # what forward_pass / backward_pass (C08 contracts) talk about
    "flow": "Obj(FlowModel)", "alt_dist": "Opt(Obj(AltDistAbs))",
    "prime_parameters": "Any", "model": "Obj(PopModel)",
    # configuration
    "initialised": "Bool", "fixed_radius": "Real",
    "compute_radius_with_all": "Bool", "training_data": "Any",
    "max_radius": "Real", "min_radius": "Real", "truncate_log_q": "Bool",
    "accumulate_weights": "Bool", "use_x_prime_prior": "PyConst(False)",
    "drawsize": "Int", "population_dtype": "Any", "_plot_pool": "Bool",
    "check_acceptance": "Bool",
    # state
    "r": "Real", "indices": "List(Int)", "x": PT, "samples": LP_ARR,
    "population_time": "Any", "acceptance": "List(Real)",
    "population_acceptance": "Any", "populated_count": "Int",
    "populated": "Bool", "_checked_population": "Bool",
}, cls="FlowProposal", methods={
    "radius": Contract("<abstract>", "FlowProposal.radius",
                       params={"z": "Any"}, trusted=True, returns="Real",
                       trusted_reason="latent radius of the worst point "
                       "(a number; irrelevant to the pool invariant)"),
    "get_alt_distribution": Contract(
        "<abstract>", "FlowProposal.get_alt_distribution", trusted=True,
        trusted_reason="optional alternative latent distribution",
        returns="Opt(Obj(AltDistAbs))"),
    "prep_latent_prior": Contract(
        "<abstract>", "FlowProposal.prep_latent_prior", trusted=True,
        trusted_reason="configures the latent sampler", modifies=[]),
    "draw_latent_prior": Contract(
        "<abstract>", "FlowProposal.draw_latent_prior",
        params={"n": "Int"}, trusted=True,
        trusted_reason="n latent draws inside the radius (numerics of the "
        "truncated samplers are not decided)", returns=ZT,
        ensures=["len(result) == n"]),
    "compute_weights": Contract(
        "<abstract>", "FlowProposal.compute_weights",
        params={"x": PT, "log_q": "Seq(Real)"}, trusted=True,
        trusted_reason="log prior - log q per point: in IEEE arithmetic a "
        "point whose log-prior is -inf (or NaN) gets the weight -inf (or "
        "NaN) -- the log q of a kept point is finite (backward_pass discards "
        "the others)",
        returns="Seq(Real)",
        ensures=["len(result) == len(x)",
                 "forall(i, 0, len(x), implies(LPr(x[i]) == -INF or "
                 "isnan(LPr(x[i])), result[i] == -INF or "
                 "isnan(result[i])))"]),
    "convert_to_samples": Contract(
        "<abstract>", "FlowProposal.convert_to_samples",
        params={"x": PT, "plot": "Any"}, trusted=True,
        trusted_reason="use_x_prime_prior=False: fills logP with the "
        "model's log-prior and repacks the fields (structured-array "
        "plumbing: C18's concern); the points are kept",
        returns=LP_ARR,
        ensures=["len(result) == len(x)",
                 "forall(i, 0, len(x), result[i]['x'] == x[i] and "
                 "result[i]['logP'] == LPr(x[i]))"]),
    "compute_acceptance": Contract(
        "<abstract>", "FlowProposal.compute_acceptance",
        params={"logL": "Real"}, trusted=True, returns="Real",
        trusted_reason="fraction of the pool above a likelihood"),
    "plot_pool": Contract("<abstract>", "FlowProposal.plot_pool",
                          params={"x": "Any"}, trusted=True,
                          trusted_reason="plotting"),
})
shape("PopModel", {}, methods={
    "in_bounds": Contract(
        "<abstract>", "PopModel.in_bounds", params={"x": PT},
        trusted=True, trusted_reason="Model.in_bounds as the abstract "
        "predicate InBounds", returns="Seq(Bool)",
        ensures=["len(result) == len(x)",
                 "forall(i, 0, len(x), result[i] == InBounds(x[i]))"]),
    "batch_evaluate_log_likelihood": Contract(
        "<abstract>", "PopModel.batch_evaluate_log_likelihood",
        params={"x": LP_ARR}, trusted=True,
        trusted_reason="C10; REQUIRES every point inside the prior bounds",
        requires=["forall(i, 0, len(x), InBounds(x[i]['x']))"],
        returns="Seq(Real)",
        ensures=["len(result) == len(x)",
                 "forall(i, 0, len(x), result[i] == LL(x[i]['x']))"]),
})
POP_MOD = ["self.r", "self.alt_dist", "self.indices", "self.x",
           "self.samples", "self.population_time", "self.acceptance",
           "self.population_acceptance", "self.populated_count",
           "self.populated", "self._checked_population",
           "self.flow.model.training"]
contract(
    PF, "FlowProposal.populate", variant_name="c09",
    props=["C09", "C01"], self_shape="FlowPopulate", log_domain=False,
    params={"worst_point": LP_ROW, "N": "Int", "plot": "Bool",
            "r": "Opt(Real)", "max_samples": "Int"},
    requires=["N >= 1", "self.drawsize >= 1",
              "not self.accumulate_weights", "self.initialised",
              # (log-q truncation only removes further rows: not modelled)
              "not self.truncate_log_q"],
    modifies=POP_MOD,
    opaque_callees=["FlowProposal.forward_pass"],
    # quick tier: radius handed in, no plotting / acceptance statistics (the
    # radius selection only sets self.r; the thorough tier covers every
    # combination of these flags)
    quick_requires=["r is not None", "not plot", "not self.check_acceptance",
                    "len(self.indices) == 0"],
    loops={0: {
        "declare": {"accept": "Opt(Seq(Bool))"},
        "modifies": ["self.flow.model.training"],
        "inv": ["n_accepted >= 0", "len(samples) == N", "n_proposed >= 0",
                "n_accepted == 0 or n_proposed >= 1",
                # the rows filled so far are in-bounds points
                "forall(i, 0, (n_accepted if n_accepted < N else N), "
                "InBounds(samples[i]))",
                # ... accepted by the rejection step: their log-prior is
                # neither -inf nor NaN
                "forall(i, 0, (n_accepted if n_accepted < N else N), "
                "LPr(samples[i]) != -INF and not isnan(LPr(samples[i])))"],
    }},
    ensures=pool_inv() + [
        # a flow-based pool has exactly the requested size
        "len(self.samples) == N", "len(self.indices) == N",
        "self.populated",
        # every pool point has a finite log-prior (zero-prior points are
        # rejected: their weight is -inf / NaN and no comparison accepts it)
        "forall(i, 0, len(self.samples), self.samples[i]['logP'] != -INF "
        "and not isnan(self.samples[i]['logP']))",
    ],
)

contract(
    PF, "FlowProposal.populate", variant_name="c09-acc",
    props=["C09", "C01"], self_shape="FlowPopulate", log_domain=False,
    params={"worst_point": LP_ROW, "N": "Int", "plot": "Bool",
            "r": "Opt(Real)", "max_samples": "Int"},
    requires=["N >= 1", "self.drawsize >= 1", "self.accumulate_weights",
              "self.initialised", "not self.truncate_log_q"],
    modifies=POP_MOD,
    opaque_callees=["FlowProposal.forward_pass"],
    # quick tier: radius handed in, no plotting / acceptance statistics (the
    # radius selection only sets self.r; the thorough tier covers every
    # combination of these flags)
    quick_requires=["r is not None", "not plot", "not self.check_acceptance",
                    "len(self.indices) == 0"],
    loops={0: {
        "declare": {"accept": "Opt(Seq(Bool))"},
        "modifies": ["self.flow.model.training"],
        "inv": ["n_accepted >= 0", "n_proposed >= 0",
                "n_accepted == 0 or n_proposed >= 1",
                "len(log_weights) == len(samples)",
                "forall(i, 0, len(samples), InBounds(samples[i]))",
                # a point without prior support carries the weight -inf / NaN
                "forall(i, 0, len(samples), implies(LPr(samples[i]) == -INF "
                "or isnan(LPr(samples[i])), log_weights[i] == -INF or "
                "isnan(log_weights[i])))",
                # n_accepted only changes when the acceptance mask is
                # recomputed over all accumulated samples; reaching N ends
                # the loop at once, so then the mask is the current one
                "implies(n_accepted >= N, accept is not None and "
                "len(accept) == len(samples) and "
                "n_accepted == count(accept))",
                "implies(accept is not None, len(accept) <= len(samples))",
                # a mask over all accumulated samples accepts no point whose
                # weight is -inf / NaN
                "implies(accept is not None and "
                "len(accept) == len(samples), forall(k, 0, len(samples), "
                "implies(accept[k], log_weights[k] != -INF and "
                "not isnan(log_weights[k]))))"],
    }},
    ensures=pool_inv() + [
        # exactly the requested size -- unless the documented escape hatch
        # (max_samples proposals reached) ended the loop early
        "len(self.samples) <= N",
        "len(self.samples) == N or "
        "final('n_proposed', 'Int') > max_samples",
        "len(self.indices) == len(self.samples)", "self.populated",
        # every pool point has a finite log-prior (zero-prior points are
        # rejected: their weight is -inf / NaN and no comparison accepts it)
        "forall(i, 0, len(self.samples), self.samples[i]['logP'] != -INF "
        "and not isnan(self.samples[i]['logP']))",
    ],
)

# ---- FlowProposal.convert_to_samples: prior filled in before use ----------------
XP_ARR = "Struct(xp:Sort(X),logP:Real,logL:Real,it:Int)"
shape("ConvModel", {"names": "PyConst(['x'])"}, methods={
    "batch_evaluate_log_prior": Contract(
        "<abstract>", "ConvModel.batch_evaluate_log_prior",
        params={"x": LP_ARR}, trusted=True, trusted_reason="C10",
        returns="Seq(Real)",
        ensures=["len(result) == len(x)",
                 "forall(i, 0, len(x), result[i] == LPr(x[i]['x']))"]),
})
shape("FlowConvert", {
    "use_x_prime_prior": "Bool", "_plot_pool": "Bool",
    "model": "Obj(ConvModel)", "training_data_prime": "Any",
    "output": "Any", "populated_count": "Int",
}, cls="FlowProposal", methods={
    "inverse_rescale": Contract(
        "<abstract>", "FlowProposal.inverse_rescale",
        params={"x_prime": XP_ARR}, trusted=True,
        trusted_reason="primed -> physical space (abstract map Ri, C08); "
        "the non-sampling fields of the result hold their defaults",
        returns=f"Tuple({LP_ARR},Seq(Real))",
        ensures=["len(result[0]) == len(x_prime)",
                 "forall(i, 0, len(x_prime), "
                 "result[0][i]['x'] == Ri(x_prime[i]['xp']))"]),
})
CONV_ENS = ["len(result) == len(x)",
            # every pool row leaves with the model's log-prior at its point,
            # whichever space the pool was drawn in
            "forall(i, 0, len(x), result[i]['logP'] == LPr(result[i]['x']))"]
contract(
    PF, "FlowProposal.convert_to_samples", props=["C09", "C01"],
    self_shape="FlowConvert",
    params={"x": LP_ARR, "plot": "Bool"},
    requires=["not self.use_x_prime_prior"],
    opaque_callees=["plot_1d_comparison"],
    returns=LP_ARR,
    # the pool array handed in is written in place (its logP field)
    modifies=["x"],
    ensures=CONV_ENS + ["forall(i, 0, len(x), result[i]['x'] == x[i]['x'])",
                        "len(x) == old(len(x))",
                        "forall(i, 0, len(x), x[i]['x'] == old(x)[i]['x'] "
                        "and x[i]['logL'] == old(x)[i]['logL'])"],
)
contract(
    PF, "FlowProposal.convert_to_samples", variant_name="x-prime",
    props=["C09", "C01"], self_shape="FlowConvert",
    params={"x": XP_ARR, "plot": "Bool"},
    requires=["self.use_x_prime_prior"],
    opaque_callees=["plot_1d_comparison"],
    returns=LP_ARR,
    ensures=CONV_ENS + ["forall(i, 0, len(x), "
                        "result[i]['x'] == Ri(x[i]['xp']))"],
)

# field ORDER of the pool rows: numpy assigns a structured value to a
# structured slot by position, so rows whose sampling fields are not in the
# model's order would be stored with their coordinates permuted
AB_ARR = "Struct(b:Real,a:Real,logP:Real,logL:Real,it:Int)"
shape("ConvModel2", {"names": "PyConst(['a', 'b'])"}, methods={
    "batch_evaluate_log_prior": Contract(
        "<abstract>", "ConvModel2.batch_evaluate_log_prior",
        params={"x": AB_ARR}, trusted=True, trusted_reason="C10",
        returns="Seq(Real)", ensures=["len(result) == len(x)"]),
})
shape("FlowConvert2", {
    "use_x_prime_prior": "PyConst(False)", "_plot_pool": "Bool",
    "model": "Obj(ConvModel2)",
}, cls="FlowProposal")
contract(
    PF, "FlowProposal.convert_to_samples", variant_name="field-order",
    props=["C09", "C01"], self_shape="FlowConvert2",
    # the proposal works in its own parameter order (here b before a)
    params={"x": AB_ARR, "plot": "Bool"},
    returns="Struct(a:Real,b:Real,logP:Real,logL:Real,it:Int)",
    modifies=["x"],
    ensures=["field_names(result) == ['a', 'b', 'logP', 'logL', 'it']",
             "forall(i, 0, len(x), result['a'][i] == old(x['a'])[i] and "
             "result['b'][i] == old(x['b'])[i])"],
)
