"""C12, timings: 'timings continue cumulatively, neither reset nor double
counted'.

The wall clock is modelled in contracts marked clock=True: every
datetime.datetime.now() is a fresh real number of seconds, not smaller than
any time observed before it; a duration is its number of seconds.

The sampler carries the ghost attribute `ghost_proc_start`: the time at which
the current process took the sampler over (constructed it, or un-pickled it
when resuming).  `sampling_start_time` of a freshly un-pickled sampler is
STALE: BaseNestedSampler.checkpoint adds `now - sampling_start_time` to
`sampling_time` and pickles the sampler before it resets the start time, so
the pickled start time lies before the pickled total.  The property is
decomposed into

 (a) checkpoint (real body): if the start time is not stale it adds exactly
     the time since the start time, never decreases the total, and moves the
     start time to (at least) the time up to which it has counted;
 (b) update_history / current_sampling_time: what is recorded lies between
     the total and the total plus the time since the (non-stale) start;
 (c) both samplers' nested_sampling_loop (real bodies, the stopping-rule
     contracts of C15 extended with the timers): whatever the start time is
     on entry, it has been reset by this process before the first callee
     that reads it runs -- every such call site carries the precondition
     `self.sampling_start_time >= self.ghost_proc_start`;
 (d) which callees read the start time is not a claim made here: every other
     callee's '#clock' contract is marked no_read (discharged by read-frame
     inference over the real code, transitively through self.m() calls,
     super() calls and property getters) and frame_check (it does not write
     the timers either).
"""
import ast

from pyvc.contracts import contract, shape, CONTRACTS, SHAPES
from pyvc.front import ClassIndex
from . import c01_nestedsampler, c13_interrupt, c15_stopping  # noqa: F401,E402

SB = "nessai/samplers/base.py"
NS = "nessai/samplers/nestedsampler.py"
INS = "nessai/samplers/importancesampler.py"
TIMERS = ["self.sampling_time", "self.sampling_start_time"]
FRESH = "self.sampling_start_time >= self.ghost_proc_start"
NOT_FUTURE = "self.sampling_start_time <= clock()"

# ---- (a) the checkpoint method ---------------------------------------------
shape("SamplerClock", {
    "history": "Opt(Dict(checkpoint_iterations:List(Int)))",
    "iteration": "Int",
    "checkpoint_on_iteration": "Bool",
    "_last_checkpoint": "Real",
    "checkpoint_interval": "Real",
    "sampling_time": "Real",
    "sampling_start_time": "Real",
    "ghost_proc_start": "Real",
    "finalised": "Bool",
    "checkpoint_callback": "None",
    "resume_file": "Any",
}, cls="BaseNestedSampler")

NOW = "final('now', 'Real')"
WRITTEN = (f"self.sampling_time == old(self.sampling_time) + "
           f"({NOW} - old(self.sampling_start_time)) and "
           f"self.sampling_start_time >= {NOW} and {NOW} >= c0")
SAME = ("self.sampling_time == old(self.sampling_time) and "
        "self.sampling_start_time == old(self.sampling_start_time)")
contract(
    SB, "BaseNestedSampler.checkpoint", variant_name="clock", props=["C12"],
    self_shape="SamplerClock", clock=True,
    params={"periodic": "Bool", "force": "Bool", "save_existing": "Bool"},
    let={"c0": "clock()"},
    requires=[FRESH, NOT_FUTURE, "self.ghost_proc_start <= clock()",
              "self.sampling_time >= 0"],
    opaque_callees=["safe_file_dump"],
    modifies=["self.history", "self._last_checkpoint"] + TIMERS,
    ensures=[
        # either nothing was due (both timers untouched) or the time since
        # the start time -- all of it spent in this process -- is added once
        # and the start time moves to the instant up to which it was counted
        f"({SAME}) or ({WRITTEN})",
        f"implies(not periodic or force, {WRITTEN})",
        # never reset, never stale afterwards
        "self.sampling_time >= old(self.sampling_time)",
        FRESH, NOT_FUTURE,
        # nothing outside this process's life time is added
        "self.sampling_time - old(self.sampling_time) <= "
        "clock() - self.ghost_proc_start",
    ],
)

# ---- (b) what the history records ------------------------------------------
shape("SamplerHist", {
    "history": "Dict(likelihood_evaluations:List(Int),"
               "sampling_time:List(Real))",
    "sampling_time": "Real", "sampling_start_time": "Real",
    "ghost_proc_start": "Real", "finalised": "Bool",
    "total_likelihood_evaluations": "Int",
}, cls="BaseNestedSampler")
HS = "self.history['sampling_time']"
contract(
    SB, "BaseNestedSampler.update_history", variant_name="clock",
    props=["C12"], self_shape="SamplerHist", clock=True,
    let={"c0": "clock()"},
    requires=[FRESH, NOT_FUTURE, "self.ghost_proc_start <= clock()"],
    modifies=["self.history"],
    ensures=[
        f"len({HS}) == old(len({HS})) + 1",
        f"forall(i, 0, old(len({HS})), {HS}[i] == old({HS})[i])",
        # the recorded value: the total so far, plus (for a running sampler)
        # the time since the start time, all of it within this process
        f"implies(self.finalised, {HS}[len({HS}) - 1] == self.sampling_time)",
        f"implies(not self.finalised, {HS}[len({HS}) - 1] >= "
        f"self.sampling_time + (c0 - self.sampling_start_time) and "
        f"{HS}[len({HS}) - 1] <= self.sampling_time + "
        f"(clock() - self.ghost_proc_start))",
    ],
)


# ---- (c), (d) the two loops ------------------------------------------------
def _self_calls(file, qual):
    """names of the methods / properties `qual` reaches as self.<name>"""
    ci = ClassIndex.get()
    cls, meth = qual.split(".")
    _, fn, _ = ci.find_method(cls, meth)
    out = []
    for node in ast.walk(fn):
        if isinstance(node, ast.Attribute) and isinstance(
                node.value, ast.Name) and node.value.id == "self":
            d, f2, k = ci.find_method(cls, node.attr)
            if f2 is not None and node.attr not in out:
                out.append(node.attr)
    return out


def clock_loop(file, cls, base_shape, readers, replay=None):
    """the '#clock' family for `cls`.nested_sampling_loop: the C15 contract
    of the loop and of each callee, on a shape that also has the timers."""
    ci = ClassIndex.get()
    sh = SHAPES[base_shape]
    cshape = f"{cls}Clock"
    shape(cshape, dict(sh.attrs, sampling_time="Real",
                       sampling_start_time="Real", ghost_proc_start="Real",
                       _last_checkpoint="Real", checkpoint_interval="Real",
                       checkpoint_on_iteration="Bool",
                       checkpoint_callback="None", resume_file="Any",
                       history="Opt(Dict(checkpoint_iterations:List(Int),"
                       "likelihood_evaluations:List(Int),"
                       "sampling_time:List(Real)))"),
          cls=sh.cls, invariants=sh.invariants, methods=sh.methods)
    qual = f"{cls}.nested_sampling_loop"
    for name in _self_calls(file, qual):
        dcls, fn, kind = ci.find_method(cls, name)
        base = CONTRACTS.get((ci.classes[dcls]["file"], f"{dcls}.{name}"))
        if base is None or base.inline:
            continue          # inlined (properties): executed with the body
        if (base.file, base.func + "#clock") in CONTRACTS:
            continue          # under its own (proved) '#clock' contract
        kw = dict(base.extra)
        kw.pop("frame_check", None)
        rd = name in readers
        contract(
            base.file, base.func, variant_name="clock", props=["C12"],
            self_shape=cshape, params=base.params, returns=base.returns,
            trusted=True, verify=False, frame_check=(kind == "method"),
            trusted_reason="the callee's contract of C15 / C01 (proved or "
            "assumed there) on a sampler that also has the timers; what is "
            "new here -- it does not write the timers"
            + ("" if rd else " and never reads the start time")
            + " -- is discharged by frame inference",
            requires=list(base.requires) + (readers[name].get("requires", [])
                                            if rd else []),
            # (history / checkpoint bookkeeping is not the subject here)
            modifies=list(base.modifies) + BOOK + (
                readers[name].get("modifies", []) if rd else []),
            ensures=list(base.ensures) + (readers[name].get("ensures", [])
                                          if rd else []),
            raises=base.raises,
            **({} if rd else {"no_read": ["sampling_start_time"],
                               "no_read_tolerate": TOLERATE.get(name, [])}),
            **{k: v for k, v in kw.items() if k in ("nonneg_frame",)},
        )
    b = CONTRACTS[(file, qual)]
    loops = {}
    for k, lp in b.loops.items():
        lp = dict(lp)
        lp["inv"] = list(lp.get("inv", [])) + [
            FRESH, NOT_FUTURE, "self.ghost_proc_start <= clock()",
            "self.sampling_time >= 0"]
        lp["modifies"] = list(lp.get("modifies", [])) + TIMERS + BOOK
        loops[k] = lp
    contract(
        file, qual, variant_name="clock", props=["C12"], self_shape=cshape,
        clock=True, params=b.params, returns=b.returns,
        # the start time on entry is arbitrary (stale after a resume)
        requires=list(b.requires) + ["self.ghost_proc_start <= clock()",
                                     "self.sampling_time >= 0"],
        modifies=list(b.modifies) + TIMERS + BOOK, loops=loops,
        hints=list(b.hints), replay=replay,
        ensures=["implies(not old(self.finalised), " + FRESH + ")"],
    )


BOOK = ["self.history", "self._last_checkpoint"]
# getattr(self, name) with name one of the stopping-criterion keys
# (ImportanceNestedSampler.stopping_criterion_aliases: properties of the
# evidence state): ASSUMED not to name a timer
TOLERATE = {"compute_stopping_criterion": ["getattr(self"]}
READER = {"requires": [FRESH, NOT_FUTURE, "self.sampling_time >= 0"],
          "modifies": TIMERS,
          "ensures": [FRESH, NOT_FUTURE,
                      "self.sampling_time >= old(self.sampling_time)"]}
RO_READER = {"requires": [FRESH]}
clock_loop(NS, "NestedSampler", "NestedSampler", {
    "update_state": READER,        # update_history + periodic checkpoint
    "checkpoint": READER,
    "finalise": READER,            # (frame inference: it checkpoints)
    # (found by the read-frame inference: training may checkpoint)
    "check_state": READER, "consume_sample": READER,
})
clock_loop(INS, "ImportanceNestedSampler", "ImportanceNestedSampler", {
    "update_history": RO_READER,
    "checkpoint": READER,
    "produce_plots": RO_READER,    # plot_state prints the sampling time
    "finalise": READER,            # (frame inference: it checkpoints)
}, replay={"module": "replay.custom", "func": "script_probe",
           "script": "c12_ins_timing.py", "args": []})


# ======================================================================
# C12: every checkpoint is taken in a resumable state.
# NestedSampler.consume_sample records the worst live point (nested_samples,
# evidence state, iteration) BEFORE it looks for the replacement.  When the
# pool runs empty during that search it calls check_state(), which may
# retrain the flow, and train_proposal (contract in c12_resume.py) calls
# checkpoint(periodic=True) when checkpoint_on_training is set.  A
# checkpoint written there pickles a sampler whose last recorded point is
# still in the live set: a run resumed from it records and integrates that
# point a second time.  The '#ckpt' contract of check_state therefore
# REQUIRES that, with checkpoint_on_training, the point recorded last has
# left the live set; consume_sample#ckpt is the C01 contract of the real
# body checked against it.
# ======================================================================
_nsb = SHAPES["NestedSampler"]
shape("NestedSamplerCkpt", dict(_nsb.attrs, checkpoint_on_training="Bool"),
      cls=_nsb.cls, invariants=_nsb.invariants, methods=_nsb.methods)
_cs = CONTRACTS[(NS, "NestedSampler.check_state")]
_LAST = "self.nested_samples[len(self.nested_samples) - 1]"
contract(
    NS, "NestedSampler.check_state", variant_name="ckpt", props=["C12"],
    trusted=True, verify=False, self_shape="NestedSamplerCkpt",
    trusted_reason="the frame contract of C01 plus: training may write a "
    "checkpoint when checkpoint_on_training is set (train_proposal, "
    "contract in c12_resume.py), so the state must be resumable then",
    params=_cs.params, modifies=_cs.modifies, ensures=_cs.ensures,
    requires=list(_cs.requires) + [
        "implies(self.checkpoint_on_training and "
        "len(self.nested_samples) > 0 and self.live_points is not None, "
        f"not row_eq(self.live_points[0], {_LAST}))"],
)
_cb = CONTRACTS[(NS, "NestedSampler.consume_sample")]
contract(
    NS, "NestedSampler.consume_sample", variant_name="ckpt", props=["C12"],
    self_shape="NestedSamplerCkpt", params=_cb.params,
    requires=_cb.requires, modifies=_cb.modifies, loops=_cb.loops,
    hints=list(_cb.hints), ensures=[],
    ident_name="NestedSampler.consume_sample#ckpt",
    replay={"module": "replay.custom", "func": "script_probe",
            "script": "c12_ckpt_on_training.py", "args": []},
)
