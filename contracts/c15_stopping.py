"""C15: sampling stops exactly per the stopping rule; finished runs are
idempotent.  (Standard sampler part; the INS part is further down.)"""
from pyvc.contracts import contract
from .shapes import NS, EV, LP_ROW
from .c01_nestedsampler import LIVE_INV, CONSUME_MOD, FRAME_REASON

SB = "nessai/samplers/base.py"

# ---- bookkeeping callees: only their frame is relied on -----------------
for _name, _params in (("check_resume", {}),
                       ("periodically_log_state", {}),
                       ("check_insertion_indices",
                        {"rolling": "Bool", "filename": "Any"})):
    contract(NS if _name != "periodically_log_state" else SB,
             ("NestedSampler." if _name != "periodically_log_state"
              else "BaseNestedSampler.") + _name,
             props=["C15", "C13", "C05"], trusted=True,
             trusted_reason=FRAME_REASON, frame_check=True,
             self_shape="NestedSampler", params=_params,
             modifies=(["self.proposal", "self.resumed"]
                       if _name == "check_resume" else []))
contract(SB, "BaseNestedSampler.close_pool", props=["C15", "C13", "C05"],
         trusted=True, trusted_reason=FRAME_REASON, frame_check=True,
         self_shape="NestedSampler", params={"code": "Any"},
         modifies=["self.model"])
contract(SB, "BaseNestedSampler.checkpoint", props=["C15", "C13", "C05"],
         trusted=True, trusted_reason=FRAME_REASON + " (the file protocol "
         "is C11's subject)", frame_check=True, self_shape="NestedSampler",
         params={"periodic": "Bool", "force": "Bool",
                 "save_existing": "Bool"},
         # ghost: number of checkpoint files written (this method is the
         # only writer; it may also return early for a periodic request)
         modifies=["self.ghost_ckpt_writes"],
         ensures=["self.ghost_ckpt_writes >= old(self.ghost_ckpt_writes)"])
contract(
    NS, "NestedSampler.initialise", props=["C15", "C13", "C05"],
    trusted=True,
    trusted_reason="initialisation of proposals / history is outside the "
    "subset; ASSUMED to establish the sampler invariant for a fresh run "
    "(populate_live_points proves the live-set part: full, sorted, it = 0, "
    "finite; the constructor sets iteration = 0, nested_samples = [], a "
    "fresh evidence state)",
    params={"live_points": "Bool"},
    modifies=CONSUME_MOD + ["self.initialised", "self.finalised"],
    nonneg_frame=["block_iteration"],
    ensures=LIVE_INV + ["self.initialised", "self.block_iteration >= 0",
                        # initialise only ever *clears* the flag
                        "implies(not old(self.finalised), "
                        "not self.finalised)"],
)

LOOP_MOD = sorted(set(CONSUME_MOD + ["self.block_acceptance",
                                     "self.block_iteration",
                                     "self.proposal", "self.model",
                                     "self.ghost_ckpt_writes"]))

contract(
    NS, "NestedSampler.nested_sampling_loop",
    props=["C15", "C05", "C13"],
    requires=[
        # class invariant of an initialised (fresh or resumed) sampler
        "implies(self.initialised and not self.finalised, "
        + " and ".join(f"({e})" for e in LIVE_INV) + ")",
        "self.max_iteration >= 0", "self.block_iteration >= 0",
    ],
    modifies=LOOP_MOD + ["self.initialised", "self.finalised",
                         "self.resumed", "self.ghost_ckpt_writes"],
    returns="Tuple(Real,Any)",
    loops={0: {
        # the stopping rule, statement by statement: an iteration starts
        # only while the remaining-evidence estimate exceeds the tolerance,
        # the loop is left by its guard only when it no longer does, and an
        # iteration that reaches the cap does not continue
        "body_pre": ["self.condition > self.tolerance"],
        "exit_post": ["self.condition <= self.tolerance"],
        "continue_pre": ["self.iteration < self.max_iteration"],
        "inv": LIVE_INV + ["not self.finalised",
                           "self.block_iteration >= 0"],
               "modifies": LOOP_MOD}},
    ensures=[
        # idempotence: a finished run returns at once (nothing modified:
        # frame obligations below; no likelihood evaluation is reachable
        # because no callee is invoked on this path)
        "implies(old(self.finalised), result[0] == old(self.state.logZ) "
        "and self.model.likelihood_evaluations == "
        "old(self.model.likelihood_evaluations) and "
        "self.iteration == old(self.iteration) and self.finalised)",
        # the loop is left exactly when the remaining-evidence estimate no
        # longer exceeds the tolerance, or at the iteration cap
        "implies(not old(self.finalised) and not self.prior_sampling, "
        "self.condition <= self.tolerance or "
        "self.iteration >= self.max_iteration)",
        # remaining live points are consumed iff the tolerance was reached
        "implies(not old(self.finalised) and not self.prior_sampling and "
        "self.condition <= self.tolerance, self.finalised)",
        "implies(not old(self.finalised) and not self.prior_sampling and "
        "not (self.condition <= self.tolerance), not self.finalised)",
        "implies(not old(self.finalised), result[0] == self.state.logZ)",
        # C05: the number of returned samples is iterations + live points
        # for a finished run, iterations when it was cut short by the cap;
        # their likelihoods ascend; recorded == integrated
        "implies(not old(self.finalised) and self.finalised, "
        "len(self.nested_samples) == self.iteration + self.nlive)",
        "implies(not old(self.finalised) and not self.finalised, "
        "len(self.nested_samples) == self.iteration)",
        # ... and reports the running estimator of exactly those samples
        # (the trapezoidal refinement is part of finalise)
        "implies(not old(self.finalised) and not self.finalised and "
        "not self.prior_sampling, not self.state.ghost_refined)",
        "implies(not old(self.finalised), "
        "sorted_by(self.nested_samples, 'logL'))",
        "implies(not old(self.finalised), len(self.state.logLs) == "
        "len(self.nested_samples) + 1 and forall(i, 0, "
        "len(self.nested_samples), self.state.logLs[i + 1] == "
        "self.nested_samples[i]['logL']))",
    ],
)

# ===================================================== importance sampler
from .shapes import INS

contract(
    INS, "ImportanceNestedSampler.reached_tolerance", props=["C15"],
    requires=["len(self.criterion) == len(self.tolerance)"],
    returns="Bool",
    ensures=[
        # any / all of the configured criteria meet their tolerances
        "implies(self._stop_any, result == exists(k, 0, len(self.criterion), "
        "self.criterion[k] <= self.tolerance[k]))",
        "implies(not self._stop_any, result == forall(k, 0, "
        "len(self.criterion), self.criterion[k] <= self.tolerance[k]))",
    ],
)

contract(
    INS, "ImportanceNestedSampler.configure_iterations", props=["C15"],
    params={"min_iteration": "Opt(Int)", "max_iteration": "Opt(Int)"},
    modifies=["self.min_iteration", "self.max_iteration"],
    ensures=[
        "implies(min_iteration is None, self.min_iteration == -1)",
        "implies(min_iteration is not None, "
        "self.min_iteration == min_iteration)",
        "implies(max_iteration is None, self.max_iteration == INF)",
        "implies(max_iteration is not None, "
        "self.max_iteration == max_iteration)",
    ],
)

# documented names (independent of the class's alias table)
ALIASES = {
    "ratio": "ratio", "ratio_all": "ratio", "ratio_ns": "ratio_ns",
    "Z_err": "Z_err", "evidence_error": "Z_err",
    "log_dZ": "log_dZ", "log_evidence": "log_dZ",
    "ess": "ess", "fractional_error": "fractional_error",
}
KNOWN = " or ".join(f"stopping_criterion == '{a}'" for a in ALIASES)

contract(
    INS, "ImportanceNestedSampler.configure_stopping_criterion",
    props=["C15", "C20"],
    params={"stopping_criterion": "Str", "tolerance": "Real",
            "check_criteria": "Str"},
    modifies=["self.tolerance", "self.criterion", "self._stop_any",
              "self.stopping_criterion"],
    raises={"ValueError": f"not ({KNOWN}) or "
            "(check_criteria != 'any' and check_criteria != 'all')"},
    ensures=[
        f"implies(stopping_criterion == '{a}', "
        f"self.stopping_criterion == ['{c}'])" for a, c in ALIASES.items()
    ] + [
        "len(self.tolerance) == 1 and self.tolerance[0] == tolerance",
        "len(self.criterion) == 1 and self.criterion[0] == INF",
        "self._stop_any == (check_criteria == 'any')",
    ],
)

contract(
    INS, "ImportanceNestedSampler.configure_stopping_criterion",
    variant_name="two-criteria", props=["C15", "C20"],
    params={"stopping_criterion": ("const", ["evidence_error", "ess"]),
            "tolerance": ("const", [0.1, 1000.0]),
            "check_criteria": "Str"},
    modifies=["self.tolerance", "self.criterion", "self._stop_any",
              "self.stopping_criterion"],
    raises={"ValueError":
            "check_criteria != 'any' and check_criteria != 'all'"},
    ensures=[
        "self.stopping_criterion == ['Z_err', 'ess']",
        "self.tolerance == [0.1, 1000.0]",
        "len(self.criterion) == 2",
        "self._stop_any == (check_criteria == 'any')",
    ],
)

_KN = lambda v: " or ".join(f"{v} == '{a}'" for a in ALIASES)   # noqa: E731
contract(
    INS, "ImportanceNestedSampler.configure_stopping_criterion",
    variant_name="two-symbolic", props=["C15", "C20"],
    params={"stopping_criterion": "PyList(Str,2)",
            "tolerance": "PyList(Real,2)", "check_criteria": "Str"},
    modifies=["self.tolerance", "self.criterion", "self._stop_any",
              "self.stopping_criterion"],
    raises={"ValueError":
            f"not ({_KN('stopping_criterion[0]')}) or "
            f"not ({_KN('stopping_criterion[1]')}) or "
            "(check_criteria != 'any' and check_criteria != 'all')"},
    ensures=[
        # each name resolves to its criterion *in the order given*, so that
        # criterion k is compared with tolerance k
        f"implies(stopping_criterion[{k}] == '{a}', "
        f"self.stopping_criterion[{k}] == '{c}')"
        for k in (0, 1) for a, c in ALIASES.items()
    ] + [
        "len(self.stopping_criterion) == 2 and len(self.tolerance) == 2",
        "self.tolerance[0] == tolerance[0] and "
        "self.tolerance[1] == tolerance[1]",
    ],
)

contract(
    INS, "ImportanceNestedSampler.configure_stopping_criterion",
    variant_name="length-mismatch", props=["C15", "C20"],
    params={"stopping_criterion": ("const", ["ratio", "ess"]),
            "tolerance": ("const", [0.1]),
            "check_criteria": ("const", "any")},
    modifies=["self.tolerance", "self.criterion", "self._stop_any",
              "self.stopping_criterion"],
    raises={"ValueError": "True"},
    ensures=["False"],
)

# ---- INS main loop: control skeleton --------------------------------------
INS_FRAME = ("data-path method of the importance sampler (flows, draws, "
             "plots): body not symbolically executed here; only its frame "
             "over the attributes that control stopping is relied on, and "
             "that frame is discharged by frame inference")
# what the level-selection callees need (C17's reported domain); kept as an
# ASSUMED loop invariant: it depends on how many draws land above the
# threshold, which no contract here decides
INS_LIVE_OK = [
    "len(self.live_points_unit) >= 1",
    "self.min_samples >= 1", "self.min_remove >= 1", "self.nlive >= 1",
    "self.min_remove < len(self.live_points_unit)",
    "implies(self.max_samples is not None and self.max_samples != 0, "
    "self.max_samples > self.nlive)",
    "len(self.training_samples.samples) >= self.min_samples",
    "len(self.training_samples.log_q) == len(self.training_samples.samples)",
    "implies(self.n_update is not None, 0 <= self.n_update and "
    "self.n_update < len(self.live_points_unit))",
    "len(self.criterion) == len(self.tolerance)",
    "self.plotting_frequency >= 1",
    "self.threshold_method == 'quantile' or "
    "self.threshold_method == 'entropy'",
]
_TS = "self.training_samples"
# these reach the ordered store only through operations that C04 proves
# leave `samples` / `log_q` untouched (index arrays, threshold, evidence)
_STORE_SAME = [
    f"len({_TS}.samples) == old(len({_TS}.samples))",
    f"len({_TS}.log_q) == old(len({_TS}.log_q))",
]
_INS_CALLEES = {
    "_compute_gradient": ([], []),
    "update_log_likelihood_threshold":
        ([_TS, "self.log_likelihood_threshold"], _STORE_SAME),
    "remove_samples": ([_TS], _STORE_SAME),
    "add_new_proposal_weight": (["self.proposal"], []),
    "update_evidence": ([_TS], _STORE_SAME),
    "compute_importance": ([_TS], _STORE_SAME),
    "log_state": ([], []), "update_history": ([], []),
    "produce_plots": ([], []),
}
for _m, (_mod, _ens) in _INS_CALLEES.items():
    contract(INS, f"ImportanceNestedSampler.{_m}", props=["C15"],
             trusted=True, trusted_reason=INS_FRAME + (
                 "; store contents unchanged (C04)" if _ens else ""),
             frame_check=True, modifies=_mod, ensures=_ens,
             returns=("Int" if _m == "remove_samples" else
                      "Any" if _m == "compute_importance" else None))
contract(INS, "ImportanceNestedSampler.checkpoint", props=["C15", "C13"],
         trusted=True, trusted_reason=INS_FRAME, frame_check=True,
         modifies=[])
contract(INS, "ImportanceNestedSampler.compute_stopping_criterion",
         props=["C15"], trusted=True, frame_check=True,
         trusted_reason=INS_FRAME + "; returns one value per configured "
         "criterion (wiring proved separately for the documented names)",
         modifies=[], returns="List(Real)",
         ensures=["len(result) == len(self.tolerance)"])
contract(INS, "ImportanceNestedSampler.add_and_update_points",
         props=["C15"], trusted=True, frame_check=True,
         trusted_reason=INS_FRAME + "; ASSUMED: the next level still "
         "satisfies the level-selection domain (INS_LIVE_OK)",
         modifies=["self.live_points_unit", "self.training_samples",
                   "self.proposal"],
         ensures=INS_LIVE_OK)
contract(INS, "ImportanceNestedSampler.initialise", props=["C15"],
         trusted=True, frame_check=True,
         trusted_reason=INS_FRAME + "; ASSUMED to establish INS_LIVE_OK",
         modifies=["self.live_points_unit", "self.training_samples",
                   "self.iteration", "self.criterion", "self.proposal"],
         ensures=INS_LIVE_OK + ["self.iteration >= 0"])
contract(INS, "ImportanceNestedSampler.finalise", props=["C15"],
         trusted=True, frame_check=True, trusted_reason=INS_FRAME,
         modifies=["self.finalised", "self.live_points_unit",
                   "self.training_samples", "self.proposal"],
         ensures=["self.finalised"])
for _p in ("log_evidence", "nested_samples_unit", "samples"):
    contract(INS, f"ImportanceNestedSampler.{_p}", props=["C15"],
             trusted=True, trusted_reason="read-only property",
             returns=("Real" if _p == "log_evidence" else "Any"))

INS_LOOP_MOD = ["self.ghost_ckpt_writes",
                "self.live_points_unit", "self.training_samples",
                "self.proposal",
                "self.iteration", "self.criterion", "self.importance",
                "self.log_likelihood_threshold",
                "self.current_training_samples",
                "self.current_training_log_q", "self.training_time"]
REACHED = ("(exists(k, 0, len(self.criterion), self.criterion[k] <= "
           "self.tolerance[k]) if self._stop_any else forall(k, 0, "
           "len(self.criterion), self.criterion[k] <= self.tolerance[k]))")

contract(
    INS, "ImportanceNestedSampler.nested_sampling_loop", props=["C15"],
    requires=["len(self.criterion) == len(self.tolerance)",
              "self.plotting_frequency >= 1"],
    modifies=INS_LOOP_MOD + ["self.finalised"],
    returns="Tuple(Real,Any)",
    # the work of an iteration (first statement after the stop test) starts
    # only if the criteria are not met at or beyond the minimum iteration:
    # the loop is left at the FIRST such iteration
    hints=[("assert_before_stmt", "self._compute_gradient()",
            f"not ({REACHED} and self.iteration >= self.min_iteration)")],
    loops={0: {
        "inv": INS_LIVE_OK + ["not self.finalised"],
        "modifies": INS_LOOP_MOD,
        # an iteration that reaches the cap does not start another one
        "continue_pre": ["self.iteration < self.max_iteration"],
        # an iteration starts only if the criteria are not (yet) met at or
        # beyond the minimum iteration: the loop is left at the FIRST such
        # iteration
        "body_pre": [],
    }},
    ensures=[
        # a finished sampler returns at once: nothing is modified (frame
        # obligations) and no callee is invoked
        "implies(old(self.finalised), self.iteration == old(self.iteration) "
        "and self.finalised)",
        # otherwise the loop is left at the first iteration, at or beyond
        # the minimum, where the configured criteria (any / all) meet their
        # tolerances, or at the iteration cap
        f"implies(not old(self.finalised), ({REACHED} and "
        "self.iteration >= self.min_iteration) or "
        "self.iteration >= self.max_iteration)",
        "implies(not old(self.finalised), self.finalised)",
    ],
)

# ---- C20: every level of the importance sampler draws at least one point ----
# drawing zero points is not survivable: draw_n_samples takes np.min of the
# new log-likelihoods and OrderedSamples.add_samples / get_inverse_indices
# take the max of an empty index array.  With constant draws (or replace_all)
# n_add = nlive >= 1; with variable draws n_add = n_removed, which no contract
# bounds below by 1 (min_samples == nlive is accepted; ties at the threshold).
contract(INS, "ImportanceNestedSampler.add_and_update_points",
         variant_name="c20", props=["C20"], trusted=True, verify=False,
         trusted_reason=INS_FRAME + "; REQUIRES n >= 1 (see above); ASSUMED "
         "to re-establish INS_LIVE_OK",
         params={"n": "Int"}, requires=["n >= 1"],
         modifies=["self.live_points_unit", "self.training_samples",
                   "self.proposal"],
         ensures=INS_LIVE_OK)
contract(
    INS, "ImportanceNestedSampler.nested_sampling_loop", variant_name="c20",
    props=["C20"],
    requires=["len(self.criterion) == len(self.tolerance)",
              "self.plotting_frequency >= 1"],
    modifies=INS_LOOP_MOD + ["self.finalised"],
    returns="Tuple(Real,Any)",
    loops={0: {"inv": INS_LIVE_OK + ["not self.finalised"],
               "modifies": INS_LOOP_MOD}},
    replay={"module": "replay.custom", "func": "script_probe",
            "script": "c20_zero_removal.py", "args": [50, 50]},
    ensures=["implies(not old(self.finalised), self.finalised)"],
)

# ---- C20: training options never reach torch's data loading with an invalid
# ---- batch size (empty validation split, small training sets, ...) ----------
from pyvc.contracts import shape, Contract   # noqa: E402
FMB = "nessai/flowmodel/base.py"
shape("FlowModelPrep", {"initialised": "Bool", "device": "Any"},
      cls="FlowModel", methods={
    "initialise": Contract("<abstract>", "FlowModel.initialise",
                           trusted=True, trusted_reason="builds the flow",
                           modifies=["self.initialised"]),
    "check_batch_size": Contract(
        "<abstract>", "FlowModel.check_batch_size",
        params={"x": "Any", "batch_size": "Int"}, trusted=True,
        trusted_reason="searches a batch size whose last batch is not too "
        "small; returns a value in [2, batch_size] or the input (ASSUMED: "
        "its own loop is not under contract) -- at least 1 for a requested "
        "size >= 1", requires=["batch_size >= 1"], returns="Int",
        ensures=["result >= 1", "result <= batch_size"]),
})
contract(
    FMB, "FlowModel.prep_data", props=["C20"], self_shape="FlowModelPrep",
    params={"samples": "Seq(Sort(X))", "val_size": "Opt(Real)",
            "batch_size": "Int", "weights": "Opt(Seq(Real))",
            "use_dataloader": "Bool", "conditional": "None"},
    # what the configuration layer accepts: a validation fraction in [0, 1),
    # a positive batch size (or 'all': see variant), at least one sample
    requires=["implies(val_size is not None, 0 <= val_size and "
              "val_size < 1)", "batch_size >= 1", "len(samples) >= 1",
              "implies(weights is not None, len(weights) == len(samples))"],
    modifies=["self.initialised"],
    raises={"ValueError": None},       # non-finite samples / weights
    may_raise={"ValueError": None},
    returns="Tuple(Any,Any,Int)",
    ensures=["result[2] >= 1"],
)

# ---- the values of the stopping criteria (real body of
# ---- compute_stopping_criterion): the evidence-change criterion is the
# ---- ABSOLUTE change of the log-evidence since the previous iteration
# ---- (infinite before the first), and the returned list holds the
# ---- configured criteria in the configured order
shape("OSRatioAbs", {}, methods={
    "compute_evidence_ratio": Contract(
        "<abstract>", "OSRatioAbs.compute_evidence_ratio",
        params={"ns_only": "Bool"}, trusted=True,
        trusted_reason="evidence ratio (a number)", returns="Real")})
shape("INSCriteria", {
    "iteration": "Int", "log_evidence": "Real", "log_evidence_error": "Real",
    "history": "Dict(logZ:List(Real))",
    "_ordered_samples": "Obj(OSRatioAbs)", "state": "Obj(INSStateCrit)",
    "stopping_criterion": "PyConst(['log_dZ', 'ratio'])",
    "tolerance": "Any",
}, cls="ImportanceNestedSampler")
shape("INSStateCrit", {"effective_n_posterior_samples": "Real",
                       "evidence_error": "Real", "evidence": "Real"},
      methods={"compute_evidence_ratio": Contract(
          "<abstract>", "INSStateCrit.compute_evidence_ratio",
          params={"ns_only": "Bool"}, trusted=True,
          trusted_reason="evidence ratio (a number)", returns="Real")})
_LASTZ = "self.history['logZ'][len(self.history['logZ']) - 1]"
contract(
    INS, "ImportanceNestedSampler.compute_stopping_criterion",
    variant_name="real", props=["C15"], self_shape="INSCriteria",
    ident_name="ImportanceNestedSampler.compute_stopping_criterion#real",
    requires=["implies(self.iteration > 0, len(self.history['logZ']) >= 1)",
              "self.state.evidence != 0"],
    modifies=["self.log_dZ", "self.ratio", "self.ratio_ns", "self.ess",
              "self.Z_err", "self.fractional_error"],
    returns="Any",
    ensures=[
        "implies(self.iteration > 0, self.log_dZ >= 0 and "
        f"(self.log_dZ == self.log_evidence - {_LASTZ} or "
        f"self.log_dZ == {_LASTZ} - self.log_evidence))",
        "implies(self.iteration <= 0, self.log_dZ == INF)",
        # the configured criteria, in the configured order
        "len(result) == 2 and result[0] == self.log_dZ and "
        "result[1] == self.ratio",
    ],
)
