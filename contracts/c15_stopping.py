"""C15: sampling stops exactly per the stopping rule; finished runs are
idempotent.  (Standard sampler part; the INS part is further down.)"""
from pyvc.contracts import contract
from .shapes import NS, EV, LP_ROW
from .c01_nestedsampler import LIVE_INV, CONSUME_MOD, FRAME_REASON

SB = "nessai/samplers/base.py"

# ---- bookkeeping callees: only their frame is relied on -----------------
for _name, _params in (("check_resume", {}),
                       ("periodically_log_state", {}),
                       ("check_insertion_indices",
                        {"rolling": "Bool", "filename": "Any"})):
    contract(NS if _name != "periodically_log_state" else SB,
             ("NestedSampler." if _name != "periodically_log_state"
              else "BaseNestedSampler.") + _name,
             props=["C15", "C13", "C05"], trusted=True,
             trusted_reason=FRAME_REASON, frame_check=True,
             self_shape="NestedSampler", params=_params,
             modifies=(["self.proposal", "self.resumed"]
                       if _name == "check_resume" else []))
contract(SB, "BaseNestedSampler.close_pool", props=["C15", "C13", "C05"],
         trusted=True, trusted_reason=FRAME_REASON, frame_check=True,
         self_shape="NestedSampler", params={"code": "Any"},
         modifies=["self.model"])
contract(SB, "BaseNestedSampler.checkpoint", props=["C15", "C13", "C05"],
         trusted=True, trusted_reason=FRAME_REASON + " (the file protocol "
         "is C11's subject)", frame_check=True, self_shape="NestedSampler",
         params={"periodic": "Bool", "force": "Bool",
                 "save_existing": "Bool"},
         modifies=[])
contract(
    NS, "NestedSampler.initialise", props=["C15", "C13", "C05"],
    trusted=True,
    trusted_reason="initialisation of proposals / history is outside the "
    "subset; ASSUMED to establish the sampler invariant for a fresh run "
    "(populate_live_points proves the live-set part: full, sorted, it = 0, "
    "finite; the constructor sets iteration = 0, nested_samples = [], a "
    "fresh evidence state)",
    params={"live_points": "Bool"},
    modifies=CONSUME_MOD + ["self.initialised", "self.finalised"],
    nonneg_frame=["block_iteration"],
    ensures=LIVE_INV + ["self.initialised", "self.block_iteration >= 0",
                        # initialise only ever *clears* the flag
                        "implies(not old(self.finalised), "
                        "not self.finalised)"],
)

LOOP_MOD = sorted(set(CONSUME_MOD + ["self.block_acceptance",
                                     "self.block_iteration",
                                     "self.proposal", "self.model"]))

contract(
    NS, "NestedSampler.nested_sampling_loop",
    props=["C15", "C05", "C13"],
    requires=[
        # class invariant of an initialised (fresh or resumed) sampler
        "implies(self.initialised and not self.finalised, "
        + " and ".join(f"({e})" for e in LIVE_INV) + ")",
        "self.max_iteration >= 0", "self.block_iteration >= 0",
    ],
    modifies=LOOP_MOD + ["self.initialised", "self.finalised",
                         "self.resumed"],
    returns="Tuple(Real,Any)",
    loops={0: {
        # the stopping rule, statement by statement: an iteration starts
        # only while the remaining-evidence estimate exceeds the tolerance,
        # the loop is left by its guard only when it no longer does, and an
        # iteration that reaches the cap does not continue
        "body_pre": ["self.condition > self.tolerance"],
        "exit_post": ["self.condition <= self.tolerance"],
        "continue_pre": ["self.iteration < self.max_iteration"],
        "inv": LIVE_INV + ["not self.finalised",
                           "self.block_iteration >= 0"],
               "modifies": LOOP_MOD}},
    ensures=[
        # idempotence: a finished run returns at once (nothing modified:
        # frame obligations below; no likelihood evaluation is reachable
        # because no callee is invoked on this path)
        "implies(old(self.finalised), result[0] == old(self.state.logZ) "
        "and self.model.likelihood_evaluations == "
        "old(self.model.likelihood_evaluations) and "
        "self.iteration == old(self.iteration) and self.finalised)",
        # the loop is left exactly when the remaining-evidence estimate no
        # longer exceeds the tolerance, or at the iteration cap
        "implies(not old(self.finalised) and not self.prior_sampling, "
        "self.condition <= self.tolerance or "
        "self.iteration >= self.max_iteration)",
        # remaining live points are consumed iff the tolerance was reached
        "implies(not old(self.finalised) and not self.prior_sampling and "
        "self.condition <= self.tolerance, self.finalised)",
        "implies(not old(self.finalised) and not self.prior_sampling and "
        "not (self.condition <= self.tolerance), not self.finalised)",
        "implies(not old(self.finalised), result[0] == self.state.logZ)",
    ],
)

# ===================================================== importance sampler
from .shapes import INS

contract(
    INS, "ImportanceNestedSampler.reached_tolerance", props=["C15"],
    requires=["len(self.criterion) == len(self.tolerance)"],
    returns="Bool",
    ensures=[
        # any / all of the configured criteria meet their tolerances
        "implies(self._stop_any, result == exists(k, 0, len(self.criterion), "
        "self.criterion[k] <= self.tolerance[k]))",
        "implies(not self._stop_any, result == forall(k, 0, "
        "len(self.criterion), self.criterion[k] <= self.tolerance[k]))",
    ],
)

contract(
    INS, "ImportanceNestedSampler.configure_iterations", props=["C15"],
    params={"min_iteration": "Opt(Int)", "max_iteration": "Opt(Int)"},
    modifies=["self.min_iteration", "self.max_iteration"],
    ensures=[
        "implies(min_iteration is None, self.min_iteration == -1)",
        "implies(min_iteration is not None, "
        "self.min_iteration == min_iteration)",
        "implies(max_iteration is None, self.max_iteration == INF)",
        "implies(max_iteration is not None, "
        "self.max_iteration == max_iteration)",
    ],
)

# documented names (independent of the class's alias table)
ALIASES = {
    "ratio": "ratio", "ratio_all": "ratio", "ratio_ns": "ratio_ns",
    "Z_err": "Z_err", "evidence_error": "Z_err",
    "log_dZ": "log_dZ", "log_evidence": "log_dZ",
    "ess": "ess", "fractional_error": "fractional_error",
}
KNOWN = " or ".join(f"stopping_criterion == '{a}'" for a in ALIASES)

contract(
    INS, "ImportanceNestedSampler.configure_stopping_criterion",
    props=["C15", "C20"],
    params={"stopping_criterion": "Str", "tolerance": "Real",
            "check_criteria": "Str"},
    modifies=["self.tolerance", "self.criterion", "self._stop_any"],
    raises={"ValueError": f"not ({KNOWN}) or "
            "(check_criteria != 'any' and check_criteria != 'all')"},
    ensures=[
        f"implies(stopping_criterion == '{a}', "
        f"self.stopping_criterion == ['{c}'])" for a, c in ALIASES.items()
    ] + [
        "len(self.tolerance) == 1 and self.tolerance[0] == tolerance",
        "len(self.criterion) == 1 and self.criterion[0] == INF",
        "self._stop_any == (check_criteria == 'any')",
    ],
)

contract(
    INS, "ImportanceNestedSampler.configure_stopping_criterion",
    variant_name="two-criteria", props=["C15", "C20"],
    params={"stopping_criterion": ("const", ["evidence_error", "ess"]),
            "tolerance": ("const", [0.1, 1000.0]),
            "check_criteria": "Str"},
    modifies=["self.tolerance", "self.criterion", "self._stop_any"],
    raises={"ValueError":
            "check_criteria != 'any' and check_criteria != 'all'"},
    ensures=[
        "self.stopping_criterion == ['Z_err', 'ess']",
        "self.tolerance == [0.1, 1000.0]",
        "len(self.criterion) == 2",
        "self._stop_any == (check_criteria == 'any')",
    ],
)

contract(
    INS, "ImportanceNestedSampler.configure_stopping_criterion",
    variant_name="length-mismatch", props=["C15", "C20"],
    params={"stopping_criterion": ("const", ["ratio", "ess"]),
            "tolerance": ("const", [0.1]),
            "check_criteria": ("const", "any")},
    modifies=["self.tolerance", "self.criterion", "self._stop_any"],
    raises={"ValueError": "True"},
    ensures=["False"],
)
