"""C15: sampling stops exactly per the stopping rule; finished runs are
idempotent.  (Standard sampler part; the INS part is further down.)"""
from pyvc.contracts import contract
from .shapes import NS, EV, LP_ROW
from .c01_nestedsampler import LIVE_INV, CONSUME_MOD, FRAME_REASON

SB = "nessai/samplers/base.py"

# ---- bookkeeping callees: only their frame is relied on -----------------
for _name, _params in (("check_resume", {}),
                       ("periodically_log_state", {}),
                       ("check_insertion_indices",
                        {"rolling": "Bool", "filename": "Any"})):
    contract(NS if _name != "periodically_log_state" else SB,
             ("NestedSampler." if _name != "periodically_log_state"
              else "BaseNestedSampler.") + _name,
             props=["C15", "C13", "C05"], trusted=True,
             trusted_reason=FRAME_REASON, frame_check=True,
             self_shape="NestedSampler", params=_params,
             modifies=(["self.proposal", "self.resumed"]
                       if _name == "check_resume" else []))
contract(SB, "BaseNestedSampler.close_pool", props=["C15", "C13", "C05"],
         trusted=True, trusted_reason=FRAME_REASON, frame_check=True,
         self_shape="NestedSampler", params={"code": "Any"},
         modifies=["self.model"])
contract(SB, "BaseNestedSampler.checkpoint", props=["C15", "C13", "C05"],
         trusted=True, trusted_reason=FRAME_REASON + " (the file protocol "
         "is C11's subject)", frame_check=True, self_shape="NestedSampler",
         params={"periodic": "Bool", "force": "Bool",
                 "save_existing": "Bool"},
         modifies=[])
contract(
    NS, "NestedSampler.initialise", props=["C15", "C13", "C05"],
    trusted=True,
    trusted_reason="initialisation of proposals / history is outside the "
    "subset; ASSUMED to establish the sampler invariant for a fresh run "
    "(populate_live_points proves the live-set part: full, sorted, it = 0, "
    "finite; the constructor sets iteration = 0, nested_samples = [], a "
    "fresh evidence state)",
    params={"live_points": "Bool"},
    modifies=CONSUME_MOD + ["self.initialised", "self.finalised"],
    nonneg_frame=["block_iteration"],
    ensures=LIVE_INV + ["self.initialised", "self.block_iteration >= 0",
                        # initialise only ever *clears* the flag
                        "implies(not old(self.finalised), "
                        "not self.finalised)"],
)

LOOP_MOD = sorted(set(CONSUME_MOD + ["self.block_acceptance",
                                     "self.block_iteration",
                                     "self.proposal", "self.model"]))

contract(
    NS, "NestedSampler.nested_sampling_loop",
    props=["C15", "C05", "C13"],
    requires=[
        # class invariant of an initialised (fresh or resumed) sampler
        "implies(self.initialised and not self.finalised, "
        + " and ".join(f"({e})" for e in LIVE_INV) + ")",
        "self.max_iteration >= 0", "self.block_iteration >= 0",
    ],
    modifies=LOOP_MOD + ["self.initialised", "self.finalised"],
    returns="Tuple(Real,Any)",
    loops={0: {"inv": LIVE_INV + ["not self.finalised",
                                  "self.block_iteration >= 0"],
               "modifies": LOOP_MOD}},
    ensures=[
        # idempotence: a finished run returns at once (nothing modified:
        # frame obligations below; no likelihood evaluation is reachable
        # because no callee is invoked on this path)
        "implies(old(self.finalised), result[0] == old(self.state.logZ) "
        "and self.model.likelihood_evaluations == "
        "old(self.model.likelihood_evaluations) and "
        "self.iteration == old(self.iteration) and self.finalised)",
        # the loop is left exactly when the remaining-evidence estimate no
        # longer exceeds the tolerance, or at the iteration cap
        "implies(not old(self.finalised) and not self.prior_sampling, "
        "self.condition <= self.tolerance or "
        "self.iteration >= self.max_iteration)",
        # remaining live points are consumed iff the tolerance was reached
        "implies(not old(self.finalised) and not self.prior_sampling and "
        "self.condition <= self.tolerance, self.finalised)",
        "implies(not old(self.finalised) and not self.prior_sampling and "
        "not (self.condition <= self.tolerance), not self.finalised)",
        "implies(not old(self.finalised), result[0] == self.state.logZ)",
    ],
)
