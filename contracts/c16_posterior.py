"""C16: posterior resampling follows the posterior weights."""
from pyvc.contracts import contract
from .shapes import LP_ARR

PO = "nessai/posterior.py"
UST = "nessai/utils/stats.py"

SW = "Sum(j, 0, len(log_w), E(log_w[j]))"
QS = (f"Sum(k, 0, len(log_w), (E(log_w[k]) / {SW}) * "
      f"(E(log_w[k]) / {SW}))")
contract(
    UST, "effective_sample_size", props=["C16", "C15"], log_domain=True,
    params={"log_w": "Seq(Real)"},
    # at least one finite weight (else the result is 0/0)
    requires=["exists(k, 0, len(log_w), E(log_w[k]) > 0)"],
    returns="Real",
    hints=[("before_ensures", 1, f"lemma_sum_pos({SW})"),
           ("before_ensures", 4, f"lemma_sum_pos({QS})")],
    ensures=[
        # Kish: 1 / sum p_i^2 with p_i = w_i / sum w
        f"result == 1 / {QS}",
        # positivity, step by step (each step is assumed for the next)
        f"{SW} > 0",
        f"forall(k, 0, len(log_w), (E(log_w[k]) / {SW}) * "
        f"(E(log_w[k]) / {SW}) >= 0)",
        f"exists(k, 0, len(log_w), (E(log_w[k]) / {SW}) * "
        f"(E(log_w[k]) / {SW}) > 0)",
        f"{QS} > 0",
        "result > 0",
    ],
)

contract(
    PO, "draw_posterior_samples", props=["C16"], log_domain=True,
    params={"nested_samples": LP_ARR, "nlive": "None", "n": "Opt(Int)",
            "log_w": "Seq(Real)", "method": "Str",
            "return_indices": ("const", True), "expectation": "Str"},
    requires=[
        "len(log_w) == len(nested_samples)", "len(log_w) >= 1",
        "implies(n is not None, n >= 0)",
        # at least one finite weight
        "exists(k, 0, len(log_w), E(log_w[k]) > 0)",
    ],
    returns=f"Tuple({LP_ARR},Seq(Int))",
    raises={"ValueError": "method != 'rejection_sampling' and "
            "method != 'importance_sampling' and "
            "method != 'multinomial_resampling'"},
    hints=[("at_start", None, f"lemma_sum_pos({SW})")],
    bind_call_results={"ess": ["effective_sample_size"]},
    ghost_funcs={"pos": "Int->Int"},
    bind_ghost={"pos": "last_where.dst"},
    ensures=[
        # posterior samples are nested samples and the indices identify them
        "len(result[0]) == len(result[1])",
        "forall(k, 0, len(result[1]), 0 <= result[1][k] and "
        "result[1][k] < len(nested_samples) and "
        "row_eq(result[0][k], nested_samples[result[1][k]]))",
        # rejection sampling: i kept  <=>  log_w[i] - max(log_w) > log U_i
        "implies(method == 'rejection_sampling', "
        "strictly_increasing(result[1]) and "
        "forall(k, 0, len(result[1]), final('log_w')[result[1][k]] > "
        "final('log_u', 'Seq(Real)')[result[1][k]]) and "
        "forall(i, 0, len(nested_samples), implies(final('log_w')[i] > "
        "final('log_u', 'Seq(Real)')[i], 0 <= pos(i) and pos(i) < len(result[1]) and "
        "result[1][pos(i)] == i)))",
        "implies(method == 'rejection_sampling', "
        "forall(i, 0, len(nested_samples), final('log_w')[i] == "
        "log_w[i] - maxof(log_w) and "
        # U_i is the library's uniform draw on [0, 1)
        "E(final('log_u', 'Seq(Real)')[i]) == rand_u(i) and "
        "0 <= rand_u(i) and rand_u(i) < 1))",
        # the maximum-weight sample is always kept, zero weights never
        "implies(method == 'rejection_sampling', "
        "forall(i, 0, len(nested_samples), "
        "implies(log_w[i] == maxof(log_w), "
        "final('log_w')[i] > final('log_u', 'Seq(Real)')[i])))",
        "implies(method == 'rejection_sampling', "
        "forall(i, 0, len(nested_samples), implies(E(log_w[i]) == 0, "
        "not (final('log_w')[i] > final('log_u', 'Seq(Real)')[i]))))",
        # multinomial: exactly n draws (default floor(ESS)), with the
        # normalised weights as probabilities
        "implies(method != 'rejection_sampling' and n is not None, "
        "len(result[1]) == n)",
        "implies(method != 'rejection_sampling' and n is None, "
        "len(result[1]) == int(ghost('ess')))",
        f"implies(method != 'rejection_sampling', "
        f"forall(i, 0, len(log_w), choice_p(i) == E(log_w[i]) / {SW}))",
        # independent draws (with replacement)
        "choice_replace()",
    ],
)

from pyvc.contracts import shape
from .shapes import EV

shape("_BaseNSIntegralState", {"log_posterior_weights": "Seq(Real)"})
LPW = "old(self.log_posterior_weights)"
SWB = f"Sum(j, 0, len({LPW}), E({LPW}[j]))"
contract(
    EV, "_BaseNSIntegralState.effective_n_posterior_samples",
    props=["C16", "C15"], log_domain=True,
    notes="the abstract property log_posterior_weights is modelled as an "
    "attribute holding the array the concrete subclass returns",
    modifies=["self.log_posterior_weights"],
    returns="Real",
    ensures=[
        "implies(len(old(self.log_posterior_weights)) == 0, result == 0)",
        f"implies(len({LPW}) > 0, result == 1 / Sum(k, 0, len({LPW}), "
        f"(E({LPW}[k]) / {SWB}) * (E({LPW}[k]) / {SWB})))",
    ],
)
