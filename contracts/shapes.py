"""Shapes: typed attribute environments of the classes whose methods are
under contract (derived from the code and its call sites)."""
from pyvc.contracts import shape

LP = "x:Sort(P),logP:Real,logL:Real,it:Int"
LP_ROW = f"Row({LP})"
LP_ARR = f"Struct({LP})"

shape("NestedSampler", {
    "live_points": LP_ARR,
    "nlive": "Int",
    "logLmin": "Real",
    "logLmax": "Real",
})
