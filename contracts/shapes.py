"""Shapes: typed attribute environments of the classes whose methods are
under contract (derived from the code and its call sites).  Only attributes
that some proof mentions are declared; reading any other attribute inside a
function under contract is reported as outside the subset."""
from pyvc.contracts import shape, Contract

LP = "x:Sort(P),logP:Real,logL:Real,it:Int"
LP_ROW = f"Row({LP})"
LP_ARR = f"Struct({LP})"

NS = "nessai/samplers/nestedsampler.py"
EV = "nessai/evidence.py"

# ---- abstract collaborators -------------------------------------------
shape("ProposalAbs", {"populated": "Bool", "ns_acceptance": "Real",
                      "_checked_population": "Bool",
                      "population_acceptance": "Real", "r": "Real",
                      "training_count": "Int"},
      methods={
          "draw": Contract(
              "<abstract>", "ProposalAbs.draw",
              params={"old_param": "Any"},
              modifies=["self.populated", "self._checked_population",
                        "self.population_acceptance", "self.r"],
              returns=LP_ROW, trusted=True,
              trusted_reason="abstract proposal: returns some live point "
              "(logP as computed by the proposal; logL 0/NaN-free or the "
              "model's value); C09 is where proposals are verified"),
      })

shape("ModelAbs", {"likelihood_evaluations": "Int", "names": "Any"},
      methods={
          "evaluate_log_likelihood": Contract(
              "<abstract>", "ModelAbs.evaluate_log_likelihood",
              params={"x": LP_ROW},
              modifies=["self.likelihood_evaluations"],
              returns="Real", trusted=True,
              trusted_reason="user likelihood: some real number"),
      })

# ---- evidence state (fields used by the standard sampler) ---------------
shape("_NSIntegralState", {
    "base_nlive": "Int",
    "track_gradients": "Bool",
    "expectation": "Str",
    "logZ": "Real",
    "oldZ": "Real",
    "logw": "Real",
    "info": "List(Real)",
    "logLs": "List(Real)",
    "log_vols": "List(Real)",
    "nlive": "List(Int)",
    "gradients": "List(Real)",
    # ghost: logZ has been replaced by the refined (trapezoidal) value; from
    # then on it is no longer the running sum that `increment` extends
    "ghost_refined": "Bool",
})

shape("NestedSampler", {
    "live_points": f"Opt({LP_ARR})",      # None after finalise
    "nlive": "Int",
    "logLmin": "Real",
    "logLmax": "Real",
    "state": "Obj(_NSIntegralState)",
    "nested_samples": f"List({LP_ROW})",
    "condition": "Real",
    "tolerance": "Real",
    "iteration": "Int",
    "max_iteration": "Int",
    "block_iteration": "Int",
    "insertion_indices": "List(Int)",
    "accepted": "Int",
    "rejected": "Int",
    "block_acceptance": "Real",
    "acceptance_history": "List(Real)",
    "mean_block_acceptance": "Real",
    "debug_enabled": "Bool",
    "log_on_iteration": "Bool",
    "finalised": "Bool",
    "initialised": "Bool",
    "prior_sampling": "Bool",
    "_close_pool": "Bool",
    "resumed": "Bool",
    "proposal": "Obj(ProposalAbs)",
    "model": "Obj(ModelAbs)",
})

# ---- importance nested sampler -----------------------------------------
INS = "nessai/samplers/importancesampler.py"
INS_LP = ("x:Sort(P),logP:Real,logL:Real,it:Int,logW:Real,logQ:Real,"
          "logU:Real")
INS_ARR = f"Struct({INS_LP})"

shape("ImportanceNestedSampler", {
    "nlive": "Int",
    "min_remove": "Int",
    "min_samples": "Int",
    "draw_constant": "Bool",
    "max_samples": "Opt(Int)",
    "plot": "Bool",
    "_plot_level_cdf": "Bool",
    "output": "Any",
    "iteration": "Int",
})

shape("OrderedSamplesAbs", {"samples": INS_ARR, "log_q": "Tbl(QRow)"})
shape("ISProposalAbs", {}, methods={
    "train": Contract("<abstract>", "ISProposalAbs.train",
                      params={"samples": "Any", "plot": "Any",
                              "weights": "Any"},
                      trusted=True, modifies=[],
                      trusted_reason="flow training: no sampler state")})
from pyvc.contracts import SHAPES as _S
_S["ImportanceNestedSampler"].attrs.update({
    "training_samples": "Obj(OrderedSamplesAbs)",
    "log_likelihood_threshold": "Real",
    "current_training_samples": INS_ARR,
    "current_training_log_q": "Tbl(QRow)",
    "replace_all": "Bool",
    "weighted_kl": "Bool",
    "plot_training_data": "Bool",
    "training_time": "Any",
    "proposal": "Obj(ISProposalAbs)",
})

_S["ImportanceNestedSampler"].attrs.update({
    "_stop_any": "Bool",
    "criterion": "List(Real)",
    "tolerance": "List(Real)",
    "min_iteration": "Int",
    "max_iteration": "Real",       # an int or np.inf
    "finalised": "Bool",
})

_S["ImportanceNestedSampler"].attrs.update({
    "live_points_unit": INS_ARR,      # (a property in the code: the live
                                      # rows of the ordered store)
    "n_update": "Opt(Int)",
    "threshold_method": "Str",
    "threshold_kwargs": "EmptyDict",
    "checkpointing": "Bool",
    "plotting_frequency": "Int",
    "importance": "Any",
    "stopping_criterion": "Any",
})

# ---- C13 / C11: ghost counters for checkpoint writes ---------------------
_S["ImportanceNestedSampler"].attrs.update({
    "ghost_ckpt_writes": "Int",       # ghost: calls that write a checkpoint
    "save_existing_checkpoint": "Bool",
})
shape("SamplerAbs", {"ghost_ckpt_requests": "Int",
                     "ghost_pool_closed": "Int"},
      methods={
          "close_pool": Contract(
              "<abstract>", "SamplerAbs.close_pool", params={"code": "Any"},
              trusted=True, modifies=["self.ghost_pool_closed"],
              trusted_reason="abstract sampler: closing the pool",
              ensures=["self.ghost_pool_closed == "
                       "old(self.ghost_pool_closed) + 1"]),
          "checkpoint": Contract(
              "<abstract>", "SamplerAbs.checkpoint",
              params={"periodic": "Bool", "force": "Bool"},
              trusted=True, modifies=["self.ghost_ckpt_requests"],
              trusted_reason="abstract sampler: a (non-periodic) "
              "checkpoint request",
              ensures=["self.ghost_ckpt_requests == "
                       "old(self.ghost_ckpt_requests) + 1"]),
      })
shape("FlowSampler", {"ns": "Obj(SamplerAbs)", "exit_code": "Int"})

_S["NestedSampler"].attrs["ghost_ckpt_writes"] = "Int"
