"""C07, layer 1: the elementary maps of nessai/utils/rescaling.py.  Each
function gets its closed form and its log-Jacobian as postconditions; the
log-Jacobian is tied to the *derivative of the returned expression*
(`deriv`, symbolic differentiation inside pyvc), not to a formula written by
hand.  Round trips and 'the two Jacobians cancel' are pair lemmas over the
contracts (checks/c07_pairs.py)."""
from pyvc.contracts import contract

RS = "nessai/utils/rescaling.py"
BOUNDS = ["xmin < xmax"]

contract(
    RS, "rescale_zero_to_one", props=["C07"], log_domain=True,
    params={"x": "Real", "xmin": "Real", "xmax": "Real"},
    requires=BOUNDS, returns="Tuple(Real,Real)",
    ensures=["result[0] == (x - xmin) / (xmax - xmin)",
             "E(result[1]) == deriv(result[0], x)",
             "E(result[1]) == 1 / (xmax - xmin)"],
)
contract(
    RS, "inverse_rescale_zero_to_one", props=["C07"], log_domain=True,
    params={"x": "Real", "xmin": "Real", "xmax": "Real"},
    requires=BOUNDS, returns="Tuple(Real,Real)",
    ensures=["result[0] == (xmax - xmin) * x + xmin",
             "E(result[1]) == deriv(result[0], x)",
             "E(result[1]) == xmax - xmin"],
)
contract(
    RS, "rescale_minus_one_to_one", props=["C07"], log_domain=True,
    params={"x": "Real", "xmin": "Real", "xmax": "Real"},
    requires=BOUNDS, returns="Tuple(Real,Real)",
    ensures=["result[0] == 2 * (x - xmin) / (xmax - xmin) - 1",
             "E(result[1]) == deriv(result[0], x)",
             "E(result[1]) == 2 / (xmax - xmin)"],
)
contract(
    RS, "inverse_rescale_minus_one_to_one", props=["C07"], log_domain=True,
    params={"x": "Real", "xmin": "Real", "xmax": "Real"},
    requires=BOUNDS, returns="Tuple(Real,Real)",
    ensures=["result[0] == (xmax - xmin) * ((x + 1) / 2) + xmin",
             "E(result[1]) == deriv(result[0], x)",
             "E(result[1]) == (xmax - xmin) / 2"],
)
contract(
    RS, "logit", props=["C07"], log_domain=True,
    params={"x": "Real", "eps": "None"},
    requires=["0 < x and x < 1"],          # where the map is regular
    returns="Tuple(Real,Real)",
    ensures=["E(result[0]) == x / (1 - x)",
             "E(result[1]) == deriv(result[0], x)",
             "E(result[1]) == 1 / (x * (1 - x))"],
)
contract(
    RS, "sigmoid", props=["C07"], log_domain=True,
    params={"x": "Real"},
    requires=["E(x) > 0"],      # x is not -inf (image domain)
    returns="Tuple(Real,Real)",
    ensures=["result[0] == 1 / (1 + E(-x))",
             "0 < result[0] and result[0] < 1",
             "E(result[1]) == deriv(result[0], x)",
             "E(result[1]) == result[0] * (1 - result[0])"],
)
contract(
    RS, "log_with_log_jacobian", props=["C07"], log_domain=True,
    params={"x": "Real"}, requires=["x > 0"],
    returns="Tuple(Real,Real)",
    ensures=["E(result[0]) == x",
             "E(result[1]) == deriv(result[0], x)",
             "E(result[1]) == 1 / x"],
)
contract(
    RS, "exp_with_log_jacobian", props=["C07"], log_domain=True,
    params={"x": "Real"},
    requires=["E(x) > 0"],
    returns="Tuple(Real,Real)",
    ensures=["result[0] == E(x)",
             "E(result[1]) == deriv(result[0], x)",
             "result[1] == x"],
)

# ======================================================================
# Layer 2 (classes), first instalment.  The parameter list is instantiated
# with two names (the per-parameter loop is unrolled; the loop body is the
# same code for every parameter); bounds, scales, shifts and values are
# symbolic.  Arrays are symbolic-length.
# ======================================================================
from pyvc.contracts import shape, Contract   # noqa: E402

RR = "nessai/reparameterisations/rescale.py"
XS = "Struct(a:Real,b:Real,logP:Real,logL:Real)"
XP = "Struct(a_prime:Real,b_prime:Real,logP:Real,logL:Real)"

shape("ScaleAndShift", {
    "parameters": "PyConst(['a', 'b'])",
    "prime_parameters": "PyConst(['a_prime', 'b_prime'])",
    "scale": "Dict(a:Real,b:Real)",
    "shift": "Dict(a:Real,b:Real)",
})
SS_REQ = ["len(x) == len(x_prime) and len(log_j) == len(x)",
          "self.scale['a'] != 0 and self.scale['b'] != 0"]


def _ss(p, pp):
    fwd = (f"forall(i, 0, len(x), x_prime['{pp}'][i] == "
           f"(x['{p}'][i] - self.shift['{p}']) / self.scale['{p}'])")
    inv = (f"forall(i, 0, len(x), x['{p}'][i] == "
           f"x_prime['{pp}'][i] * self.scale['{p}'] + self.shift['{p}'])")
    return fwd, inv


ABS = "abs(self.scale['a']) * abs(self.scale['b'])"
contract(
    RR, "ScaleAndShift.reparameterise", props=["C07"], log_domain=True,
    params={"x": XS, "x_prime": XP, "log_j": "Seq(Real)", "**kwargs": {}},
    requires=SS_REQ, modifies=["x_prime", "log_j"],
    returns="Any",
    ensures=["len(x_prime) == old(len(x_prime)) and "
             "len(log_j) == old(len(log_j))",
             _ss("a", "a_prime")[0], _ss("b", "b_prime")[0],
             # non-sampling fields and the original point are untouched
             "forall(i, 0, len(x), x_prime['logL'][i] == "
             "old(x_prime['logL'])[i] and x_prime['logP'][i] == "
             "old(x_prime['logP'])[i])",
             # log|det J| = - sum_p log|scale_p| added to the running value
             f"forall(i, 0, len(x), E(log_j[i]) * ({ABS}) == "
             f"E(old(log_j)[i]))"],
)
contract(
    RR, "ScaleAndShift.inverse_reparameterise", props=["C07"],
    log_domain=True,
    params={"x": XS, "x_prime": XP, "log_j": "Seq(Real)", "**kwargs": {}},
    requires=SS_REQ, modifies=["x", "log_j"],
    returns="Any",
    ensures=["len(x) == old(len(x)) and len(log_j) == old(len(log_j))",
             _ss("a", "a_prime")[1], _ss("b", "b_prime")[1],
             "forall(i, 0, len(x), x['logL'][i] == old(x['logL'])[i] and "
             "x['logP'][i] == old(x['logP'])[i])",
             f"forall(i, 0, len(x), E(log_j[i]) == "
             f"E(old(log_j)[i]) * ({ABS}))"],
)

shape("RescaleToBounds", {
    "bounds": "Dict(a:PyList(Real,2))",
    "_rescale_factor": "Dict(a:Real)",
    "_rescale_shift": "Dict(a:Real)",
})
RB_REQ = ["self.bounds['a'][0] < self.bounds['a'][1]",
          "self._rescale_factor['a'] > 0"]
W_ = "(self.bounds['a'][1] - self.bounds['a'][0])"
contract(
    RR, "RescaleToBounds._rescale_to_bounds", props=["C07"],
    log_domain=True,
    params={"x": "Real", "n": ("const", "a")},
    requires=RB_REQ, returns="Tuple(Real,Real)",
    ensures=[f"result[0] == self._rescale_factor['a'] * "
             f"((x - self.bounds['a'][0]) / {W_}) + self._rescale_shift['a']",
             "E(result[1]) == deriv(result[0], x)",
             f"E(result[1]) == self._rescale_factor['a'] / {W_}"],
)
contract(
    RR, "RescaleToBounds._inverse_rescale_to_bounds", props=["C07"],
    log_domain=True,
    params={"x": "Real", "n": ("const", "a")},
    requires=RB_REQ, returns="Tuple(Real,Real)",
    ensures=[f"result[0] == {W_} * (x - self._rescale_shift['a']) / "
             f"self._rescale_factor['a'] + self.bounds['a'][0]",
             "E(result[1]) == deriv(result[0], x)",
             f"E(result[1]) == {W_} / self._rescale_factor['a']"],
)

# ---- prime prior of RescaleToBounds (the support clause of C07) -------------
PRI = "nessai/priors.py"
contract(
    PRI, "log_uniform_prior", props=["C07"], log_domain=True,
    params={"x": "Seq(Real)", "xmin": "Real", "xmax": "Real"},
    returns="Seq(Real)",
    ensures=["len(result) == len(x)",
             # log of the indicator of [xmin, xmax]: 0 inside, -inf outside
             "forall(i, 0, len(x), E(result[i]) == "
             "(1 if (x[i] >= xmin and x[i] <= xmax) else 0))"],
)
PP_ARR = "Struct(a_prime:Real,b_prime:Real,logP:Real,logL:Real)"
shape("RescalePrimePrior", {
    "has_prime_prior": "Bool", "name": "Any",
    "prime_parameters": "PyConst(['a_prime', 'b_prime'])",
    "prime_prior_bounds": "Dict(a_prime:PyList(Real,2),"
                          "b_prime:PyList(Real,2))",
    "_prime_prior": "Fn(nessai/priors.py:log_uniform_prior)",
}, cls="RescaleToBounds")
BA, BB = "self.prime_prior_bounds['a_prime']", \
    "self.prime_prior_bounds['b_prime']"
contract(
    RR, "RescaleToBounds.x_prime_log_prior", props=["C07"],
    self_shape="RescalePrimePrior", log_domain=True,
    params={"x_prime": PP_ARR},
    raises={"RuntimeError": "not self.has_prime_prior"},
    returns="Seq(Real)",
    ensures=[
        "len(result) == len(x_prime)",
        # the prime prior is the product of the per-parameter uniform
        # priors: its support is exactly the box of prime bounds (two
        # parameters: the per-parameter loop is unrolled)
        f"forall(i, 0, len(x_prime), E(result[i]) == "
        f"(1 if ({BA}[0] <= x_prime['a_prime'][i] and "
        f"x_prime['a_prime'][i] <= {BA}[1] and "
        f"{BB}[0] <= x_prime['b_prime'][i] and "
        f"x_prime['b_prime'][i] <= {BB}[1]) else 0))",
    ],
)


# ======================================================================
# layer 3: RescaleToBounds.reparameterise / inverse_reparameterise, the
# default reparameterisation of the flow proposal, on arrays (the same real
# bodies are executed once more with array-valued arguments: '#seq'
# variants), without boundary inversion.  Two parameters with their own
# bounds / offsets / rescale bounds; the per-parameter loop is unrolled by
# the engine because the parameter lists are concrete.
# ======================================================================
def _w(p):
    return f"(self.bounds['{p}'][1] - self.bounds['{p}'][0])"


def _seq_rb(p, variant):
    req = [f"self.bounds['{p}'][0] < self.bounds['{p}'][1]",
           f"self._rescale_factor['{p}'] > 0"]
    F, S, B0 = (f"self._rescale_factor['{p}']", f"self._rescale_shift['{p}']",
                f"self.bounds['{p}'][0]")
    contract(
        RR, "RescaleToBounds._rescale_to_bounds", variant_name=variant,
        props=["C07"], log_domain=True, self_shape="RescaleToBoundsRP",
        params={"x": "Seq(Real)", "n": ("const", p)},
        requires=req, returns="Tuple(Seq(Real),Real)",
        ensures=["len(result[0]) == len(x)",
                 f"forall(i, 0, len(x), result[0][i] == {F} * "
                 f"((x[i] - {B0}) / {_w(p)}) + {S})",
                 f"E(result[1]) == {F} / {_w(p)}",
                 f"result[1] == LOG({F}) - LOG({_w(p)})"],
    )
    contract(
        RR, "RescaleToBounds._inverse_rescale_to_bounds", variant_name=variant,
        props=["C07"], log_domain=True, self_shape="RescaleToBoundsRP",
        params={"x": "Seq(Real)", "n": ("const", p)},
        requires=req, returns="Tuple(Seq(Real),Real)",
        ensures=["len(result[0]) == len(x)",
                 f"forall(i, 0, len(x), result[0][i] == {_w(p)} * "
                 f"(x[i] - {S}) / {F} + {B0})",
                 f"E(result[1]) == {_w(p)} / {F}",
                 f"result[1] == LOG({_w(p)}) - LOG({F})"],
    )


D2 = "Dict(a:Real,b:Real)"
shape("RescaleToBoundsRP", {
    "parameters": "PyConst(['a', 'b'])",
    "prime_parameters": "PyConst(['a_prime', 'b_prime'])",
    "has_pre_rescaling": "Bool", "has_post_rescaling": "Bool",
    "boundary_inversion": "PyConst(False)",
    "offsets": D2, "_rescale_factor": D2, "_rescale_shift": D2,
    "bounds": "Dict(a:PyList(Real,2),b:PyList(Real,2))",
    "post_rescaling": "Fn(nessai/utils/rescaling.py:logit)",
    "post_rescaling_inv": "Fn(nessai/utils/rescaling.py:sigmoid)",
}, cls="RescaleToBounds")
_seq_rb("a", "seq")
_seq_rb("b", "seq-b")

contract(
    RS, "logit", variant_name="seq", props=["C07"], log_domain=True,
    params={"x": "Seq(Real)", "eps": "None"},
    requires=["forall(i, 0, len(x), 0 < x[i] and x[i] < 1)"],
    returns="Tuple(Seq(Real),Seq(Real))",
    ensures=["len(result[0]) == len(x) and len(result[1]) == len(x)",
             "forall(i, 0, len(x), E(result[0][i]) == x[i] / (1 - x[i]))",
             "forall(i, 0, len(x), E(result[1][i]) == "
             "1 / (x[i] * (1 - x[i])))",
             "forall(i, 0, len(x), result[1][i] == "
             "-LOG(x[i]) - LOG(1 - x[i]))"],
)
contract(
    RS, "sigmoid", variant_name="seq", props=["C07"], log_domain=True,
    params={"x": "Seq(Real)"},
    requires=["forall(i, 0, len(x), E(x[i]) > 0)"],
    returns="Tuple(Seq(Real),Seq(Real))",
    ensures=["len(result[0]) == len(x) and len(result[1]) == len(x)",
             "forall(i, 0, len(x), result[0][i] == 1 / (1 + E(-x[i])))",
             "forall(i, 0, len(x), 0 < result[0][i] and result[0][i] < 1)",
             "forall(i, 0, len(x), E(result[1][i]) == "
             "result[0][i] * (1 - result[0][i]))",
             "forall(i, 0, len(x), result[1][i] == "
             "LOG(result[0][i]) + LOG(1 - result[0][i]))"],
)

RP_REQ = ["len(x) == len(x_prime) and len(log_j) == len(x)",
          "not self.has_pre_rescaling"] + [
    f"self.bounds['{p}'][0] < self.bounds['{p}'][1] and "
    f"self._rescale_factor['{p}'] > 0" for p in "ab"]


def _u(p, i="i"):
    """the point rescaled to the unit interval of the current bounds"""
    return (f"((x['{p}'][{i}] - self.offsets['{p}'] - self.bounds['{p}'][0])"
            f" / {_w(p)})")


def _fwd(p):
    return (f"self._rescale_factor['{p}'] * {_u(p)} + "
            f"self._rescale_shift['{p}']")


def _back(p):
    return (f"{_w(p)} * (x_prime['{p}_prime'][i] - "
            f"self._rescale_shift['{p}']) / self._rescale_factor['{p}'] + "
            f"self.bounds['{p}'][0] + self.offsets['{p}']")


JAC = " * ".join(f"(self._rescale_factor['{p}'] / {_w(p)})" for p in "ab")
KEEP_XP = ("forall(i, 0, len(x), x_prime['logL'][i] == old(x_prime['logL'])[i]"
           " and x_prime['logP'][i] == old(x_prime['logP'])[i])")
KEEP_X = ("forall(i, 0, len(x), x['logL'][i] == old(x['logL'])[i]"
          " and x['logP'][i] == old(x['logP'])[i])")
RET = "result[0] is x and result[1] is x_prime and result[2] is log_j"

contract(
    RR, "RescaleToBounds.reparameterise", variant_name="seq", props=["C07"],
    log_domain=True, self_shape="RescaleToBoundsRP",
    params={"x": XS, "x_prime": XP, "log_j": "Seq(Real)",
            "compute_radius": "Bool", "**kwargs": {}},
    requires=RP_REQ + ["not self.has_post_rescaling"],
    modifies=["x_prime", "log_j"], returns="Any",
    ensures=["len(x_prime) == old(len(x_prime)) and "
             "len(log_j) == old(len(log_j))",
             f"forall(i, 0, len(x), x_prime['a_prime'][i] == {_fwd('a')})",
             f"forall(i, 0, len(x), x_prime['b_prime'][i] == {_fwd('b')})",
             KEEP_XP,
             f"forall(i, 0, len(x), E(log_j[i]) == "
             f"E(old(log_j)[i]) * {JAC})"],
)
contract(
    RR, "RescaleToBounds.inverse_reparameterise", variant_name="seq",
    props=["C07"], log_domain=True, self_shape="RescaleToBoundsRP",
    params={"x": XS, "x_prime": XP, "log_j": "Seq(Real)", "**kwargs": {}},
    requires=RP_REQ + ["not self.has_post_rescaling"],
    modifies=["x", "log_j"], returns="Any",
    ensures=["len(x) == old(len(x)) and len(log_j) == old(len(log_j))",
             f"forall(i, 0, len(x), x['a'][i] == {_back('a')})",
             f"forall(i, 0, len(x), x['b'][i] == {_back('b')})",
             KEEP_X,
             f"forall(i, 0, len(x), E(log_j[i]) * {JAC} == "
             f"E(old(log_j)[i]))"],
)

# with the logit post-rescaling (rescale bounds [0, 1] are what
# configure_post_rescaling sets for it): regular on the open box
LG_REQ = ["self.has_post_rescaling"] + [
    f"self._rescale_factor['{p}'] == 1 and self._rescale_shift['{p}'] == 0"
    for p in "ab"]
OPEN = " and ".join(f"0 < {_u(p)} and {_u(p)} < 1" for p in "ab")
ALOG = " + ".join(f"LOG({_w(p)}) - LOG(self._rescale_factor['{p}']) + "
                  f"LOG({_u(p)}) + LOG(1 - {_u(p)})" for p in "ab")
LJAC = " * ".join(f"(1 / {_w(p)}) * (1 / ({_u(p)} * (1 - {_u(p)})))"
                  for p in "ab")
contract(
    RR, "RescaleToBounds.reparameterise", variant_name="seq-logit",
    props=["C07"], log_domain=True, self_shape="RescaleToBoundsRP",
    params={"x": XS, "x_prime": XP, "log_j": "Seq(Real)",
            "compute_radius": "Bool", "**kwargs": {}},
    requires=RP_REQ + LG_REQ + [f"forall(i, 0, len(x), {OPEN})"],
    modifies=["x_prime", "log_j"], returns="Any",
    ensures=["len(x_prime) == old(len(x_prime)) and "
             "len(log_j) == old(len(log_j))",
             f"forall(i, 0, len(x), E(x_prime['a_prime'][i]) == "
             f"{_u('a')} / (1 - {_u('a')}))",
             f"forall(i, 0, len(x), E(x_prime['b_prime'][i]) == "
             f"{_u('b')} / (1 - {_u('b')}))",
             KEEP_XP,
             f"forall(i, 0, len(x), E(log_j[i]) == "
             f"E(old(log_j)[i]) * {LJAC})",
             # the same fact additively (log space), the form the
             # round-trip lemma composes with the inverse's clause
             f"forall(i, 0, len(x), log_j[i] == old(log_j)[i] - ({ALOG}))"],
)


def _sg(p):
    return f"(1 / (1 + E(-x_prime['{p}_prime'][i])))"


SJAC = " * ".join(f"({_w(p)} * {_sg(p)} * (1 - {_sg(p)}))" for p in "ab")
contract(
    RR, "RescaleToBounds.inverse_reparameterise", variant_name="seq-logit",
    props=["C07"], log_domain=True, self_shape="RescaleToBoundsRP",
    params={"x": XS, "x_prime": XP, "log_j": "Seq(Real)", "**kwargs": {}},
    requires=RP_REQ + LG_REQ + [
        "forall(i, 0, len(x), E(x_prime['a_prime'][i]) > 0 and "
        "E(x_prime['b_prime'][i]) > 0)"],
    modifies=["x", "log_j"], returns="Any",
    ensures=["len(x) == old(len(x)) and len(log_j) == old(len(log_j))"] + [
        f"forall(i, 0, len(x), x['{p}'][i] == {_w(p)} * {_sg(p)} + "
        f"self.bounds['{p}'][0] + self.offsets['{p}'])" for p in "ab"] + [
        KEEP_X,
        f"forall(i, 0, len(x), E(log_j[i]) == E(old(log_j)[i]) * {SJAC})",
        # (stepping stones: the returned point rescaled to the unit
        # interval is the sigmoid of the input)
        f"forall(i, 0, len(x), {_u('a')} == {_sg('a')})",
        f"forall(i, 0, len(x), {_u('b')} == {_sg('b')})",
        # ... additively, as a function of the returned point
        f"forall(i, 0, len(x), log_j[i] == old(log_j)[i] + ({ALOG}))"],
)


# ======================================================================
# layer 4: the constructor of RescaleToBounds -- which options combine.
# 'Where a prior in the reparameterised space is offered ...': the prime
# prior (a uniform box) is only right when nothing non-affine follows the
# rescaling, so a post-rescaling must switch it off; log / logit need the
# unit interval and fixed bounds.  Two parameters, default rescale bounds,
# no inversion, no offset; the base-class constructor (parameter / bounds
# normalisation) and set_bounds are not looked into.
# ======================================================================
shape("RescaleInit", {
    "parameters": "PyConst(['a', 'b'])",
    "prime_parameters": "PyConst(['a_prime', 'b_prime'])",
    "prior_bounds": "Dict(a:PyList(Real,2),b:PyList(Real,2))",
    "name": "Any",
}, cls="RescaleToBounds")
contract(RR, "RescaleToBounds.configure_pre_rescaling", props=["C07"],
         inline=True, verify=False)
contract(RR, "RescaleToBounds.configure_post_rescaling", props=["C07"],
         inline=True, verify=False)
_RI_P = {"parameters": ("const", ["a", "b"]), "prior_bounds": "Any",
         "prior": "Opt(Str)", "rescale_bounds": "None",
         "boundary_inversion": "None", "detect_edges": ("const", False),
         "inversion_type": "Any", "detect_edges_kwargs": "None",
         "offset": ("const", False), "update_bounds": "Bool",
         "pre_rescaling": "None"}
_RI_OPQ = ["__init__", "set_bounds", "configure_edge_detection"]
contract(
    RR, "RescaleToBounds.__init__", props=["C07"], self_shape="RescaleInit",
    params=dict(_RI_P, post_rescaling="None"),
    opaque_callees=_RI_OPQ,
    replay={"module": "replay.custom", "func": "rescale_init"},
    ensures=[
        "self.has_prime_prior == (prior is not None and prior == 'uniform')",
        "not self.has_post_rescaling and not self.has_pre_rescaling",
        "self.rescale_bounds['a'][0] == -1 and "
        "self.rescale_bounds['a'][1] == 1 and "
        "self.rescale_bounds['b'][0] == -1 and "
        "self.rescale_bounds['b'][1] == 1",
        "self._update == update_bounds",
        "self.boundary_inversion == False",
    ],
)
contract(
    RR, "RescaleToBounds.__init__", variant_name="logit", props=["C07"],
    self_shape="RescaleInit",
    params=dict(_RI_P, post_rescaling=("const", "logit")),
    opaque_callees=_RI_OPQ,
    ident_name="RescaleToBounds.__init__#logit",
    replay={"module": "replay.custom", "func": "rescale_init"},
    # log / logit cannot be combined with bounds that move
    raises={"RuntimeError": "update_bounds"},
    ensures=[
        # no prime prior is offered once a post-rescaling is configured,
        # whatever `prior` says
        "not self.has_prime_prior",
        "self.has_post_rescaling and not self.has_pre_rescaling",
        "self.rescale_bounds['a'][0] == 0 and "
        "self.rescale_bounds['a'][1] == 1 and "
        "self.rescale_bounds['b'][0] == 0 and "
        "self.rescale_bounds['b'][1] == 1",
        "not self._update",
    ],
)


# ---- NullReparameterisation: the identity on its parameters -----------------
RN = "nessai/reparameterisations/null.py"
shape("NullRP", {"parameters": "PyConst(['a', 'b'])",
                 "prime_parameters": "PyConst(['a', 'b'])"},
      cls="NullReparameterisation")
XN = "Struct(a:Real,b:Real,c:Real,logP:Real,logL:Real)"
contract(
    RN, "NullReparameterisation.reparameterise", props=["C07"],
    self_shape="NullRP", log_domain=True,
    params={"x": XN, "x_prime": XN, "log_j": "Seq(Real)", "**kwargs": {}},
    requires=["len(x) == len(x_prime) and len(log_j) == len(x)"],
    modifies=["x_prime"], returns="Any",
    ensures=["len(x_prime) == old(len(x_prime))",
             "forall(i, 0, len(x), x_prime['a'][i] == x['a'][i] and "
             "x_prime['b'][i] == x['b'][i])",
             # every other field (another reparameterisation's parameter,
             # the non-sampling fields) is untouched; log_j unchanged: the
             # Jacobian of the identity is 1
             "forall(i, 0, len(x), x_prime['c'][i] == old(x_prime['c'])[i] "
             "and x_prime['logL'][i] == old(x_prime['logL'])[i] and "
             "x_prime['logP'][i] == old(x_prime['logP'])[i])",
             "result[0] is x and result[1] is x_prime and result[2] is log_j"],
)
contract(
    RN, "NullReparameterisation.inverse_reparameterise", props=["C07"],
    self_shape="NullRP", log_domain=True,
    params={"x": XN, "x_prime": XN, "log_j": "Seq(Real)", "**kwargs": {}},
    requires=["len(x) == len(x_prime) and len(log_j) == len(x)"],
    modifies=["x"], returns="Any",
    ensures=["len(x) == old(len(x))",
             "forall(i, 0, len(x), x['a'][i] == x_prime['a'][i] and "
             "x['b'][i] == x_prime['b'][i])",
             "forall(i, 0, len(x), x['c'][i] == old(x['c'])[i] "
             "and x['logL'][i] == old(x['logL'])[i] and "
             "x['logP'][i] == old(x['logP'])[i])",
             "result[0] is x and result[1] is x_prime and result[2] is log_j"],
)


# ======================================================================
# layer 5: the bounds of the prime prior -- 'has the same support'.
# determine_rescaled_bounds returns the images of the prior bounds under the
# very map _rescale_to_bounds applies (pair lemma in checks/c07_pairs.py: a
# point lies in the prior box iff its image lies between the returned
# bounds), and update_prime_prior_bounds hands it this object's own bounds,
# offsets and rescale bounds, per parameter.
# ======================================================================
_DRB_P = {"prior_min": "Real", "prior_max": "Real", "x_min": "Real",
          "x_max": "Real", "invert": "None",
          "inversion": ("const", False), "offset": "Real",
          "rescale_bounds": "PyList(Real,2)"}
_SC = "(rescale_bounds[1] - rescale_bounds[0])"
contract(
    RS, "determine_rescaled_bounds", props=["C07"],
    params=_DRB_P,
    raises={"ValueError": "x_min == x_max"},
    returns="Tuple(Real,Real)",
    ensures=[f"result[0] == {_SC} * (prior_min - offset - x_min) / "
             f"(x_max - x_min) + rescale_bounds[0]",
             f"result[1] == {_SC} * (prior_max - offset - x_min) / "
             f"(x_max - x_min) + rescale_bounds[0]"],
)
# with inversion the rescaling is to [0, 1] and the reflected copy doubles
# the support: [-upper, upper] (lower edge), [lower - 1, 1 - lower] (upper)
for _inv, _ens in (
        ("lower", ["result[0] == -((prior_max - offset - x_min) / "
                   "(x_max - x_min))",
                   "result[1] == (prior_max - offset - x_min) / "
                   "(x_max - x_min)"]),
        ("upper", ["result[0] == (prior_min - offset - x_min) / "
                   "(x_max - x_min) - 1",
                   "result[1] == 1 - (prior_min - offset - x_min) / "
                   "(x_max - x_min)"])):
    contract(
        RS, "determine_rescaled_bounds", variant_name=f"inv-{_inv}",
        props=["C07"],
        params=dict(_DRB_P, invert=("const", _inv),
                    inversion=("const", True)),
        ident_name=f"determine_rescaled_bounds#inv-{_inv}",
        raises={"ValueError": "x_min == x_max"},
        returns="Tuple(Real,Real)", ensures=_ens,
    )

shape("RescalePrimeBounds", {
    "has_prime_prior": "Bool",
    "parameters": "PyConst(['a', 'b'])",
    "prime_parameters": "PyConst(['a_prime', 'b_prime'])",
    "pre_prior_bounds": "Dict(a:PyList(Real,2),b:PyList(Real,2))",
    "bounds": "Dict(a:PyList(Real,2),b:PyList(Real,2))",
    "offsets": D2,
    "rescale_bounds": "Dict(a:PyList(Real,2),b:PyList(Real,2))",
    "_edges": "None", "boundary_inversion": "PyConst(False)",
    "prime_prior_bounds": "Any",
}, cls="RescaleToBounds")


def _img(p, j):
    return (f"(self.rescale_bounds['{p}'][1] - self.rescale_bounds['{p}'][0])"
            f" * (self.pre_prior_bounds['{p}'][{j}] - self.offsets['{p}'] - "
            f"self.bounds['{p}'][0]) / {_w(p)} + "
            f"self.rescale_bounds['{p}'][0]")


contract(RR, "RescaleToBounds.post_rescaling", props=["C07"], inline=True,
         verify=False)
contract(
    RR, "RescaleToBounds.update_prime_prior_bounds", props=["C07"],
    self_shape="RescalePrimeBounds",
    requires=["self.bounds['a'][0] != self.bounds['a'][1]",
              "self.bounds['b'][0] != self.bounds['b'][1]"],
    modifies=["self.prime_prior_bounds"],
    ensures=["implies(not self.has_prime_prior, "
             "self.prime_prior_bounds is old(self.prime_prior_bounds))"] + [
        f"implies(self.has_prime_prior, "
        f"self.prime_prior_bounds['{p}_prime'][{j}] == {_img(p, j)})"
        for p in "ab" for j in (0, 1)],
)


# ---- CombinedReparameterisation: composition of reparameterisations ---------
# Two abstract member reparameterisations on disjoint parameters (r1: a ->
# a_prime with map F1 / inverse K1 and log-Jacobians J1 / L1; r2: b ->
# b_prime, F2 / K2 / J2 / L2); each leaves the other's fields alone.  The
# combination applies every member exactly once, in either order
# (reverse_order symbolic), accumulates both log-Jacobians onto what it was
# handed, and the inverse runs the members in the opposite order.
RC = "nessai/reparameterisations/combined.py"
_KEEP1 = ("forall(i, 0, len(x), x_prime['{o}_prime'][i] == "
          "old(x_prime['{o}_prime'])[i] and x_prime['logL'][i] == "
          "old(x_prime['logL'])[i] and x_prime['logP'][i] == "
          "old(x_prime['logP'])[i])")
_KEEP2 = ("forall(i, 0, len(x), x['{o}'][i] == old(x['{o}'])[i] and "
          "x['logL'][i] == old(x['logL'])[i] and "
          "x['logP'][i] == old(x['logP'])[i])")


def _member(name, p, o, k):
    F, J, K, L = f"F{k}", f"J{k}", f"K{k}", f"L{k}"
    shape(name, {}, methods={
        "reparameterise": Contract(
            "<abstract>", f"{name}.reparameterise",
            params={"x": XS, "x_prime": XP, "log_j": "Seq(Real)",
                    "**kwargs": {}},
            trusted=True, trusted_reason="an abstract member "
            "reparameterisation on one parameter (the built-in classes: "
            "the contracts above)",
            requires=["len(x) == len(x_prime) and len(log_j) == len(x)"],
            modifies=["x_prime", "log_j"],
            returns="ParamTuple(x,x_prime,log_j)",
            ensures=["len(x_prime) == old(len(x_prime)) and "
                     "len(log_j) == old(len(log_j))",
                     f"forall(i, 0, len(x), x_prime['{p}_prime'][i] == "
                     f"uf('{F}', x['{p}'][i]) and log_j[i] == "
                     f"old(log_j)[i] + uf('{J}', x['{p}'][i]))",
                     _KEEP1.format(o=o)]),
        "inverse_reparameterise": Contract(
            "<abstract>", f"{name}.inverse_reparameterise",
            params={"x": XS, "x_prime": XP, "log_j": "Seq(Real)",
                    "**kwargs": {}},
            trusted=True, trusted_reason="see reparameterise",
            requires=["len(x) == len(x_prime) and len(log_j) == len(x)"],
            modifies=["x", "log_j"],
            returns="ParamTuple(x,x_prime,log_j)",
            ensures=["len(x) == old(len(x)) and "
                     "len(log_j) == old(len(log_j))",
                     f"forall(i, 0, len(x), x['{p}'][i] == "
                     f"uf('{K}', x_prime['{p}_prime'][i]) and log_j[i] == "
                     f"old(log_j)[i] + uf('{L}', x_prime['{p}_prime'][i]))",
                     _KEEP2.format(o=o)]),
    })


from pyvc.contracts import Contract as Contract   # noqa: E402,F811
_member("MemberA", "a", "b", 1)
_member("MemberB", "b", "a", 2)
shape("CombinedRP", {
    "order": "PyConst(['r1', 'r2'])", "reverse_order": "Bool",
    "item_r1": "Obj(MemberA)", "item_r2": "Obj(MemberB)",
}, cls="CombinedReparameterisation")
contract(
    RC, "CombinedReparameterisation.reparameterise", props=["C07"],
    self_shape="CombinedRP",
    params={"x": XS, "x_prime": XP, "log_j": "Seq(Real)", "**kwargs": {}},
    requires=["len(x) == len(x_prime) and len(log_j) == len(x)"],
    modifies=["x_prime", "log_j"], returns="Any",
    ensures=["len(x_prime) == old(len(x_prime)) and "
             "len(log_j) == old(len(log_j))",
             "forall(i, 0, len(x), x_prime['a_prime'][i] == "
             "uf('F1', x['a'][i]) and x_prime['b_prime'][i] == "
             "uf('F2', x['b'][i]))",
             "forall(i, 0, len(x), log_j[i] == old(log_j)[i] + "
             "uf('J1', x['a'][i]) + uf('J2', x['b'][i]))",
             KEEP_XP],
)
contract(
    RC, "CombinedReparameterisation.inverse_reparameterise", props=["C07"],
    self_shape="CombinedRP",
    params={"x": XS, "x_prime": XP, "log_j": "Seq(Real)", "**kwargs": {}},
    requires=["len(x) == len(x_prime) and len(log_j) == len(x)"],
    modifies=["x", "log_j"], returns="Any",
    ensures=["len(x) == old(len(x)) and len(log_j) == old(len(log_j))",
             "forall(i, 0, len(x), x['a'][i] == "
             "uf('K1', x_prime['a_prime'][i]) and x['b'][i] == "
             "uf('K2', x_prime['b_prime'][i]))",
             "forall(i, 0, len(x), log_j[i] == old(log_j)[i] + "
             "uf('L1', x_prime['a_prime'][i]) + "
             "uf('L2', x_prime['b_prime'][i]))",
             KEEP_X],
)


# ---- Angle: (angle, radius) <-> Cartesian ----------------------------------
# closed forms of both directions and the accumulated log-Jacobian (log r:
# the Jacobian of (theta, r) -> (x, y) is scale * r, a constant factor away).
# The round trip rests on facts about cos / sin / arctan2 / sqrt that are
# NOT proved here (library facts: polar decomposition is unique).
RA = "nessai/reparameterisations/angle.py"
XA = "Struct(a:Real,r:Real,logP:Real,logL:Real)"
XAP = "Struct(a_x:Real,a_y:Real,logP:Real,logL:Real)"
shape("AngleRP", {
    "parameters": "PyConst(['a', 'r'])",
    "prime_parameters": "PyConst(['a_x', 'a_y'])",
    "scale": "Real", "chi": "PyConst(False)", "_zero_bound": "Bool",
}, cls="Angle")
for _m in ("_rescale_angle", "_rescale_radial", "_inverse_rescale_angle"):
    contract(RA, f"Angle.{_m}", props=["C07"], inline=True, verify=False)
contract(
    RA, "Angle.reparameterise", props=["C07"], self_shape="AngleRP",
    log_domain=True,
    params={"x": XA, "x_prime": XAP, "log_j": "Seq(Real)", "**kwargs": {}},
    requires=["len(x) == len(x_prime) and len(log_j) == len(x)"],
    raises={"RuntimeError": "exists(i, 0, len(x), x['r'][i] < 0)"},
    modifies=["x_prime", "log_j"], returns="Any",
    ensures=["len(x_prime) == old(len(x_prime)) and "
             "len(log_j) == old(len(log_j))",
             "forall(i, 0, len(x), x_prime['a_x'][i] == x['r'][i] * "
             "COS(x['a'][i] * self.scale) and x_prime['a_y'][i] == "
             "x['r'][i] * SIN(x['a'][i] * self.scale))",
             "forall(i, 0, len(x), log_j[i] == old(log_j)[i] + "
             "LOG(x['r'][i]))",
             "forall(i, 0, len(x), x_prime['logL'][i] == "
             "old(x_prime['logL'])[i] and x_prime['logP'][i] == "
             "old(x_prime['logP'])[i])"],
)
_AT = "ARCTAN2(x_prime['a_y'][i], x_prime['a_x'][i])"
_PI2 = "(2.0 * PI)"
contract(
    RA, "Angle.inverse_reparameterise", props=["C07"], self_shape="AngleRP",
    log_domain=True,
    params={"x": XA, "x_prime": XAP, "log_j": "Seq(Real)", "**kwargs": {}},
    requires=["len(x) == len(x_prime) and len(log_j) == len(x)",
              "self.scale != 0"],
    modifies=["x", "log_j"], returns="Any",
    ensures=["len(x) == old(len(x)) and len(log_j) == old(len(log_j))",
             "forall(i, 0, len(x), x['r'][i] == SQRT(x_prime['a_x'][i] * "
             "x_prime['a_x'][i] + x_prime['a_y'][i] * x_prime['a_y'][i]))",
             # an angle prior starting at zero is mapped back to [0, 2 pi)
             f"forall(i, 0, len(x), x['a'][i] == (FMOD({_AT}, {_PI2}) "
             f"if self._zero_bound else {_AT}) / self.scale)",
             "forall(i, 0, len(x), log_j[i] == old(log_j)[i] - "
             "LOG(x['r'][i]))",
             "forall(i, 0, len(x), x['logL'][i] == old(x['logL'])[i] and "
             "x['logP'][i] == old(x['logP'])[i])"],
)


# ---- RescaleToBounds with the log PRE-rescaling (as the distance
# ---- reparameterisation configures it): x' = rescale(log x - offset)
contract(
    RS, "log_with_log_jacobian", variant_name="pre", props=["C07"],
    log_domain=True, params={"x": "Seq(Real)"},
    requires=["forall(i, 0, len(x), x[i] > 0)"],
    returns="Tuple(Seq(Real),Seq(Real))",
    ensures=["len(result[0]) == len(x) and len(result[1]) == len(x)",
             "forall(i, 0, len(x), result[0][i] == LOG(x[i]) and "
             "result[1][i] == -LOG(x[i]))",
             "forall(i, 0, len(x), E(result[0][i]) == x[i])"],
)
contract(
    RS, "exp_with_log_jacobian", variant_name="pre", props=["C07"],
    log_domain=True, params={"x": "Seq(Real)"},
    returns="Tuple(Seq(Real),Seq(Real))",
    ensures=["len(result[0]) == len(x) and len(result[1]) == len(x)",
             "forall(i, 0, len(x), result[0][i] == E(x[i]) and "
             "result[1][i] == x[i])"],
)
shape("RescaleToBoundsPre", dict(
    SHAPES_RP := {
        "parameters": "PyConst(['a', 'b'])",
        "prime_parameters": "PyConst(['a_prime', 'b_prime'])",
        "has_pre_rescaling": "Bool", "has_post_rescaling": "Bool",
        "boundary_inversion": "PyConst(False)",
        "offsets": D2, "_rescale_factor": D2, "_rescale_shift": D2,
        "bounds": "Dict(a:PyList(Real,2),b:PyList(Real,2))"},
    pre_rescaling="Fn(nessai/utils/rescaling.py:log_with_log_jacobian)",
    pre_rescaling_inv="Fn(nessai/utils/rescaling.py:exp_with_log_jacobian)"),
    cls="RescaleToBounds")
# (in this family the two affine helpers are inlined: their bodies are
# proved as the '#seq' variants; inlining keeps the exponential of the sum
# syntactically the one the postcondition states)
for _fn in ("_rescale_to_bounds", "_inverse_rescale_to_bounds"):
    contract(RR, f"RescaleToBounds.{_fn}", variant_name="pre",
             props=["C07"], inline=True, verify=False)


def _ul(p):
    return (f"((LOG(x['{p}'][i]) - self.offsets['{p}'] - "
            f"self.bounds['{p}'][0]) / {_w(p)})")


PRE_REQ = ["len(x) == len(x_prime) and len(log_j) == len(x)",
           "self.has_pre_rescaling and not self.has_post_rescaling",
           "forall(i, 0, len(x), x['a'][i] > 0 and x['b'][i] > 0)"] + [
    f"self.bounds['{p}'][0] < self.bounds['{p}'][1] and "
    f"self._rescale_factor['{p}'] > 0" for p in "ab"]
contract(
    RR, "RescaleToBounds.reparameterise", variant_name="pre", props=["C07"],
    log_domain=True, self_shape="RescaleToBoundsPre",
    params={"x": XS, "x_prime": XP, "log_j": "Seq(Real)",
            "compute_radius": "Bool", "**kwargs": {}},
    requires=PRE_REQ, modifies=["x_prime", "log_j"], returns="Any",
    ident_name="RescaleToBounds.reparameterise#pre",
    ensures=["len(x_prime) == old(len(x_prime)) and "
             "len(log_j) == old(len(log_j))"] + [
        f"forall(i, 0, len(x), x_prime['{p}_prime'][i] == "
        f"self._rescale_factor['{p}'] * {_ul(p)} + "
        f"self._rescale_shift['{p}'])" for p in "ab"] + [
        KEEP_XP,
        # d/dx [F (log x - c) / W + S] = F / (W x): log-Jacobian
        # log F - log W - log x, per parameter
        "forall(i, 0, len(x), log_j[i] == old(log_j)[i] + " + " + ".join(
            f"(LOG(self._rescale_factor['{p}']) - LOG({_w(p)}) - "
            f"LOG(x['{p}'][i]))" for p in "ab") + ")"],
)
contract(
    RR, "RescaleToBounds.inverse_reparameterise", variant_name="pre",
    props=["C07"], log_domain=True, self_shape="RescaleToBoundsPre",
    params={"x": XS, "x_prime": XP, "log_j": "Seq(Real)", "**kwargs": {}},
    requires=[r for r in PRE_REQ if "x['a'][i] > 0" not in r],
    modifies=["x", "log_j"], returns="Any",
    ident_name="RescaleToBounds.inverse_reparameterise#pre",
    ensures=["len(x) == old(len(x)) and len(log_j) == old(len(log_j))"] + [
        f"forall(i, 0, len(x), x['{p}'][i] == E({_back(p)}))"
        for p in "ab"] + [
        KEEP_X,
        "forall(i, 0, len(x), log_j[i] == old(log_j)[i] + " + " + ".join(
            f"(LOG({_w(p)}) - LOG(self._rescale_factor['{p}']) + "
            f"({_back(p)}))" for p in "ab") + ")"],
)


# ---- the data-dependent update step: the new bounds are the extreme values
# ---- of the training points (after the offset), so every training point is
# ---- rescaled into the closed rescale interval and both ends are attained
shape("RescaleUpdate", {
    "_update": "Bool", "parameters": "PyConst(['a', 'b'])",
    "offsets": D2, "bounds": "Dict(a:PyList(Real,2),b:PyList(Real,2))",
}, cls="RescaleToBounds")
contract(RR, "RescaleToBounds.pre_rescaling", props=["C07"], inline=True,
         verify=False)
_UB = []
for _p in "ab":
    _UB += [
        f"implies(old(self._update), forall(i, 0, len(x), "
        f"self.bounds['{_p}'][0] <= x['{_p}'][i] - self.offsets['{_p}'] and "
        f"x['{_p}'][i] - self.offsets['{_p}'] <= self.bounds['{_p}'][1]))",
        f"implies(old(self._update), exists(i, 0, len(x), "
        f"x['{_p}'][i] - self.offsets['{_p}'] == self.bounds['{_p}'][0]) and "
        f"exists(i, 0, len(x), x['{_p}'][i] - self.offsets['{_p}'] == "
        f"self.bounds['{_p}'][1]))",
        f"implies(not old(self._update), self.bounds['{_p}'][0] == "
        f"old(self.bounds['{_p}'][0]) and self.bounds['{_p}'][1] == "
        f"old(self.bounds['{_p}'][1]))"]
contract(
    RR, "RescaleToBounds.update_bounds", props=["C07"],
    self_shape="RescaleUpdate", params={"x": XS},
    requires=["len(x) >= 1"],
    opaque_callees=["update_prime_prior_bounds"],
    modifies=["self.bounds"], ensures=_UB,
)
