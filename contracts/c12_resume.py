"""C12: resuming restores the checkpointed state (function contracts; the
pickle-frame obligations are in checks/pickle_frame.py)."""
from pyvc.contracts import contract, shape, Contract

SB = "nessai/samplers/base.py"
NS = "nessai/samplers/nestedsampler.py"

shape("ClsAbs", {})
shape("PickledSampler", {
    "_previous_likelihood_evaluations": "Int",
    "_previous_likelihood_evaluation_time": "Real",
    "model": "Any", "resumed": "Bool", "checkpoint_callback": "Any",
})
shape("ModelCnt", {"likelihood_evaluations": "Int",
                   "likelihood_evaluation_time": "Any"})

contract(
    SB, "BaseNestedSampler.resume_from_pickled_sampler", props=["C12"],
    self_shape="ClsAbs",
    params={"sampler": "Obj(PickledSampler)", "model": "Obj(ModelCnt)",
            "checkpoint_callback": "Any"},
    modifies=["sampler", "model"],
    returns="Any",
    ensures=[
        # evaluation counts continue cumulatively: the (fresh) model's
        # counter gains exactly what had been counted before the checkpoint
        "model.likelihood_evaluations == old(model.likelihood_evaluations) "
        "+ old(sampler._previous_likelihood_evaluations)",
        "sampler.model is model", "sampler.resumed == True",
        "result is sampler",
    ],
)

shape("FlowProposalResumed", {"resume_populated": "Bool",
                              "indices": "List(Int)", "populated": "Bool"})
shape("NestedSamplerResume", {
    "resumed": "Bool", "uninformed_sampling": "Bool",
    "_flow_proposal": "Obj(FlowProposalResumed)",
}, cls="NestedSampler", methods={
    "check_proposal_switch": Contract(
        "<abstract>", "NestedSamplerResume.check_proposal_switch",
        params={"force": "Bool"}, trusted=True, returns="Bool",
        trusted_reason="selects the active proposal object; does not touch "
        "the pool", modifies=["self.uninformed_sampling"]),
})
contract(
    NS, "NestedSampler.check_resume", variant_name="pool",
    props=["C12"], self_shape="NestedSamplerResume",
    modifies=["self.resumed", "self.uninformed_sampling",
              "self._flow_proposal.populated"],
    ensures=[
        # a pool that was populated at the checkpoint is populated again
        # (initialisation resets the flag), and only then
        "implies(old(self.resumed) and self._flow_proposal.resume_populated "
        "and len(self._flow_proposal.indices) > 0, "
        "self._flow_proposal.populated)",
        # ... and only then: a pool the writer had discarded (retrained
        # flow: populated False at the checkpoint, leftover indices) is NOT
        # revived
        "implies(old(self.resumed) and not "
        "(self._flow_proposal.resume_populated and "
        "len(self._flow_proposal.indices) > 0), "
        "self._flow_proposal.populated == "
        "old(self._flow_proposal.populated))",
        "implies(not old(self.resumed), self._flow_proposal.populated == "
        "old(self._flow_proposal.populated))",
        "not self.resumed",
    ],
)

PF = "nessai/proposal/flowproposal.py"
shape("FlowAbsPickle", {"weights_file": "Any", "flow_config": "EmptyDict"})
shape("FlowProposalPickle", {
    "populated": "Bool", "indices": "List(Int)", "initialised": "Bool",
    "flow": "Obj(FlowAbsPickle)", "model": "Any", "_flow_config": "Any",
    "_draw_func": "Any", "_populate_dist": "Any", "x": "Any",
    "samples": "Any", "training_count": "Int",
    "_reparameterisation": "Any",
}, cls="FlowProposal")
contract(
    PF, "FlowProposal.__getstate__", props=["C12"],
    self_shape="FlowProposalPickle",
    returns="Any",
    ensures=[
        # the pool is marked for restoration exactly when it is populated
        # and not exhausted
        "result['resume_populated'] == "
        "(self.populated and len(self.indices) > 0)",
        "result['initialised'] == False",
        "'model' not in result and 'flow' not in result and "
        "'_flow_config' not in result",
        # the pool and the training state are pickled as they are
        "result['indices'] is self.indices and result['x'] is self.x and "
        "result['samples'] is self.samples and "
        "result['training_count'] == self.training_count and "
        "result['_reparameterisation'] is self._reparameterisation",
        "result['weights_file'] is self.flow.weights_file",
    ],
)

# ---- checkpoints written by train_proposal record a finished training --------
from .shapes import LP_ARR as _LPA
shape("TrainProposalAbs", {}, methods={
    "train": Contract("<abstract>", "TrainProposalAbs.train",
                      params={"x": "Any"}, trusted=True,
                      trusted_reason="flow training: no sampler state"),
})
shape("NestedSamplerTrain", {
    "iteration": "Int", "last_updated": "Int", "cooldown": "Int",
    "completed_training": "Bool", "live_points": _LPA, "memory": "Int",
    "nested_samples": "List(Real)", "proposal": "Obj(TrainProposalAbs)",
    "training_time": "Any",
    "history": "Dict(training_iterations:List(Int))",
    "block_iteration": "Int", "block_acceptance": "Real",
    "checkpoint_on_training": "Bool", "ghost_ckpt_completed": "Bool",
}, cls="NestedSampler", methods={
    "check_flow_model_reset": Contract(
        "<abstract>", "NestedSampler.check_flow_model_reset", trusted=True,
        trusted_reason="resets flow weights / permutations on schedule; no "
        "sampler state"),
    "checkpoint": Contract(
        "<abstract>", "NestedSampler.checkpoint",
        params={"periodic": "Bool"}, trusted=True,
        trusted_reason="pickles the sampler as it is NOW (C11): the ghost "
        "attribute records what the pickled `completed_training` is",
        modifies=["self.ghost_ckpt_completed"],
        ensures=["self.ghost_ckpt_completed == self.completed_training"]),
})
contract(
    NS, "NestedSampler.train_proposal", props=["C12"],
    self_shape="NestedSamplerTrain", params={"force": "Bool"},
    requires=["self.memory == 0", "self.ghost_ckpt_completed"],
    modifies=["self.completed_training", "self.training_time",
              "self.history", "self.block_iteration",
              "self.block_acceptance", "self.ghost_ckpt_completed"],
    ensures=[
        # a checkpoint written at the end of training pickles a sampler whose
        # training is marked complete -- what the writer itself continues
        # with (a restored sampler must not treat training as interrupted)
        "self.ghost_ckpt_completed",
        "implies(force or old(self.iteration) - old(self.last_updated) >= "
        "old(self.cooldown), self.completed_training)",
    ],
)
