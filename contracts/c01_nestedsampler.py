"""C01 (and the parts C05/C13/C15 reuse): the standard sampler's live set."""
from pyvc.contracts import contract
from .shapes import LP_ROW, LP_ARR, NS, EV
from .c02_evidence import ev_inv, ZTRAP
ONL0 = "old(len(self.state.nlive))"

# ---------------------------------------------------------------- LiveInv
# The class invariant of the standard sampler between iterations.
LIVE_INV = [
    # while the run is in progress the evidence is the running rectangle sum
    # (the trapezoidal refinement belongs to finalise): C05 -- a run cut
    # short reports the estimator its returned samples give
    "not self.state.ghost_refined",
    "self.nlive >= 1",
    "self.live_points is not None",
    "len(self.live_points) == self.nlive",
    "sorted_by(self.live_points, 'logL')",
    # bookkeeping agrees: one evidence entry per discarded point (+ the
    # initial -inf entry), one insertion index per accepted replacement
    "len(self.state.logLs) == len(self.nested_samples) + 1",
    "self.iteration == len(self.nested_samples)",
    # the discarded likelihoods are non-decreasing and below the live set
    "sorted_by(self.nested_samples, 'logL')",
    "forall(i, 0, len(self.nested_samples), "
    "self.nested_samples[i]['logL'] <= self.live_points[0]['logL'])",
    # the evidence state integrated exactly the discarded likelihoods
    "forall(i, 0, len(self.nested_samples), "
    "self.state.logLs[i + 1] == self.nested_samples[i]['logL'])",
    # birth clause (reused by C05): every live point was born strictly
    # above the contour recorded for its iteration
    "forall(i, 0, self.nlive, 0 <= self.live_points[i]['it'] and "
    "self.live_points[i]['it'] < len(self.state.logLs) and "
    "self.state.logLs[self.live_points[i]['it']] < "
    "self.live_points[i]['logL'])",
    "forall(i, 0, len(self.nested_samples), "
    "0 <= self.nested_samples[i]['it'] and "
    "self.nested_samples[i]['it'] <= i and "
    "self.state.logLs[self.nested_samples[i]['it']] < "
    "self.nested_samples[i]['logL'])",
    # every discarded point so far was integrated with the full live count
    # (C05: the schedule compute_weights assumes)
    "self.state.base_nlive == self.nlive",
    "len(self.state.nlive) == len(self.nested_samples)",
    "forall(p, 0, len(self.state.nlive), self.state.nlive[p] == self.nlive)",
    # one insertion index per iteration; no point is both recorded and
    # live, no duplicated live point (C13's resumable-state clauses; new
    # points are distinguished by their iteration stamp)
    "len(self.insertion_indices) == self.iteration",
    "forall2(i, self.nlive, k, len(self.nested_samples), "
    "not row_eq(self.live_points[i], self.nested_samples[k]))",
    "forall2(i, self.nlive, j, self.nlive, "
    "implies(i != j, not row_eq(self.live_points[i], self.live_points[j])))",
] + ev_inv("self.state")

contract(
    NS, "NestedSampler.insert_live_point", props=["C01", "C13"],
    params={"live_point": LP_ROW},
    requires=[
        "self.live_points is not None",
        "len(self.live_points) == self.nlive",
        "self.nlive >= 1",
        "sorted_by(self.live_points, 'logL')",
        "live_point['logL'] > self.live_points[0]['logL']",
    ],
    modifies=["self.live_points"],
    returns="Int",
    ensures=[
        "self.live_points is not None",
        "len(self.live_points) == old(len(self.live_points))",
        "sorted_by(self.live_points, 'logL')",
        "0 <= result and result < self.nlive",
        "row_eq(self.live_points[result], live_point)",
        "forall(i, 0, result, row_eq(self.live_points[i], "
        "old(self.live_points)[i + 1]))",
        "forall(i, result + 1, self.nlive, row_eq(self.live_points[i], "
        "old(self.live_points)[i]))",
    ],
)

contract(
    NS, "NestedSampler.yield_sample", props=["C01", "C13"],
    generator=True,
    params={"oldparam": f"Opt({LP_ROW})"},
    requires=[],
    modifies=["self.logLmax", "self.proposal.populated",
              "self.proposal._checked_population",
              "self.proposal.population_acceptance", "self.proposal.r",
              "self.model.likelihood_evaluations"],
    returns=f"Tuple(Int,Opt({LP_ROW}))",
    loops={
        0: {"unroll_first": True},
        1: {"inv": ["counter >= 0", "row_eq(oldparam, old(oldparam))"],
            "modifies": ["self.logLmax", "self.proposal.populated",
                         "self.proposal._checked_population",
                         "self.proposal.population_acceptance",
                         "self.proposal.r",
                         "self.model.likelihood_evaluations"]},
    },
    ensures=[
        "result[0] >= 1",
        "implies(oldparam is not None, result[1] is not None)",
        # either an accepted point: finite prior, strictly above the contour
        # or the untouched old point with an emptied proposal
        "(result[1] is not None and result[1]['logP'] != -INF and "
        "result[1]['logL'] > self.logLmin) or "
        "(row_eq(result[1], oldparam) and not self.proposal.populated)",
    ],
)

# ---- frames of the bookkeeping methods (bodies: training, plotting,
# checkpointing -- outside the symbolic subset; their *frame* is an
# obligation discharged by syntactic frame inference, checks/frames_check.py)
FRAME_REASON = ("body not symbolically executed (training / plotting / "
                "checkpoint I/O); only its frame is relied on and that is "
                "discharged by frame inference over the call graph")
contract(
    NS, "NestedSampler.check_state", props=["C01", "C13", "C15"],
    trusted=True, trusted_reason=FRAME_REASON, frame_check=True,
    nonneg_frame=["block_iteration"],
    params={"force": "Bool"},
    requires=["self.block_iteration >= 0"],
    modifies=["self.block_acceptance", "self.block_iteration",
              "self.proposal", "self.ghost_ckpt_writes"],
    ensures=["self.block_iteration >= 0"],
)
contract(
    NS, "NestedSampler.update_state", props=["C01", "C13", "C15"],
    trusted=True, trusted_reason=FRAME_REASON, frame_check=True,
    nonneg_frame=["block_iteration"],
    params={"force": "Bool"},
    requires=["self.block_iteration >= 0"],
    modifies=["self.block_acceptance", "self.block_iteration",
              "self.proposal", "self.ghost_ckpt_writes"],
    ensures=["self.block_iteration >= 0"],
)

CONSUME_MOD = [
    "self.live_points", "self.logLmin", "self.logLmax", "self.state",
    "self.nested_samples", "self.condition", "self.iteration",
    "self.block_iteration", "self.insertion_indices", "self.accepted",
    "self.rejected", "self.block_acceptance", "self.acceptance_history",
    "self.mean_block_acceptance", "self.proposal", "self.model",
    "self.ghost_ckpt_writes",
]

contract(
    NS, "NestedSampler.consume_sample", props=["C01", "C13", "C15", "C05"],
    requires=LIVE_INV + [
        "self.block_iteration >= 0",
    ],
    modifies=CONSUME_MOD,
    loops={
        0: {"inv": [
            "count >= 0",
            "self.block_iteration >= 1",
            # the live set is untouched until the replacement is accepted
            "self.live_points is not None",
            "len(self.live_points) == self.nlive",
            "forall(i, 0, self.nlive, row_eq(self.live_points[i], "
            "old(self.live_points)[i]))",
            "self.logLmin == old(self.live_points)[0]['logL']",
            "self.iteration == old(self.iteration) + 1",
            "row_eq(worst, old(self.live_points)[0])",
            "len(self.insertion_indices) == old(len(self.insertion_indices))",
        ],
            "modifies": ["self.rejected", "self.block_iteration",
                         "self.block_acceptance", "self.proposal",
                         "self.logLmax", "self.model",
                         "self.ghost_ckpt_writes"]},
    },
    ensures=LIVE_INV + [
        # the removed point is the minimum and is recorded exactly once
        "len(self.nested_samples) == old(len(self.nested_samples)) + 1",
        "row_eq(self.nested_samples[len(self.nested_samples) - 1], "
        "old(self.live_points)[0])",
        "forall(i, 0, old(len(self.nested_samples)), "
        "row_eq(self.nested_samples[i], old(self.nested_samples)[i]))",
        # ... and integrated exactly once
        "len(self.state.logLs) == old(len(self.state.logLs)) + 1",
        "self.state.logLs[len(self.state.logLs) - 1] == "
        "old(self.live_points)[0]['logL']",
        "self.logLmin == old(self.live_points)[0]['logL']",
        "self.iteration == old(self.iteration) + 1",
        # the replacement: finite prior, strictly above the removed point,
        # at the recorded insertion index; every other live point untouched
        "len(self.insertion_indices) == old(len(self.insertion_indices)) + 1",
        "let(r, self.insertion_indices[len(self.insertion_indices) - 1], "
        "0 <= r and r < self.nlive and "
        "self.live_points[r]['logL'] > old(self.live_points)[0]['logL'] and "
        "self.live_points[r]['logP'] != -INF and "
        "self.live_points[r]['it'] == self.iteration and "
        "forall(i, 0, r, row_eq(self.live_points[i], "
        "old(self.live_points)[i + 1])) and "
        "forall(i, r + 1, self.nlive, row_eq(self.live_points[i], "
        "old(self.live_points)[i])))",
        "self.accepted == old(self.accepted) + 1",
        "self.block_iteration >= 1",
        # the stopping quantity (C15): log of (Z + Lmax X_it) / Z with the
        # evidence just updated, X_it = exp(-it/nlive), it = the iteration
        # count before this step
        "self.condition == LOG(E(self.state.logZ) + "
        "E(old(self.logLmax) - real(old(self.iteration)) / real(self.nlive)))"
        " - self.state.logZ",
    ],
)

LVP = "nessai/livepoint.py"
contract(
    LVP, "empty_structured_array", props=["C01", "C18"],
    trusted=True,
    trusted_reason="dtype construction is library-level; C18 covers the "
    "field order/defaults of this function separately",
    params={"n": "Int", "names": "Any", "non_sampling_parameters": "Bool"},
    requires=["n >= 0"],
    returns=LP_ARR,
    ensures=["len(result) == n"],
)

contract(
    NS, "NestedSampler.populate_live_points", props=["C01"],
    requires=["self.nlive >= 1"],
    modifies=["self.live_points", "self.logLmax", "self.proposal",
              "self.model"],
    loops={
        0: {"inv": ["0 <= i and i <= self.nlive",
                    "len(live_points) == self.nlive",
                    "forall(k, 0, i, isfinite(live_points[k]['logL']) and "
                    "isfinite(live_points[k]['logP']))"],
            "modifies": ["self.logLmax", "self.proposal", "self.model"]},
        1: {"inv": ["0 <= i and i <= self.nlive",
                    "len(live_points) == self.nlive",
                    "forall(k, 0, i, isfinite(live_points[k]['logL']) and "
                    "isfinite(live_points[k]['logP']))"],
            "modifies": ["self.logLmax", "self.proposal", "self.model"]},
    },
    ensures=[
        "self.live_points is not None",
        "len(self.live_points) == self.nlive",
        "sorted_by(self.live_points, 'logL')",
        "forall(k, 0, self.nlive, self.live_points[k]['it'] == 0)",
        "forall(k, 0, self.nlive, isfinite(self.live_points[k]['logL']) and "
        "isfinite(self.live_points[k]['logP']))",
    ],
)

contract(
    NS, "NestedSampler.finalise", props=["C01", "C15", "C05"],
    requires=LIVE_INV + ["self.block_iteration >= 0"],
    modifies=["self.state", "self.nested_samples", "self.live_points",
              "self.finalised", "self.block_acceptance",
              "self.block_iteration", "self.proposal",
              "self.ghost_ckpt_writes"],
    loops={
        0: {"index": "k",
            "inv": ev_inv("self.state") + [
                "not self.state.ghost_refined",
                "len(self.nested_samples) == old(len(self.nested_samples)) + k",
                "len(self.state.logLs) == old(len(self.state.logLs)) + k",
                "len(self.state.nlive) == old(len(self.state.nlive)) + k",
                "forall(j, 0, old(len(self.nested_samples)), row_eq("
                "self.nested_samples[j], old(self.nested_samples)[j]))",
                "forall(p, old(len(self.nested_samples)), old(len(self.nested_samples)) + k, row_eq(self.nested_samples[p], "
                "old(self.live_points)[p - old(len(self.nested_samples))]))",
                "forall(j, 0, old(len(self.state.logLs)), "
                "self.state.logLs[j] == old(self.state.logLs)[j])",
                "forall(p, old(len(self.state.logLs)), old(len(self.state.logLs)) + k, self.state.logLs[p] == "
                "old(self.live_points)[p - old(len(self.state.logLs))]['logL'])",
                "forall(p, old(len(self.state.nlive)), old(len(self.state.nlive)) + k, self.state.nlive[p] == "
                "self.nlive - (p - old(len(self.state.nlive))))",
                "forall(j, 0, old(len(self.state.nlive)), "
                "self.state.nlive[j] == old(self.state.nlive)[j])",
            ],
            "modifies": ["self.state", "self.nested_samples"]},
    },
    ensures=[
        # every remaining live point consumed exactly once, in order
        "len(self.nested_samples) == old(len(self.nested_samples)) + "
        "self.nlive",
        "forall(j, 0, old(len(self.nested_samples)), row_eq("
        "self.nested_samples[j], old(self.nested_samples)[j]))",
        "forall(p, old(len(self.nested_samples)), old(len(self.nested_samples)) + self.nlive, row_eq(self.nested_samples[p], "
        "old(self.live_points)[p - old(len(self.nested_samples))]))",
        "len(self.state.logLs) == len(self.nested_samples) + 1",
        "forall(p, old(len(self.state.logLs)), old(len(self.state.logLs)) + self.nlive, self.state.logLs[p] == "
        "old(self.live_points)[p - old(len(self.state.logLs))]['logL'])",
        # with the shrinking live-count schedule nlive, nlive-1, ..., 1
        "forall(p, old(len(self.state.nlive)), old(len(self.state.nlive)) + self.nlive, self.state.nlive[p] == "
        "self.nlive - (p - old(len(self.state.nlive))))",
        "sorted_by(self.nested_samples, 'logL')",
        "self.finalised",
        "self.live_points is None",
        "self.iteration == old(self.iteration)",
        # C05: the reported evidence is the trapezoid quadrature of the
        # recorded likelihoods / volumes, the first `iteration` entries
        # integrated with nlive live points
        "E(self.state.logZ) == " + ZTRAP.replace("self.", "self.state."),
        f"forall(p, 0, {ONL0}, self.state.nlive[p] == self.nlive)",
        "forall(i, 0, len(self.nested_samples), self.state.logLs[i + 1] == "
        "self.nested_samples[i]['logL'])",
        "len(self.state.log_vols) == len(self.state.logLs) and "
        "len(self.state.nlive) == len(self.nested_samples)",
    ],
)
