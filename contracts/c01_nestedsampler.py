from pyvc.contracts import contract
from .shapes import LP_ROW

NS = "nessai/samplers/nestedsampler.py"

contract(
    NS, "NestedSampler.insert_live_point", props=["C01", "C13"],
    params={"live_point": LP_ROW},
    requires=[
        "len(self.live_points) == self.nlive",
        "self.nlive >= 1",
        "sorted_by(self.live_points, 'logL')",
        "live_point['logL'] > self.live_points[0]['logL']",
    ],
    modifies=["self.live_points"],
    returns="Int",
    ensures=[
        "len(self.live_points) == old(len(self.live_points))",
        "sorted_by(self.live_points, 'logL')",
        "0 <= result and result < self.nlive",
        "row_eq(self.live_points[result], live_point)",
        "forall(i, 0, result, row_eq(self.live_points[i], old(self.live_points)[i + 1]))",
        "forall(i, result + 1, self.nlive, row_eq(self.live_points[i], old(self.live_points)[i]))",
        "forall(i, 0, result, self.live_points[i]['logL'] < live_point['logL'])",
        "forall(i, result + 1, self.nlive, live_point['logL'] <= self.live_points[i]['logL'])",
    ],
)
