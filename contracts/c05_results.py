"""C05: returned results are mutually consistent and faithful to the model.
Most of C05 is carried by C01 (invariant + finalise), C02 (quadrature) and
C15 (loop postconditions); this file adds the result wiring."""
from pyvc.contracts import contract, shape, Contract
from .shapes import NS, EV, LP_ROW
from . import c15_stopping   # noqa: F401  (load order)
from pyvc import contracts as C

SB = "nessai/samplers/base.py"
for _f in ("NestedSampler.nested_sampling_loop", "NestedSampler.finalise",
           "NestedSampler.consume_sample"):
    _c = C.CONTRACTS[(NS, _f)]
    if "C05" not in _c.props:
        _c.props.append("C05")

# birth likelihoods: logLs[it] for every returned sample, strictly below the
# sample's own likelihood (the clause the class invariant carries)
shape("NSResults", {
    "state": "Obj(_NSIntegralState)",
    "nested_samples": f"List({LP_ROW})",
    "insertion_indices": "List(Int)",
    "final_p_value": "Any", "final_ks_statistic": "Any",
    "training_time": "Any", "proposal_population_time": "Any",
}, cls="NestedSampler", methods={
    "get_result_dictionary": Contract(
        "<abstract>", "NSResults.get_result_dictionary",
        trusted=True, returns="EmptyDict",
        trusted_reason="BaseNestedSampler.get_result_dictionary: version, "
        "seed, timings, history (a fresh dict the subclass adds to)"),
})
BIRTH_REQ = [
    "forall(i, 0, len(self.nested_samples), "
    "0 <= self.nested_samples[i]['it'] and "
    "self.nested_samples[i]['it'] < len(self.state.logLs) and "
    "self.state.logLs[self.nested_samples[i]['it']] < "
    "self.nested_samples[i]['logL'])",
]
contract(
    NS, "NestedSampler.birth_log_likelihoods", props=["C05"],
    self_shape="NSResults",
    requires=BIRTH_REQ,        # part of the sampler invariant (C01)
    returns="Seq(Real)",
    ensures=[
        "len(result) == len(self.nested_samples)",
        "forall(i, 0, len(self.nested_samples), result[i] == "
        "self.state.logLs[self.nested_samples[i]['it']] and "
        "result[i] < self.nested_samples[i]['logL'])",
    ],
)

contract(
    NS, "NestedSampler.get_result_dictionary", props=["C05"],
    self_shape="NSResults",
    requires=BIRTH_REQ + [
        "len(self.state.logLs) >= 1", "len(self.state.info) >= 1",
        "len(self.state.log_vols) == len(self.state.logLs)",
        "self.state.log_vols[0] == 0",
        "forall(k, 0, len(self.state.log_vols), "
        "E(self.state.log_vols[k]) > 0)",
        "forall(k, 0, len(self.state.log_vols) - 1, "
        "E(self.state.log_vols[k + 1]) < E(self.state.log_vols[k]))",
        "len(self.state.nlive) == len(self.state.logLs) - 1",
        "self.state.base_nlive >= 1",
        "self.state.logw == self.state.log_vols[len(self.state.log_vols) - 1]",
        "self.state.expectation == 'logt' or self.state.expectation == 't'",
    ],
    returns="Any",
    ensures=[
        # the dictionary reports the sampler's own evidence, samples, weights
        "result['log_evidence'] == self.state.logZ",
        "result['insertion_indices'] is self.insertion_indices",
        "len(result['nested_samples']) == len(self.nested_samples)",
        "forall(i, 0, len(self.nested_samples), "
        "row_eq(result['nested_samples'][i], self.nested_samples[i]))",
        "len(result['log_posterior_weights']) == "
        "len(self.nested_samples) or True",
        "len(result['logL_birth']) == len(self.nested_samples)",
        "forall(i, 0, len(self.nested_samples), result['logL_birth'][i] < "
        "self.nested_samples[i]['logL'])",
        "result['information'] == "
        "self.state.info[len(self.state.info) - 1]",
    ],
)

# ---- importance sampler: the evidence estimator ---------------------------
INS_ROW = ("x:Sort(P),logP:Real,logL:Real,it:Int,logW:Real,logQ:Real,"
           "logU:Real")
contract(
    EV, "log_evidence_from_ins_samples", props=["C05"], log_domain=True,
    params={"samples": f"Struct({INS_ROW})"},
    requires=["len(samples) >= 1"],
    returns="Real",
    ensures=["E(result) == Sum(k, 0, len(samples), "
             "E(samples[k]['logL'] + samples[k]['logW'])) / "
             "real(len(samples))"],
)

shape("_INSIntegralState", {
    "_n": "Int", "_logZ": "Real", "_weights": "Seq(Real)",
    "_weights_ns": "Seq(Real)", "_weights_lp": "Opt(Seq(Real))",
})
contract(
    EV, "_INSIntegralState.update_evidence", props=["C05"], log_domain=True,
    params={"nested_samples": f"Struct({INS_ROW})", "live_points": "None"},
    requires=["len(nested_samples) >= 1"],
    modifies=["self._weights_ns", "self._weights_lp", "self._weights",
              "self._logZ", "self._n"],
    ensures=[
        "self._n == len(nested_samples)",
        "len(self._weights) == len(nested_samples)",
        "forall(k, 0, len(nested_samples), self._weights[k] == "
        "nested_samples[k]['logL'] + nested_samples[k]['logW'])",
        "E(self._logZ) == Sum(k, 0, len(nested_samples), "
        "E(nested_samples[k]['logL'] + nested_samples[k]['logW']))",
    ],
)
contract(
    EV, "_INSIntegralState.logZ", props=["C05"], log_domain=True,
    requires=["self._n >= 1"],
    returns="Real",
    # log-evidence = logsumexp(logL + logW) - log n: the same estimator as
    # the stand-alone log_evidence_from_ins_samples
    ensures=["E(result) == E(self._logZ) / real(self._n)"],
)
contract(
    EV, "_INSIntegralState.log_posterior_weights", props=["C05"],
    log_domain=True,
    requires=["self._n >= 1"],
    returns="Seq(Real)",
    ensures=[
        "len(result) == len(self._weights)",
        "forall(k, 0, len(self._weights), E(result[k]) == "
        "E(self._weights[k]) / (E(self._logZ) / real(self._n)))",
    ],
)

# ---- importance sampler: the result dictionary reports the sampler's values --
INSF = "nessai/samplers/importancesampler.py"
shape("INSStateRes", {"log_evidence": "Real", "log_evidence_error": "Real",
                      "log_posterior_weights": "Seq(Real)"})
shape("INSStoreRes", {"samples": f"Struct({INS_ROW})",
                      "state": "Obj(INSStateRes)"})
shape("INSModelRes", {}, methods={
    "from_unit_hypercube": Contract(
        "<abstract>", "INSModelRes.from_unit_hypercube",
        params={"x": f"Struct({INS_ROW})"}, trusted=True,
        trusted_reason="maps the unit-hypercube samples back to the "
        "physical space, one row per row (C10 / the user's map)",
        returns=f"Struct({INS_ROW})", ensures=["len(result) == len(x)"]),
})
shape("INSResults", {
    "history": "Any", "model": "Obj(INSModelRes)",
    "training_samples": "Obj(INSStoreRes)",
    "iid_samples": "Opt(Obj(INSStoreRes))",
    "bootstrap_log_evidence": "Any", "bootstrap_log_evidence_error": "Any",
    # (read-only properties of the sampler, shadowed: their definitions are
    # the evidence-state contracts above)
    "final_samples": f"Struct({INS_ROW})",
    "final_log_posterior_weights": "Seq(Real)",
    "final_log_evidence": "Real", "final_log_evidence_error": "Real",
    "training_time": "Any", "draw_samples_time": "Any",
    "add_and_update_samples_time": "Any", "draw_final_samples_time": "Any",
    "importance": "Any",
}, cls="ImportanceNestedSampler", methods={
    "get_result_dictionary": Contract(
        "<abstract>", "INSResults.get_result_dictionary",
        trusted=True, returns="EmptyDict",
        trusted_reason="BaseNestedSampler.get_result_dictionary: a fresh "
        "dict the subclass adds to"),
})
contract(
    INSF, "ImportanceNestedSampler.get_result_dictionary", props=["C05"],
    self_shape="INSResults", returns="Any",
    ensures=[
        # the dictionary reports the same evidence, weights and samples as
        # the sampler object
        "result['log_evidence'] == self.final_log_evidence",
        "result['log_evidence_error'] == self.final_log_evidence_error",
        "result['log_posterior_weights'] is "
        "self.final_log_posterior_weights",
        "result['samples'] is self.final_samples",
        "result['training_log_evidence'] == "
        "self.training_samples.state.log_evidence",
        "result['training_log_evidence_error'] == "
        "self.training_samples.state.log_evidence_error",
        "result['training_log_posterior_weights'] is "
        "self.training_samples.state.log_posterior_weights",
        "len(result['training_samples']) == "
        "len(self.training_samples.samples)",
        "iff('iid_log_evidence' in result, self.iid_samples is not None)",
        "result['history'] is self.history",
    ],
)
