"""C08: flow and proposal densities are consistent with their samples.
The external transform / base distribution are abstract (see pyvc/nplib.py:
Tf, Dj, Ti, Di, Bz with the bijection + log-determinant laws ASSUMED of
glasflow); the nessai wrappers are verified against them."""
from pyvc.contracts import contract, shape, Contract

FB = "nessai/flows/base.py"
FM = "nessai/flowmodel/base.py"
XT = "Seq(Sort(X))"
ZT = "Seq(Sort(Zs))"

shape("TransformAbs", {}, methods={
    "__call__": Contract(
        "<abstract>", "TransformAbs.__call__",
        params={"inputs": XT, "context": "Any"}, trusted=True,
        trusted_reason="glasflow Transform.forward: row-wise (Tf, Dj)",
        returns=f"Tuple({ZT},Seq(Real))",
        ensures=["len(result[0]) == len(inputs) and "
                 "len(result[1]) == len(inputs)",
                 "forall(i, 0, len(inputs), result[0][i] == Tf(inputs[i]) "
                 "and result[1][i] == Dj(inputs[i]))"]),
    "inverse": Contract(
        "<abstract>", "TransformAbs.inverse",
        params={"inputs": ZT, "context": "Any"}, trusted=True,
        trusted_reason="glasflow Transform.inverse: row-wise (Ti, Di)",
        returns=f"Tuple({XT},Seq(Real))",
        ensures=["len(result[0]) == len(inputs) and "
                 "len(result[1]) == len(inputs)",
                 "forall(i, 0, len(inputs), result[0][i] == Ti(inputs[i]) "
                 "and result[1][i] == Di(inputs[i]))"]),
})
from pyvc.contracts import SHAPES as _S
_S["TransformAbs"].methods["forward"] = _S["TransformAbs"].methods["__call__"]
shape("DistributionAbs", {}, methods={
    "log_prob": Contract(
        "<abstract>", "DistributionAbs.log_prob", params={"inputs": ZT},
        trusted=True, trusted_reason="base distribution density Bz",
        returns="Seq(Real)",
        ensures=["len(result) == len(inputs)",
                 "forall(i, 0, len(inputs), result[i] == Bz(inputs[i]))"]),
    "sample": Contract(
        "<abstract>", "DistributionAbs.sample", params={"n": "Int"},
        trusted=True, trusted_reason="n latent draws", returns=ZT,
        ensures=["len(result) == n"]),
    "sample_and_log_prob": Contract(
        "<abstract>", "DistributionAbs.sample_and_log_prob",
        params={"n": "Int"}, trusted=True,
        trusted_reason="n latent draws with their base density",
        returns=f"Tuple({ZT},Seq(Real))",
        ensures=["len(result[0]) == n and len(result[1]) == n",
                 "forall(i, 0, n, result[1][i] == Bz(result[0][i]))"]),
})
shape("NFlow", {"_transform": "Obj(TransformAbs)",
                "_distribution": "Obj(DistributionAbs)",
                "training": "Bool", "device": "Any"},
      methods={"eval": Contract(
          "<abstract>", "NFlow.eval", trusted=True, modifies=["self.training"],
          trusted_reason="torch.nn.Module.eval",
          ensures=["not self.training"])})

DENS = "Bz(Tf({x})) + Dj({x})"      # log p(x) = log p_base(f(x)) + log|J|

contract(FB, "NFlow.forward", props=["C08"],
         params={"x": XT, "context": "Any"},
         returns=f"Tuple({ZT},Seq(Real))",
         ensures=["len(result[0]) == len(x) and len(result[1]) == len(x)",
                  "forall(i, 0, len(x), result[0][i] == Tf(x[i]) and "
                  "result[1][i] == Dj(x[i]))"])
contract(FB, "NFlow.inverse", props=["C08"],
         params={"z": ZT, "context": "Any"},
         returns=f"Tuple({XT},Seq(Real))",
         ensures=["len(result[0]) == len(z) and len(result[1]) == len(z)",
                  "forall(i, 0, len(z), result[0][i] == Ti(z[i]) and "
                  "result[1][i] == Di(z[i]))",
                  # forward followed by inverse returns the input
                  "forall(i, 0, len(z), Tf(result[0][i]) == z[i])"])
contract(FB, "NFlow.log_prob", props=["C08"],
         params={"inputs": XT, "context": "Any"}, returns="Seq(Real)",
         ensures=["len(result) == len(inputs)",
                  "forall(i, 0, len(inputs), result[i] == "
                  + DENS.format(x="inputs[i]") + ")"])
contract(FB, "NFlow.base_distribution_log_prob", props=["C08"],
         params={"z": ZT, "context": "Any"}, returns="Seq(Real)",
         ensures=["len(result) == len(z)",
                  "forall(i, 0, len(z), result[i] == Bz(z[i]))"])
contract(FB, "NFlow.forward_and_log_prob", props=["C08"],
         params={"x": XT, "context": "Any"},
         returns=f"Tuple({ZT},Seq(Real))",
         ensures=["len(result[0]) == len(x) and len(result[1]) == len(x)",
                  # the same density as log_prob
                  "forall(i, 0, len(x), result[0][i] == Tf(x[i]) and "
                  "result[1][i] == " + DENS.format(x="x[i]") + ")"])
contract(FB, "NFlow.sample_and_log_prob", props=["C08"],
         params={"N": "Int", "context": "Any"}, requires=["N >= 1"],
         returns=f"Tuple({XT},Seq(Real))",
         ensures=["len(result[0]) == N and len(result[1]) == N",
                  # the log-density reported with a sample equals the
                  # log-density evaluated at that sample
                  "forall(i, 0, N, result[1][i] == "
                  + DENS.format(x="result[0][i]") + ")"])
contract(FB, "NFlow.sample", props=["C08"],
         params={"num_samples": "Int", "context": "Any"},
         requires=["num_samples >= 1"], returns=XT,
         ensures=["len(result) == num_samples"])

# ---- FlowModel: the numpy-level wrappers -----------------------------------
shape("AltDistAbs", {}, methods={
    "log_prob": Contract(
        "<abstract>", "AltDistAbs.log_prob", params={"inputs": ZT},
        trusted=True, trusted_reason="alternative latent density AltB",
        returns="Seq(Real)",
        ensures=["len(result) == len(inputs)",
                 "forall(i, 0, len(inputs), result[i] == AltB(inputs[i]))"]),
})
shape("FlowModel", {"model": "Obj(NFlow)"})

contract(FM, "FlowModel.numpy_array_to_tensor", props=["C08"], inline=True,
         verify=False,
         params={"array": "Any"},
         notes="inlined: torch.from_numpy / .type / .to are value preserving "
         "library contracts (dtype casts: numerics not decided)")

contract(
    FM, "FlowModel.log_prob", props=["C08"],
    params={"x": XT, "conditional": "None"},
    modifies=["self.model.training"], returns="Seq(Real)",
    ensures=["len(result) == len(x)",
             # the array-level interface agrees with the underlying model
             "forall(i, 0, len(x), result[i] == "
             + DENS.format(x="x[i]") + ")",
             "not self.model.training"],
)
contract(
    FM, "FlowModel.forward_and_log_prob", props=["C08"],
    params={"x": XT, "conditional": "None"},
    modifies=["self.model.training"], returns=f"Tuple({ZT},Seq(Real))",
    ensures=["len(result[0]) == len(x) and len(result[1]) == len(x)",
             "forall(i, 0, len(x), result[0][i] == Tf(x[i]) and "
             "result[1][i] == " + DENS.format(x="x[i]") + ")",
             "not self.model.training"],
)
contract(
    FM, "FlowModel.sample_and_log_prob", props=["C08"],
    params={"N": "Int", "z": f"Opt({ZT})", "alt_dist": "Opt(Obj(AltDistAbs))",
            "conditional": "None"},
    requires=["N >= 1"],
    modifies=["self.model.training"], returns=f"Tuple({XT},Seq(Real))",
    ensures=[
        "not self.model.training",
        "len(result[0]) == len(result[1])",
        "implies(old(z) is None, len(result[0]) == N)",
        "implies(old(z) is not None, len(result[0]) == len(old(z)))",
        # generated points: z -> x is the inverse transform
        "implies(old(z) is not None, forall(i, 0, len(old(z)), "
        "result[0][i] == Ti(old(z)[i])))",
        # the density attached to a generated point is the flow density
        # evaluated at that point (base density of the flow) ...
        "implies(old(z) is None or alt_dist is None, "
        "forall(i, 0, len(result[0]), result[1][i] == "
        + DENS.format(x="result[0][i]") + "))",
        # ... or, for latent points supplied with their own distribution,
        # that distribution's density minus the inverse log-Jacobian
        "implies(old(z) is not None and alt_dist is not None, "
        "forall(i, 0, len(old(z)), "
        "result[1][i] == AltB(old(z)[i]) - Di(old(z)[i])))"],
)

# ---- proposal layer: FlowProposal.forward_pass / backward_pass --------------
PF = "nessai/proposal/flowproposal.py"
LPF = "nessai/livepoint.py"
PT = "Seq(Sort(P))"
shape("ModelBounds", {}, methods={
    "in_bounds": Contract(
        "<abstract>", "ModelBounds.in_bounds", params={"x": PT},
        trusted=True, trusted_reason="Model.in_bounds: the abstract "
        "predicate InBounds per point (its definition is C09's concern)",
        returns="Seq(Bool)",
        ensures=["len(result) == len(x)",
                 "forall(i, 0, len(x), result[i] == InBounds(x[i]))"]),
})
shape("FlowProposalDens", {
    "flow": "Obj(FlowModel)", "alt_dist": "Opt(Obj(AltDistAbs))",
    "prime_parameters": "Any", "model": "Obj(ModelBounds)",
}, cls="FlowProposal", methods={
    "rescale": Contract(
        "<abstract>", "FlowProposal.rescale",
        params={"x": PT, "compute_radius": "Bool"}, trusted=True,
        trusted_reason="the configured reparameterisation as an abstract "
        "map Rf with log-Jacobian RJ (elementary maps and RescaleToBounds: "
        "C07; the real body of rescale / inverse_rescale -- allocation, "
        "zero initial log-Jacobian, non-sampling fields carried over, input "
        "untouched -- is proved against an abstract reparameterisation "
        "object on two-coordinate rows: FlowProposal.rescale#real; the "
        "combination of several reparameterisations is not verified)",
        returns=f"Tuple({XT},Seq(Real))",
        ensures=["len(result[0]) == len(x) and len(result[1]) == len(x)",
                 "forall(i, 0, len(x), result[0][i] == Rf(x[i]) and "
                 "result[1][i] == RJ(x[i]))"]),
    "inverse_rescale": Contract(
        "<abstract>", "FlowProposal.inverse_rescale",
        params={"x_prime": XT}, trusted=True,
        trusted_reason="the configured reparameterisation as an abstract "
        "map Ri with log-Jacobian RiJ (see rescale)",
        returns=f"Tuple({PT},Seq(Real))",
        ensures=["len(result[0]) == len(x_prime) and "
                 "len(result[1]) == len(x_prime)",
                 "forall(i, 0, len(x_prime), result[0][i] == Ri(x_prime[i]) "
                 "and result[1][i] == RiJ(x_prime[i]))"]),
})
contract(LPF, "live_points_to_array", variant_name="abstract-points",
         props=["C08"], trusted=True, verify=False,
         trusted_reason="structured <-> unstructured conversion keeps each "
         "point (rows as abstract points; field-level behaviour is C18's)",
         params={"live_points": XT, "names": "Any", "copy": "Bool"},
         returns=XT,
         ensures=["len(result) == len(live_points)",
                  "forall(i, 0, len(live_points), "
                  "result[i] == live_points[i])"])
contract(LPF, "numpy_array_to_live_points", variant_name="abstract-points",
         props=["C08"], trusted=True, verify=False,
         trusted_reason="see live_points_to_array",
         params={"array": XT, "names": "Any"}, returns=XT,
         ensures=["len(result) == len(array)",
                  "forall(i, 0, len(array), result[i] == array[i])"])

# density of a physical point under the proposal: flow density of its image
# times the Jacobian of the reparameterisation
PDENS = "Bz(Tf(Rf({p}))) + Dj(Rf({p})) + RJ({p})"
contract(
    PF, "FlowProposal.forward_pass", props=["C08"],
    self_shape="FlowProposalDens",
    params={"x": PT, "rescale": ("const", True), "compute_radius": "Bool"},
    modifies=["self.flow.model.training"],
    returns=f"Tuple({ZT},Seq(Real))",
    ensures=["len(result[0]) == len(x) and len(result[1]) == len(x)",
             "forall(i, 0, len(x), result[0][i] == Tf(Rf(x[i])) and "
             "result[1][i] == " + PDENS.format(p="x[i]") + ")"],
)
BP_COMMON = [
    "len(result[0]) == len(result[1])",
    # every returned point is the image of a supplied latent point ...
    # and the density attached to it is the density forward_pass computes
    # for the same point (flow density x reparameterisation Jacobian)
    "implies(self.alt_dist is None, forall(j, 0, len(result[0]), "
    "result[1][j] == " + PDENS.format(p="result[0][j]") + "))",
    # points outside the prior bounds are never returned
    "forall(j, 0, len(result[0]), InBounds(result[0][j]))",
]
contract(
    PF, "FlowProposal.backward_pass", props=["C08", "C09", "C01"],
    self_shape="FlowProposalDens",
    params={"z": ZT, "rescale": ("const", True),
            "discard_nans": ("const", True), "return_z": ("const", True)},
    modifies=["self.flow.model.training"],
    returns=f"Tuple({PT},Seq(Real),{ZT})",
    ensures=BP_COMMON + [
        # the returned latent points stay aligned with the returned samples
        "len(result[2]) == len(result[0])",
        "forall(j, 0, len(result[0]), result[0][j] == Ri(Ti(result[2][j])))",
        "implies(self.alt_dist is not None, forall(j, 0, len(result[0]), "
        "result[1][j] == AltB(result[2][j]) - Di(result[2][j]) - "
        "RiJ(Ti(result[2][j]))))",
    ],
)
contract(
    PF, "FlowProposal.backward_pass", variant_name="no-z", props=["C08"],
    self_shape="FlowProposalDens",
    params={"z": ZT, "rescale": ("const", True),
            "discard_nans": "Bool", "return_z": ("const", False)},
    modifies=["self.flow.model.training"],
    returns=f"Tuple({PT},Seq(Real))",
    ensures=BP_COMMON,
)
contract(PF, "FlowProposal.check_prior_bounds", props=["C08", "C09", "C01"],
         inline=True, verify=False, params={"x": PT},
         notes="inlined at its call sites (one boolean mask applied to "
         "every array passed)")

# failed obligations of this family are replayed on a concrete instance of the
# abstract flow built from the package's own classes (replay/c08_flow.py)
from pyvc.contracts import CONTRACTS as _ALL
for _c in _ALL.values():
    if "C08" in _c.props and _c.verify and _c.replay is None and \
            _c.file in (FB, FM, PF):
        _c.replay = {"module": "replay.c08_flow", "func": "flow_replay"}

# ---- the real FlowProposal.rescale / inverse_rescale: the glue between the
# ---- proposal and its (combined) reparameterisation.  The reparameterisation
# ---- object is abstract here -- per row, the primed coordinates are
# ---- functions (GA, GB) of the row's coordinates with a log-Jacobian GJ
# ---- added to what it is handed (HA, HB, HJ for the inverse); the classes
# ---- that implement it are C07's.  What is proved: the arrays are allocated
# ---- with the right length, the log-Jacobian starts from zero, the
# ---- non-sampling fields are carried over, the input array is not written.
from pyvc.contracts import shape as _shape   # noqa: E402
XAB = "Struct(a:Real,b:Real,logP:Real,logL:Real,it:Int)"
XABP = "Struct(a_prime:Real,b_prime:Real,logP:Real,logL:Real,it:Int)"
_shape("ReparamAbs", {}, methods={
    "reparameterise": Contract(
        "<abstract>", "ReparamAbs.reparameterise",
        params={"x": XAB, "x_prime": XABP, "log_j": "Seq(Real)",
                "compute_radius": "Bool", "**kwargs": {}},
        trusted=True, trusted_reason="the combined reparameterisation as "
        "abstract per-row maps (C07 proves the built-in ones)",
        requires=["len(x) == len(x_prime) and len(log_j) == len(x)"],
        modifies=["x_prime", "log_j"], returns="ParamTuple(x,x_prime,log_j)",
        ensures=["len(x_prime) == old(len(x_prime)) and "
                 "len(log_j) == old(len(log_j))",
                 "forall(i, 0, len(x), x_prime['a_prime'][i] == "
                 "GA(x['a'][i], x['b'][i]) and x_prime['b_prime'][i] == "
                 "GB(x['a'][i], x['b'][i]) and log_j[i] == old(log_j)[i] + "
                 "GJ(x['a'][i], x['b'][i]))"]),
    "inverse_reparameterise": Contract(
        "<abstract>", "ReparamAbs.inverse_reparameterise",
        params={"x": XAB, "x_prime": XABP, "log_j": "Seq(Real)",
                "**kwargs": {}},
        trusted=True, trusted_reason="see reparameterise",
        requires=["len(x) == len(x_prime) and len(log_j) == len(x)"],
        modifies=["x", "log_j"], returns="ParamTuple(x,x_prime,log_j)",
        ensures=["len(x) == old(len(x)) and len(log_j) == old(len(log_j))",
                 "forall(i, 0, len(x), x['a'][i] == "
                 "HA(x_prime['a_prime'][i], x_prime['b_prime'][i]) and "
                 "x['b'][i] == HB(x_prime['a_prime'][i], "
                 "x_prime['b_prime'][i]) and log_j[i] == old(log_j)[i] + "
                 "HJ(x_prime['a_prime'][i], x_prime['b_prime'][i]))"]),
})
_shape("FlowRescale", {
    "_reparameterisation": "Obj(ReparamAbs)",
    "x_dtype": "DType(a:Real,b:Real,logP:Real,logL:Real,it:Int)",
    "x_prime_dtype": "DType(a_prime:Real,b_prime:Real,logP:Real,logL:Real,"
                     "it:Int)",
}, cls="FlowProposal")
contract(
    PF, "FlowProposal.rescale", variant_name="real", props=["C08", "C07"],
    self_shape="FlowRescale",
    params={"x": XAB, "compute_radius": "Bool", "**kwargs": {}},
    ident_name="FlowProposal.rescale#real",
    requires=["len(x) != 1"],      # (the single-record re-wrapping branch)
    returns=f"Tuple({XABP},Seq(Real))",
    ensures=["len(result[0]) == len(x) and len(result[1]) == len(x)",
             f"forall(i, 0, len(x), result[0]['a_prime'][i] == "
             f"GA(x['a'][i], x['b'][i]) and result[0]['b_prime'][i] == "
             f"GB(x['a'][i], x['b'][i]))",
             # the log-Jacobian is the reparameterisation's alone
             f"forall(i, 0, len(x), result[1][i] == "
             f"GJ(x['a'][i], x['b'][i]))",
             # non-sampling fields are carried over
             "forall(i, 0, len(x), result[0]['logP'][i] == x['logP'][i] and "
             "result[0]['logL'][i] == x['logL'][i] and "
             "result[0]['it'][i] == x['it'][i])"],
)
contract(
    PF, "FlowProposal.inverse_rescale", variant_name="real",
    props=["C08", "C07"], self_shape="FlowRescale",
    params={"x_prime": XABP, "**kwargs": {}},
    ident_name="FlowProposal.inverse_rescale#real",
    returns=f"Tuple({XAB},Seq(Real))",
    ensures=["len(result[0]) == len(x_prime) and "
             "len(result[1]) == len(x_prime)",
             f"forall(i, 0, len(x_prime), result[0]['a'][i] == "
             f"HA(x_prime['a_prime'][i], x_prime['b_prime'][i]) and "
             f"result[0]['b'][i] == "
             f"HB(x_prime['a_prime'][i], x_prime['b_prime'][i]))",
             f"forall(i, 0, len(x_prime), result[1][i] == "
             f"HJ(x_prime['a_prime'][i], x_prime['b_prime'][i]))",
             "forall(i, 0, len(x_prime), result[0]['logP'][i] == "
             "x_prime['logP'][i] and result[0]['logL'][i] == "
             "x_prime['logL'][i] and result[0]['it'][i] == "
             "x_prime['it'][i])"],
)
contract(LPF, "empty_structured_array", variant_name="real",
         props=["C08", "C07"], trusted=True, verify=False,
         trusted_reason="allocation of n rows of the given structured dtype "
         "(field defaults: C18's concern)",
         params={"n": "Int", "dtype": "Any"}, requires=["n >= 0"],
         returns="StructOf(dtype)", ensures=["len(result) == n"])
