"""Sidecar contracts for nessai (no /repo file is edited for them)."""
