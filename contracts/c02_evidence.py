"""C02: evidence and posterior weights equal the documented NS quadrature.

Log-domain values are handled through their exponential image E(.) (see
pyvc/nplib.py).  Spec (linear domain): X_0 = 1, X_k = X_{k-1} t(n_k) with
t(n) = exp(-1/n) ('logt') or exp(-log(1+1/n)) = 1/(1+1/n) ('t'); rectangle increments
L_k (X_{k-1} - X_k); trapezoid evidence over L = [0, L_1..L_N, L_N],
X = [1, X_1..X_N, 0]; posterior weights L_i (X_{i-1} - X_i) / Z_trap."""
from pyvc.contracts import contract
from .shapes import EV

PO = "nessai/posterior.py"

contract(
    EV, "logsubexp", props=["C02"], log_domain=True,
    params={"x": "Seq(Real)", "y": "Seq(Real)"},
    requires=["len(x) == len(y)",
              "forall(k, 0, len(x), E(x[k]) > 0)"],
    returns="Seq(Real)",
    raises={"RuntimeError": "exists(k, 0, len(x), E(x[k]) < E(y[k]))"},
    ensures=["len(result) == len(x)",
             "forall(k, 0, len(x), E(result[k]) == E(x[k]) - E(y[k]))"],
)

TRAP = ("Sum(k, 0, len({f}) - 1, (E({f}[k]) + E({f}[k + 1])) / 2 * "
        "(E({s}[k]) - E({s}[k + 1])))")

contract(
    EV, "log_integrate_log_trap", props=["C02", "C05"], log_domain=True,
    params={"log_func": "Seq(Real)", "log_support": "Seq(Real)"},
    requires=["len(log_func) == len(log_support)", "len(log_func) >= 1",
              # volumes are finite and non-increasing (else logsubexp raises)
              "forall(k, 0, len(log_support) - 1, E(log_support[k]) > 0 and "
              "E(log_support[k]) >= E(log_support[k + 1]))"],
    returns="Real",
    ensures=["E(result) == " + TRAP.format(f="log_func", s="log_support")],
)

# ---------------------------------------------------------------- state
# representation invariant of the evidence integrator (image domain)
EV_INV = [
    "len(self.logLs) >= 1",
    "len(self.log_vols) == len(self.logLs)",
    "len(self.nlive) == len(self.logLs) - 1",
    "len(self.info) >= 1",
    "self.base_nlive >= 1",
    "self.log_vols[0] == 0",
    "self.logw == self.log_vols[len(self.log_vols) - 1]",
    # prior volumes are positive and strictly decrease
    "forall(k, 0, len(self.log_vols), E(self.log_vols[k]) > 0)",
    "forall(k, 0, len(self.log_vols) - 1, "
    "E(self.log_vols[k + 1]) < E(self.log_vols[k]))",
]

EV_INV.append("self.expectation == 'logt' or self.expectation == 't'")


def ev_inv(prefix):
    """the integrator's invariant for a state object reached as `prefix`"""
    return [e.replace("self.", prefix + ".") for e in EV_INV]


# the constructor: the option string is normalised (any capitalisation of
# 'logt' / 't' is accepted and STORED lower-cased: increment compares the
# stored string with 'logt' exactly) and the integrator's invariant holds
contract(
    EV, "_NSIntegralState.__init__", props=["C02", "C05"], log_domain=True,
    params={"nlive": "Int", "track_gradients": "Bool",
            "expectation": "Str"},
    requires=["nlive >= 1"],
    raises={"ValueError": "lower(expectation) != 'logt' and "
            "lower(expectation) != 't'"},
    ghost_set={"self.ghost_refined": "False"},
    modifies=["self." + f for f in (
        "base_nlive", "track_gradients", "expectation", "logZ", "oldZ",
        "logw", "info", "logLs", "log_vols", "nlive", "gradients",
        "ghost_refined")],
    ensures=EV_INV + [
        "self.expectation == lower(expectation)",
        "self.base_nlive == nlive",
        "len(self.logLs) == 1 and self.logLs[0] == -INF",
        "self.logZ == -INF and self.logw == 0",
        "len(self.nlive) == 0",
        "not self.ghost_refined",
    ],
)

NN = "(old(self.base_nlive) if nlive is None else nlive)"
SHRINK = (f"(E(-1.0 / {NN}) if old(self.expectation) == 'logt' "
          f"else 1 / (1 + 1 / real({NN})))")

contract(
    EV, "_NSIntegralState.increment",
    props=["C01", "C02", "C13", "C05", "C15"], log_domain=True,
    params={"logL": "Real", "nlive": "Opt(Int)"},
    requires=EV_INV + [
        "implies(nlive is not None, nlive >= 1)",
        # the running sum is extended, never a refined (trapezoidal) value:
        # incrementing after `finalise` would build the information
        # estimate on the wrong evidence
        "not self.ghost_refined",
    ],
    modifies=["self.nlive", "self.logZ", "self.info", "self.logw",
              "self.logLs", "self.log_vols", "self.gradients"],
    ensures=EV_INV + [
        # bookkeeping (used by C01 / C05 / C13)
        "len(self.logLs) == old(len(self.logLs)) + 1",
        "self.logLs[len(self.logLs) - 1] == logL",
        "forall(i, 0, old(len(self.logLs)), "
        "self.logLs[i] == old(self.logLs)[i])",
        "len(self.nlive) == old(len(self.nlive)) + 1",
        "self.nlive[len(self.nlive) - 1] == "
        "(old(self.base_nlive) if nlive is None else nlive)",
        "forall(i, 0, old(len(self.nlive)), "
        "self.nlive[i] == old(self.nlive)[i])",
        "len(self.log_vols) == len(self.logLs)",
        "len(self.info) >= 1",
        "forall(i, 0, old(len(self.log_vols)), "
        "self.log_vols[i] == old(self.log_vols)[i])",
        "self.log_vols[len(self.log_vols) - 1] == self.logw",
        # the quadrature (image domain): X_k = X_{k-1} t(n_k) with the
        # documented shrinkage, rectangle increment L_k (X_{k-1} - X_k)
        f"E(self.logw) == old(E(self.logw)) * {SHRINK}",
        "E(self.logZ) == old(E(self.logZ)) + "
        "E(logL) * (old(E(self.logw)) - E(self.logw))",
        # volumes stay positive and strictly decrease
        "implies(old(E(self.logw)) > 0, E(self.logw) > 0 and "
        "E(self.logw) < old(E(self.logw)))",
    ],
)

LS = "ext(self.logLs, self.logLs[len(self.logLs) - 1])"
VS = "ext(self.log_vols, -INF)"
ZTRAP = TRAP.format(f=LS, s=VS)

contract(
    EV, "_NSIntegralState.finalise",
    props=["C02", "C01", "C05", "C15"], log_domain=True,
    requires=EV_INV,
    modifies=["self.logZ", "self.ghost_refined"], returns="Real",
    ghost_set={"self.ghost_refined": "True"},
    ensures=[
        "self.ghost_refined",
        # trapezoidal evidence over L = [L_0..L_N, L_N], X = [X_0..X_N, 0]
        f"E(self.logZ) == {ZTRAP}",
        "result == self.logZ",
    ],
)

contract(
    EV, "_NSIntegralState.log_posterior_weights",
    props=["C02", "C05"], log_domain=True,
    requires=EV_INV,
    returns="Seq(Real)",
    ensures=[
        "len(result) == len(self.logLs) - 1",
        # (intermediate facts; each proved, then available to the next)
        f"E(final('log_Z', 'Real')) == {ZTRAP}",
        "forall(i, 0, len(self.logLs) - 1, E(final('log_w', 'Seq(Real)')[i]) == "
        "E(self.log_vols[i]) - E(self.log_vols[i + 1]))",
        "forall(i, 0, len(self.logLs) - 1, final('log_L', 'Seq(Real)')[i + 1] == "
        "self.logLs[i + 1])",
        "forall(i, 0, len(self.logLs) - 1, result[i] == "
        "self.logLs[i + 1] + final('log_w', 'Seq(Real)')[i] - final('log_Z', 'Real'))",
        # w_i = L_i (X_{i-1} - X_i) / Z_trap
        f"forall(i, 0, len(self.logLs) - 1, E(result[i]) == "
        f"E(self.logLs[i + 1]) * (E(self.log_vols[i]) - "
        f"E(self.log_vols[i + 1])) / ({ZTRAP}))",
    ],
)

contract(
    EV, "_NSIntegralState.get_logx_live_points",
    props=["C02"], log_domain=True,
    params={"nlive": "Int"},
    requires=["nlive >= 1",
              "self.expectation == 'logt' or self.expectation == 't'"],
    returns="Seq(Real)",
    ensures=[
        "len(result) == nlive",
        # X shrinks by t(nlive), t(nlive-1), ..., t(1) from the current one
        "E(result[0]) == E(self.logw) * (E(-1.0 / real(nlive)) "
        "if self.expectation == 'logt' else 1 / (1 + 1 / real(nlive)))",
        "forall(k, 1, nlive, E(result[k]) == E(result[k - 1]) * "
        "(E(-1.0 / real(nlive - k)) if self.expectation == 'logt' "
        "else 1 / (1 + 1 / real(nlive - k))))",
    ],
)

# ---------------------------------------------------------------- one pass
LL = "final('log_likelihoods', 'Seq(Real)')"
LV = "final('log_vols', 'Seq(Real)')"
NPI = "final('nlive_per_iteration', 'Seq(Real)')"
CW_COMMON = [
    # the arrays the quadrature is taken over: L = [-inf, L_1..L_N, L_N],
    # X = [1, X_1..X_N, 0] with X_k = X_{k-1} t(n_k)
    f"len({LL}) == len(samples) + 2 and len({LV}) == len(samples) + 2",
    f"{LL}[0] == -INF and {LL}[len(samples) + 1] == samples[len(samples) - 1]",
    f"forall(i, 1, len(samples) + 1, {LL}[i] == samples[i - 1])",
    f"{LV}[0] == 0 and {LV}[len(samples) + 1] == -INF",
    f"E({LV}[1]) == (E(-1.0 / {NPI}[0]) if lower(expectation) == 'logt' else "
    f"1 / (1 + 1 / {NPI}[0]))",
    f"forall(k, 1, len(samples), E({LV}[k + 1]) == E({LV}[k]) * "
    f"(E(-1.0 / {NPI}[k]) if lower(expectation) == 'logt' else "
    f"1 / (1 + 1 / {NPI}[k])))",
    # trapezoidal evidence and rectangle posterior weights
    "E(result[0]) == " + TRAP.format(f=LL, s=LV),
    "len(result[1]) == len(samples)",
    # (intermediate facts, each proved then used by the next)
    f"forall(i, 0, len(samples) + 1, E(final('log_w', 'Seq(Real)')[i]) == "
    f"E({LV}[i]) - E({LV}[i + 1]))",
    "forall(i, 0, len(samples), result[1][i] == "
    "samples[i] + final('log_w', 'Seq(Real)')[i] - result[0])",
    # w_i = L_i (X_{i-1} - X_i) / Z: stated as the product with the
    # rectangle widths final('log_w', 'Seq(Real)') proved just above (the solver is not
    # asked to re-normalise the combined polynomial)
    "forall(i, 0, len(samples), E(result[1][i]) == E(samples[i]) * "
    "E(final('log_w', 'Seq(Real)')[i]) / E(result[0]))",
]

contract(
    PO, "compute_weights", props=["C02", "C05"], log_domain=True,
    params={"samples": "Seq(Real)", "nlive": "Int", "expectation": "Str"},
    requires=["nlive >= 1", "len(samples) >= nlive"],
    returns="Tuple(Real,Seq(Real))",
    raises={"ValueError": "lower(expectation) != 'logt' and "
            "lower(expectation) != 't'"},
    ensures=CW_COMMON + [
        # the live-count schedule: constant, then nlive, nlive-1, ..., 1
        f"forall(i, 0, len(samples) - nlive, {NPI}[i] == nlive)",
        f"forall(i, len(samples) - nlive, len(samples), "
        f"{NPI}[i] == len(samples) - i)",
    ],
)

contract(
    PO, "compute_weights", variant_name="array-int", props=["C02", "C05"],
    log_domain=True,
    # the live-count history as the sampler stores it: an INTEGER array
    # (np.array(state.nlive)); arithmetic on it must not stay in integers
    params={"samples": "Seq(Real)", "nlive": "Seq(Int)",
            "expectation": "Str"},
    requires=["len(samples) >= 1",
              "forall(i, 0, len(nlive), nlive[i] >= 1)"],
    returns="Tuple(Real,Seq(Real))",
    raises={"ValueError": "len(nlive) != len(samples) or "
            "(lower(expectation) != 'logt' and lower(expectation) != 't')"},
    ensures=CW_COMMON + [
        f"forall(i, 0, len(samples), {NPI}[i] == nlive[i])",
    ],
)

contract(
    PO, "compute_weights", variant_name="array", props=["C02", "C05"],
    log_domain=True,
    params={"samples": "Seq(Real)", "nlive": "Seq(Real)",
            "expectation": "Str"},
    requires=["len(samples) >= 1",
              "forall(i, 0, len(nlive), nlive[i] >= 1)"],
    returns="Tuple(Real,Seq(Real))",
    raises={"ValueError": "len(nlive) != len(samples) or "
            "(lower(expectation) != 'logt' and lower(expectation) != 't')"},
    ensures=CW_COMMON + [
        f"forall(i, 0, len(samples), {NPI}[i] == nlive[i])",
    ],
)
