"""C17: INS level thresholds honour min_samples, min_remove, max_samples."""
from pyvc.contracts import contract
from .shapes import INS, INS_ARR

UST = "nessai/utils/stats.py"

contract(
    UST, "weighted_quantile", props=["C17"], trusted=True,
    trusted_reason="Harrell-Davis estimator over 2-D arrays and scipy's "
    "betainc: outside the subset; only 'returns some real' is used by the "
    "threshold proofs (the argmax contract bounds the index whatever the "
    "cutoff is)",
    params={"values": "Seq(Real)", "quantiles": "Real",
            "log_weights": "Seq(Real)", "values_sorted": "Bool"},
    returns="Real",
)

contract(
    INS, "ImportanceNestedSampler.plot_level_cdf", props=["C17"],
    trusted=True, trusted_reason="plotting only; no sampler state",
    params={"log_likelihood_values": "Any", "cdf": "Any", "threshold": "Any",
            "q": "Any", "filename": "Any"},
)

contract(
    INS, "ImportanceNestedSampler.determine_threshold_quantile",
    props=["C17"],
    params={"samples": INS_ARR, "q": "Real", "include_likelihood": "Bool"},
    requires=["len(samples) >= 1"],
    returns="Int",
    may_raise={"RuntimeError": None},
    ensures=["0 <= result and result < len(samples)"],
)

contract(
    INS, "ImportanceNestedSampler.determine_threshold_entropy",
    props=["C17"],
    params={"samples": INS_ARR, "q": "Real", "include_likelihood": "Bool",
            "use_log_weights": "Bool"},
    requires=["len(samples) >= 1"],
    returns="Int",
    ensures=["0 <= result and result < len(samples)"],
)

contract(
    INS, "ImportanceNestedSampler.determine_log_likelihood_threshold",
    props=["C17"],
    params={"samples": INS_ARR, "method": "Str", "**kwargs": {}},
    requires=[
        "len(samples) >= 1",
        # domain of the property (its quantifier: min_samples >= 1,
        # min_remove >= 1) and the boundary assumptions DESIGN.md §5/C17
        # reports: no implementation can satisfy the clauses outside them
        "self.min_samples >= 1", "self.min_remove >= 1",
        "self.min_remove < len(samples)",
        "self.nlive >= 1",
        "implies(self.max_samples is not None and self.max_samples != 0, "
        "self.max_samples > self.nlive)",
    ],
    returns="Real",
    raises={"ValueError": "method != 'quantile' and method != 'entropy'"},
    bind_call_results={
        "n1": ["ImportanceNestedSampler.determine_threshold_quantile",
               "ImportanceNestedSampler.determine_threshold_entropy"]},
    ensures=[
        # the threshold is the likelihood of one of the samples
        "0 <= final('n') and final('n') < len(samples)",
        "result == samples[final('n')]['logL']",
        # cap not active: min_samples / min_remove clauses
        "let(n1, max(ghost('n1'), 1), let(cap, self.draw_constant and "
        "self.max_samples is not None and self.max_samples != 0, "
        "implies(not cap, "
        "(implies(len(samples) - n1 < self.min_samples and "
        "len(samples) >= self.min_samples, "
        "len(samples) - final('n') == self.min_samples)) and "
        "(implies(len(samples) - n1 >= self.min_samples, "
        "final('n') >= self.min_remove)))))",
        # ... and with a cap that the guarded choice already respects (the
        # cap is not binding) the same two clauses hold: the cap may only
        # override them when the next level would not fit otherwise
        "let(n1, max(ghost('n1'), 1), let(n2, "
        "(max(0, len(samples) - self.min_samples) if "
        "len(samples) - n1 < self.min_samples else "
        "(self.min_remove if n1 < self.min_remove else n1)), "
        "implies(self.draw_constant and self.max_samples is not None and "
        "self.max_samples != 0 and "
        "(len(samples) - n2) + self.nlive <= self.max_samples, "
        "(implies(len(samples) - n1 < self.min_samples and "
        "len(samples) >= self.min_samples, "
        "len(samples) - final('n') == self.min_samples)) and "
        "(implies(len(samples) - n1 >= self.min_samples, "
        "final('n') >= self.min_remove)))))",
        # constant draws with a cap: the next level fits
        "implies(self.draw_constant and self.max_samples is not None and "
        "self.max_samples != 0, "
        "(len(samples) - final('n')) + self.nlive <= self.max_samples)",
    ],
)

contract(
    INS, "ImportanceNestedSampler.add_new_proposal", props=["C17"],
    requires=[
        "self.min_samples >= 1",
        "len(self.training_samples.samples) >= self.min_samples",
        "len(self.training_samples.log_q) == "
        "len(self.training_samples.samples)",
    ],
    modifies=["self.current_training_samples", "self.current_training_log_q",
              "self.training_time"],
    ensures=[
        # every proposal is trained on at least min_samples samples ...
        "len(self.current_training_samples) >= self.min_samples",
        # ... which are a suffix of the (sorted) store, with the density
        # table sliced identically
        "len(self.current_training_log_q) == "
        "len(self.current_training_samples)",
        "let(k, len(self.training_samples.samples) - "
        "len(self.current_training_samples), k >= 0 and "
        "forall(i, 0, len(self.current_training_samples), "
        "row_eq(self.current_training_samples[i], "
        "self.training_samples.samples[k + i]) and "
        "self.current_training_log_q[i] == self.training_samples.log_q[k + i]))",
    ],
)

contract(
    INS, "ImportanceNestedSampler.check_configuration", props=["C17", "C20"],
    returns="Bool",
    # `min_remove` must be (strictly) less than nlive -- the documented
    # rule, and what determine_log_likelihood_threshold needs: with
    # min_remove == size the chosen index is out of range
    raises={"ValueError": "self.min_samples > self.nlive or "
            "self.min_remove >= self.nlive"},
    ensures=["result == True", "self.min_samples <= self.nlive",
             "self.min_remove < self.nlive"],
)
