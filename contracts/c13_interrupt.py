"""C13: a termination signal at any instant leaves a consistent, resumable
state.  The handler (FlowSampler.safe_exit -> terminate_run ->
ns.checkpoint()) pickles the sampler *as it is* at the interrupted statement
boundary, so the state must satisfy the resumable-state invariant RI after
every statement.  RI is attached to the contracts of C01/C15 (same
functions, same bodies) and asserted by checks/c13_config.py."""
from pyvc import contracts as C
from .c01_nestedsampler import LIVE_INV   # noqa: F401  (load order)
from . import c15_stopping                  # noqa: F401  (load order)

LP = "self.live_points"
NSM = "self.nested_samples"

# "pickling self now and re-entering the loop yields no duplicate, no loss"
RI = [
    f"{LP} is not None and len({LP}) == self.nlive",
    f"sorted_by({LP}, 'logL')",
    # every recorded point is integrated exactly once and vice versa
    f"len(self.state.logLs) == len({NSM}) + 1",
    f"self.iteration == len({NSM})",
    "len(self.insertion_indices) == self.iteration",
    # no point is both recorded and still live; no duplicated live point
    f"forall2(i, self.nlive, k, len({NSM}), "
    f"not row_eq({LP}[i], {NSM}[k]))",
    f"forall2(i, self.nlive, j, self.nlive, "
    f"implies(i != j, not row_eq({LP}[i], {LP}[j])))",
]
NSF = "nessai/samplers/nestedsampler.py"
for _f in ("NestedSampler.consume_sample", "NestedSampler.finalise"):
    _c = C.CONTRACTS[(NSF, _f)]
    _c.extra["stmt_invariant"] = RI
    if "C13" not in _c.props:
        _c.props.append("C13")
# once the flag is set a resumed run returns its stored results at once
C.CONTRACTS[(NSF, "NestedSampler.finalise")].extra["stmt_invariant"] = [
    "self.finalised or (" + " and ".join(f"({e})" for e in RI) + ")"]
# the main loop: between initialisation and finalisation
_c = C.CONTRACTS[(NSF, "NestedSampler.nested_sampling_loop")]
_c.extra["stmt_invariant"] = [
    "implies(self.initialised and not self.finalised, "
    + " and ".join(f"({e})" for e in RI) + ")"]

# inside insert_live_point the caller is mid-replacement (the worst point is
# already recorded); what a signal must not find there is a *new* problem:
# a live set that lost its size or holds a duplicated record
_c = C.CONTRACTS[(NSF, "NestedSampler.insert_live_point")]
_c.extra["stmt_invariant"] = [
    f"{LP} is not None and len({LP}) == self.nlive",
    f"forall2(i, self.nlive, j, self.nlive, "
    f"implies(i != j, not row_eq({LP}[i], {LP}[j])))",
]
_c.extra["c13_requires"] = [
    f"forall2(i, self.nlive, j, self.nlive, "
    f"implies(i != j, not row_eq({LP}[i], {LP}[j])))",
    f"forall(i, 0, self.nlive, not row_eq({LP}[i], live_point))",
]

# ---- the handler itself, and the importance sampler's refusal -------------
from pyvc.contracts import contract   # noqa: E402

FSP = "nessai/flowsampler.py"
INSF = "nessai/samplers/importancesampler.py"
SBF = "nessai/samplers/base.py"

contract(
    FSP, "FlowSampler.terminate_run", props=["C13"],
    params={"code": "Any"},
    modifies=["self.ns"],
    ensures=[
        # exactly one (forced, non-periodic) checkpoint request
        "self.ns.ghost_ckpt_requests == old(self.ns.ghost_ckpt_requests) + 1",
        "self.ns.ghost_pool_closed == old(self.ns.ghost_pool_closed) + 1",
    ],
)
contract(
    FSP, "FlowSampler.safe_exit", props=["C13"],
    params={"signum": "Any", "frame": "Any"},
    modifies=["self.ns"],
    # every path ends in SystemExit carrying the configured exit code
    raises={"SystemExit": "True"}, exit_code="self.exit_code",
    ensures=["False"],
)

# the importance sampler never writes a checkpoint for a non-periodic
# (signal) request: the last iteration-boundary checkpoint stays intact
_ins_ck = C.CONTRACTS[(INSF, "ImportanceNestedSampler.checkpoint")]
_ins_ck.trusted = False
_ins_ck.verify = True
_ins_ck.params = {"periodic": "Bool", "force": "Bool"}
_ins_ck.modifies = ["self.ghost_ckpt_writes"]
_ins_ck.ensures = [
    "implies(not periodic, self.ghost_ckpt_writes == "
    "old(self.ghost_ckpt_writes))",
]
if "C13" not in _ins_ck.props:
    _ins_ck.props.append("C13")

# the signal handler calls `self.ns.checkpoint()` with NO arguments: with the
# method's own defaults the importance sampler must not write anything
contract(
    INSF, "ImportanceNestedSampler.checkpoint", variant_name="default-call",
    props=["C13"], params={},          # periodic / force: signature defaults
    modifies=["self.ghost_ckpt_writes"],
    ensures=["self.ghost_ckpt_writes == old(self.ghost_ckpt_writes)"],
)

# ---- the constructor wires the handler: all three signals of the property
# ---- statement reach safe_exit, and the exit code it uses is the configured
# ---- one (a fresh, non-resuming construction; the resume branch is C11's)
from pyvc.contracts import shape, Contract   # noqa: E402
shape("FSModelAbs", {"allow_vectorised": "Bool",
                     "likelihood_chunksize": "Any",
                     "allow_multi_valued_likelihood": "Any",
                     "parallelise_prior": "Any"}, methods={
    "configure_pool": Contract(
        "<abstract>", "FSModelAbs.configure_pool",
        params={"n_pool": "Any", "pool": "Any"}, trusted=True,
        trusted_reason="pool configuration (C10)"),
})
shape("FlowSamplerInit", {}, cls="FlowSampler")
contract(
    FSP, "FlowSampler.__init__", props=["C13"], self_shape="FlowSamplerInit",
    params={"model": "Obj(FSModelAbs)", "output": "Any",
            "importance_nested_sampler": "Bool",
            "resume": ("const", False), "resume_file": "Any",
            "resume_data": "None", "weights_file": "None",
            "weights_path": "None", "signal_handling": "Bool",
            "exit_code": "Int", "pytorch_threads": "Int",
            "close_pool": "Bool", "eps": "None", "torch_dtype": "Any",
            "disable_vectorisation": "Bool", "likelihood_chunksize": "Any",
            "allow_multi_valued_likelihood": "Any",
            "parallelise_prior": "Any", "result_extension": "Any",
            "**kwargs": {}},
    opaque_callees=["configure_threads", "set_torch_default_dtype",
                    "save_kwargs", "NestedSampler",
                    "ImportanceNestedSampler"],
    modifies=["model"],      # (self is under construction: no frame)
    ensures=[
        "self.exit_code == exit_code",
        "implies(signal_handling, "
        "handler_of('SIGTERM', self, 'safe_exit') and "
        "handler_of('SIGINT', self, 'safe_exit') and "
        "handler_of('SIGALRM', self, 'safe_exit'))",
    ],
)
