"""C11: a process kill during checkpointing never leaves the run
unresumable.  Ghost file system fs : path -> Absent | Torn |
Complete(version); PREV() is the last checkpoint that completed before the
call, NEW() the one being written."""
from pyvc.contracts import contract, shape, Contract

IO = "nessai/utils/io.py"
SB = "nessai/samplers/base.py"
FS = "nessai/flowsampler.py"
FM = "nessai/flowmodel/base.py"


def ci(f, o):
    """crash invariant for checkpoint file f with backup o"""
    return [
        f"not fs_torn({f}) and not fs_torn({o})",
        f"implies(fs_complete({f}), fs_version({f}) == PREV() or "
        f"fs_version({f}) == NEW())",
        f"implies(fs_absent({f}) and fs_complete({o}), "
        f"fs_version({o}) == PREV())",
        # whatever was recoverable before stays recoverable
        f"implies(fs0_complete({f}) or fs0_complete({o}), fs_complete({f}) "
        f"or (fs_absent({f}) and fs_complete({o})))",
    ]


def ci_initial(f, o):
    return [
        f"not fs0_torn({f}) and not fs0_torn({o})",
        f"implies(fs0_complete({f}), fs0_version({f}) == PREV())",
        f"implies(fs0_absent({f}) and fs0_complete({o}), "
        f"fs0_version({o}) == PREV())",
    ]


F, O = "filename", "filename + '.old'"
contract(
    IO, "safe_file_dump", props=["C11"],
    params={"data": "Any", "filename": "Path", "module": "Pickler",
            "save_existing": "Bool"},
    requires=ci_initial(F, O),
    crash_invariant=ci(F, O),
    ensures=[f"fs_complete({F}) and fs_version({F}) == NEW()",
             f"not fs_torn({O})"],
)

# ---- the sampler's checkpoint method: the file protocol --------------------
shape("SamplerCkpt", {
    "history": "Opt(Dict(checkpoint_iterations:List(Int)))",
    "iteration": "Int",
    "checkpoint_on_iteration": "Bool",
    "_last_checkpoint": "Any",
    "checkpoint_interval": "Real",
    "sampling_time": "Any",
    "sampling_start_time": "Any",
    "checkpoint_callback": "None",       # the default: write the file
    "resume_file": "Path",
}, cls="BaseNestedSampler")

RF, RO = "self.resume_file", "self.resume_file + '.old'"
contract(
    SB, "BaseNestedSampler.checkpoint", variant_name="file-protocol",
    props=["C11"], self_shape="SamplerCkpt",
    params={"periodic": "Bool", "force": "Bool", "save_existing": "Bool"},
    requires=ci_initial(RF, RO),
    crash_invariant=ci(RF, RO),
    modifies=["self.history", "self._last_checkpoint", "self.sampling_time",
              "self.sampling_start_time"],
    ensures=[
        # a forced (signal) or due checkpoint is complete when the call
        # returns; a periodic one that is not due writes nothing
        f"implies(not periodic or force, fs_complete({RF}) and "
        f"fs_version({RF}) == NEW())",
        f"fs_complete({RF}) or fs_absent({RF})",
    ],
)

# ---- recovery ---------------------------------------------------------------
shape("LoadedSampler", {"ghost_version": "Int"})
shape("SamplerClassAbs", {}, methods={
    "resume": Contract(
        "<abstract>", "SamplerClassAbs.resume",
        params={"filename": "Path", "model": "Any"},
        trusted=True,
        trusted_reason="BaseNestedSampler.resume = open(filename,'rb') + "
        "pickle.load + attribute wiring: FileNotFoundError iff the file is "
        "absent, an unpickling error iff it is torn, otherwise the pickled "
        "sampler (the library round trip is assumed); other RuntimeErrors "
        "(e.g. from a proposal's resume) are an uninterpreted condition",
        returns="Obj(LoadedSampler)",
        raises={"FileNotFoundError": "fs_absent(filename)",
                "UnpicklingError": "fs_torn(filename)",
                "RuntimeError": "resume_rt_error(filename)"},
        ensures=["result.ghost_version == fs_version(filename)"]),
})
shape("FlowSamplerIO", {"output": "Any"}, cls="FlowSampler")

JF = "os.path.join(self.output, resume_file)"
JO = "os.path.join(self.output, resume_file + '.old')"
contract(
    FS, "FlowSampler.check_resume", props=["C11"],
    self_shape="FlowSamplerIO",
    params={"resume_file": "Path", "resume_data": "None"},
    returns="Bool",
    ensures=[f"result == (not fs_absent({JF}) or not fs_absent({JO}))"],
)

contract(
    FS, "FlowSampler._resume_from_file", props=["C11"],
    self_shape="FlowSamplerIO",
    params={"SamplerClass": "Obj(SamplerClassAbs)", "resume_file": "Path",
            "model": "Any", "weights_path": "Any", "flow_config": "Any",
            "**kwargs": {}},
    requires=[
        # any state a kill during checkpointing can leave behind (CI) ...
        f"not fs_torn({JF}) and not fs_torn({JO})",
        f"implies(fs_complete({JF}), fs_version({JF}) == PREV() or "
        f"fs_version({JF}) == NEW())",
        f"implies(fs_absent({JF}) and fs_complete({JO}), "
        f"fs_version({JO}) == PREV())",
        # ... in which check_resume said yes
        f"not fs_absent({JF}) or not fs_absent({JO})",
        # (no unrelated RuntimeError while wiring the loaded sampler)
        f"not resume_rt_error({JF}) and not resume_rt_error({JO})",
    ],
    returns="Obj(LoadedSampler)",
    # never raises from such a state, and loads a complete checkpoint that
    # is the previous or the new one
    ensures=["result.ghost_version == PREV() or "
             "result.ghost_version == NEW()"],
)

# ---- flow weights ------------------------------------------------------------
shape("FlowModelIO", {"model": "Any", "weights_file": "Any"},
      cls="FlowModel")
W, WO = "weights_file", "weights_file + '.old'"
contract(
    FM, "FlowModel.save_weights", props=["C11"], self_shape="FlowModelIO",
    params={"weights_file": "Path"},
    requires=[f"not fs0_torn({W}) and not fs0_torn({WO})",
              f"implies(fs0_complete({W}), fs0_version({W}) == PREV())",
              f"implies(fs0_absent({W}) and fs0_complete({WO}), "
              f"fs0_version({WO}) == PREV())"],
    # the in-place torch.save tears the file the checkpoint names: what must
    # survive every crash point (incl. the middle of the write) is a
    # *recoverable* pair: the named file complete, or its .old holding the
    # weights the last checkpoint was written against
    crash_invariant=[
        f"not fs_torn({WO})",
        f"implies(fs_complete({W}), fs_version({W}) == PREV() or "
        f"fs_version({W}) == NEW())",
        f"implies(fs0_complete({W}) or fs0_complete({WO}), "
        f"fs_complete({W}) or (fs_complete({WO}) and "
        f"fs_version({WO}) == PREV()))",
    ],
    modifies=["self.weights_file"],
    ensures=[f"fs_complete({W}) and fs_version({W}) == NEW()"],
)

PF = "nessai/proposal/flowproposal.py"
shape("FlowModelAbs", {"ghost_loaded": "Int"}, methods={
    "reload_weights": Contract(
        "<abstract>", "FlowModelAbs.reload_weights",
        params={"weights_file": "Path"}, trusted=True,
        trusted_reason="FlowModel.reload_weights = torch.load + "
        "load_state_dict: raises if the file is absent or torn, otherwise "
        "installs the saved weights",
        modifies=["self.ghost_loaded"],
        # a torn file fails in one of three ways depending on how much of
        # it was written (0 bytes / 1-3 bytes / more), see nplib
        raises={"FileNotFoundError": "fs_absent(weights_file)",
                "EOFError": "fs_torn(weights_file) and "
                "fs_torn_kind(weights_file) == 0",
                "UnpicklingError": "fs_torn(weights_file) and "
                "fs_torn_kind(weights_file) == 1",
                "RuntimeError": "fs_torn(weights_file) and "
                "fs_torn_kind(weights_file) == 2"},
        ensures=["self.ghost_loaded == fs_version(weights_file)"]),
})
shape("FlowProposalIO", {
    "flow_config": "Any", "mask": "None", "weights_file": "Path",
    "flow": "Obj(FlowModelAbs)", "model": "Any",
}, cls="FlowProposal")
contract("nessai/proposal/base.py", "Proposal.resume", props=["C11", "C12"],
         trusted=True, trusted_reason="stores the model",
         self_shape="FlowProposalIO", params={"model": "Any"},
         modifies=["self.model"])
contract(PF, "FlowProposal.initialise", props=["C11", "C12"], trusted=True,
         trusted_reason="builds the flow object; no file-system effect "
         "relevant here", self_shape="FlowProposalIO",
         params={"resumed": "Bool"}, modifies=[])
SW, SWO = "self.weights_file", "self.weights_file + '.old'"
contract(
    PF, "FlowProposal.resume", props=["C11"], self_shape="FlowProposalIO",
    params={"model": "Any", "flow_config": "Any", "weights_file": "None"},
    requires=[
        # any state a kill during save_weights can leave behind
        f"not fs_torn({SWO})",
        f"implies(fs_complete({SW}), fs_version({SW}) == PREV() or "
        f"fs_version({SW}) == NEW())",
        f"fs_complete({SW}) or (fs_complete({SWO}) and "
        f"fs_version({SWO}) == PREV())",
    ],
    modifies=["self.flow_config", "self.model", "self.flow"],
    replay={"module": "replay.c11_crash", "func": "weights_recovery_replay"},
    # never raises from such a state and installs complete weights: those the
    # checkpoint was written against, or the newer complete ones
    ensures=["self.flow.ghost_loaded == PREV() or "
             "self.flow.ghost_loaded == NEW()",
             # ... and hands the NEXT weights save a state that meets its
             # precondition: no torn file is left under the name the save
             # will move to <weights>.old (it would replace the only valid
             # copy, and a second kill in the middle of that save would
             # leave no loadable weights at all)
             f"not fs_torn({SW}) and not fs_torn({SWO})"],
)
