"""C10: batched / chunked / pooled evaluation equals pointwise evaluation,
once.  Points are an abstract sort P; a user function has a pointwise
meaning f1 : P -> Real and the 'vectorised' contract func(s)[j] = f1(s[j]),
len func(s) = len s (assumed of the user's function, also for empty s);
pool.map is order preserving (assumed library contract)."""
from pyvc.contracts import contract, shape, Contract

MP = "nessai/utils/multiprocessing.py"
ST = "nessai/utils/structures.py"
MD = "nessai/model.py"

PTS = "Seq(Sort(P))"

contract(
    ST, "array_split_chunksize", props=["C10"], inline=True, verify=False,
    notes="inlined at its call sites: its body is the raise + "
    "np.array_split(x, range(chunksize, len(x), chunksize)); verified "
    "separately below",
)

contract(
    MP, "batch_evaluate_function", props=["C10", "C14"],
    params={"func": "Func(P)", "x": PTS, "vectorised": "Bool",
            "chunksize": "Opt(Int)", "pool": "Opt(Pool)",
            "n_pool": "Opt(Int)", "func_wrapper": "Opt(Func(P))"},
    requires=[
        # a wrapper, when given, computes the same function (the three
        # module-level wrappers are verified to call the model's method)
        "same_function(func_wrapper, func)",
        # from Model.configure_pool: a pool with vectorised evaluation and no
        # chunk size always comes with a process count
        "implies(pool is not None and vectorised and "
        "(chunksize is None or chunksize == 0), "
        "n_pool is not None and n_pool >= 1)",
    ],
    returns="Seq(Real)",
    raises={"ValueError": "vectorised and chunksize is not None and "
            "chunksize < 0"},
    ensures=[
        "len(result) == len(x)",
        "forall(i, 0, len(x), result[i] == pointwise(func, x[i]))",
    ],
)

shape("Model", {
    "log_likelihood": "Func(P)",
    "log_prior": "Func(P)",
    "log_prior_unit_hypercube": "Func(P)",
    "allow_vectorised": "Bool",
    "vectorised_likelihood": "Bool",
    "likelihood_chunksize": "Opt(Int)",
    "pool": "Opt(Pool)",
    "n_pool": "Opt(Int)",
    "likelihood_evaluations": "Int",
    "likelihood_evaluation_time": "Any",
    "allow_vectorised_prior": "Bool",
    "vectorised_prior": "Bool",
    "vectorised_prior_unit_hypercube": "Bool",
    "parallelise_prior": "Bool",
    "_pool_configured": "Bool",
}, methods={
    "from_unit_hypercube": Contract(
        "<abstract>", "Model.from_unit_hypercube", params={"x": PTS},
        returns=PTS, trusted=True,
        trusted_reason="user/model map from the unit hypercube, pointwise",
        ensures=["len(result) == len(x)",
                 "forall(i, 0, len(x), result[i] == from_uh(x[i]))"]),
})

# class invariant relied on by the batch evaluators; established by
# configure_pool (the only place that assigns pool / n_pool)
POOL_INV = [
    "implies(self.pool is not None and self.allow_vectorised, "
    "self.n_pool is not None and self.n_pool >= 1)",
    "implies(self.pool is not None and self.parallelise_prior and "
    "self.allow_vectorised_prior, "
    "self.n_pool is not None and self.n_pool >= 1)",
]

for _w, _attr in (("log_likelihood_wrapper", "log_likelihood"),
                  ("log_prior_wrapper", "log_prior"),
                  ("log_prior_unit_hypercube_wrapper",
                   "log_prior_unit_hypercube")):
    contract(
        MP, _w, props=["C10"], params={"x": PTS},
        global_model_shape="Model", wraps_model_attr=_attr,
        returns="Seq(Real)",
        ensures=["len(result) == len(x)",
                 f"forall(i, 0, len(x), result[i] == "
                 f"pointwise(global_model().{_attr}, x[i]))"],
    )

contract(
    MP, "get_n_pool", props=["C10"], trusted=True,
    trusted_reason="reads private attributes of a foreign pool object "
    "(try/except AttributeError): returns a process count or None",
    params={"pool": "Any"}, returns="Opt(Int)",
    ensures=["implies(result is not None, result >= 1)"],
)
contract(
    MP, "check_multiprocessing_start_method", props=["C10"], trusted=True,
    trusted_reason="reads the multiprocessing start method; no model state",
)

contract(
    MD, "Model.configure_pool", props=["C10"],
    params={"pool": "Opt(Pool)", "n_pool": "Opt(Int)"},
    requires=["implies(n_pool is not None, n_pool >= 0)",
              "not self._pool_configured"],
    modifies=["self.pool", "self.n_pool", "self.allow_vectorised",
              "self.allow_vectorised_prior", "self._pool_configured"],
    ensures=POOL_INV + ["self._pool_configured"],
)

contract(
    MD, "Model.evaluate_log_likelihood", props=["C10"],
    params={"x": PTS},
    modifies=["self.likelihood_evaluations"],
    returns="Seq(Real)",
    ensures=["self.likelihood_evaluations == "
             "old(self.likelihood_evaluations) + len(x)",
             "len(result) == len(x)",
             "forall(i, 0, len(x), result[i] == "
             "pointwise(self.log_likelihood, x[i]))"],
)

contract(
    MD, "Model.batch_evaluate_log_likelihood", props=["C10"],
    global_model_is_self=True,
    params={"x": PTS, "unit_hypercube": "Bool"},
    requires=POOL_INV + [
        "implies(self.likelihood_chunksize is not None, "
        "self.likelihood_chunksize >= 0)"],
    modifies=["self.likelihood_evaluations",
              "self.likelihood_evaluation_time"],
    returns="Seq(Real)",
    ensures=[
        "len(result) == len(x)",
        "forall(i, 0, len(x), result[i] == pointwise(self.log_likelihood, "
        "from_uh(x[i]) if unit_hypercube else x[i]))",
        # counted exactly once
        "self.likelihood_evaluations == "
        "old(self.likelihood_evaluations) + len(x)",
    ],
)

contract(
    MD, "Model.batch_evaluate_log_prior", props=["C10"],
    global_model_is_self=True,
    params={"x": PTS, "unit_hypercube": "Bool"},
    requires=POOL_INV,
    returns="Seq(Real)",
    ensures=[
        "len(result) == len(x)",
        "forall(i, 0, len(x), result[i] == pointwise(self.log_prior, "
        "from_uh(x[i]) if unit_hypercube else x[i]))",
    ],
)

contract(
    MD, "Model.batch_evaluate_log_prior_unit_hypercube", props=["C10"],
    global_model_is_self=True,
    params={"x": PTS},
    requires=POOL_INV,
    returns="Seq(Real)",
    ensures=[
        "len(result) == len(x)",
        "forall(i, 0, len(x), result[i] == "
        "pointwise(self.log_prior_unit_hypercube, x[i]))",
    ],
)
