"""C03: every INS sample carries the exact meta-proposal density and weight.

Abstract view.  A sample row has a point `x` (sort P, in the unit hypercube);
the reparameterisation is the abstract map Rf with log-Jacobian RJ (C08);
LPX(k, x') is the log-density of the level-k flow at a primed point.  The
density of proposal column j at a point p is

    QD(0, p) = 0                      (initial uniform proposal)
    QD(j, p) = LPX(j - 1, Rf(p)) + RJ(p)          (j >= 1)

and the store invariant C03INV(S, m) says, for every row i of a store S:
ncol(S.log_q[i]) == m, col(S.log_q[i], j) == QD(j, x_i) for j < m,
exp(logQ_i) == sum_j W[j-1] exp(col(S.log_q[i], j)), logW_i == logU_i - logQ_i.
The proposal weights live in a dict keyed -1, 0, 1, ... (IDict): position j of
`weights_array` is the weight of key j - 1 *because* keys are inserted in
that order -- which is itself an obligation (`dense_key_order`)."""
from pyvc.contracts import contract, shape, Contract
from .shapes import INS, INS_ARR

IP = "nessai/proposal/importance.py"
XT = "Seq(Sort(X))"
W = "self._weights"
NW = f"len({W})"
MIX = ("mixrow({w}, {row})")       # sum_j w[j-1] * exp(col(row, j))


def QD(j, p):
    return (f"(0 if {j} == 0 else LPX({j} - 1, Rf({p})) + RJ({p}))")


shape("FlowSetAbs", {})
shape("ISProposalC03", {
    "_weights": "IDict(Real)", "level_count": "Int",
    "flow": "Obj(FlowSetAbs)", "model": "Any",
}, cls="ImportanceFlowProposal", methods={
    "rescale": Contract(
        "<abstract>", "ImportanceFlowProposal.rescale",
        params={"x": INS_ARR}, trusted=True,
        trusted_reason="unit hypercube -> primed space as the abstract map "
        "Rf with log-Jacobian RJ (logit: C07; structured-array plumbing "
        "not verified)",
        returns=f"Tuple({XT},Seq(Real))",
        ensures=["len(result[0]) == len(x) and len(result[1]) == len(x)",
                 "forall(i, 0, len(x), result[0][i] == Rf(x[i]['x']) and "
                 "result[1][i] == RJ(x[i]['x']))"]),
    "get_proposal_log_prob": Contract(
        "<abstract>", "ImportanceFlowProposal.get_proposal_log_prob",
        params={"it": "Int"}, trusted=True,
        trusted_reason="the level-`it` density as the abstract function "
        "LPX(it, .) (flow evaluation: C08)",
        returns="Func(X)",
        ensures=["same_function(result, LPXfun(it))"]),
})

contract(
    IP, "ImportanceFlowProposal.weights", props=["C03"], inline=True,
    verify=False, self_shape="ISProposalC03")
contract(
    IP, "ImportanceFlowProposal.weights_array", props=["C03"], inline=True,
    verify=False, self_shape="ISProposalC03")
contract(
    IP, "ImportanceFlowProposal.n_proposals", props=["C03"], inline=True,
    verify=False, self_shape="ISProposalC03")

contract(
    IP, "ImportanceFlowProposal.compute_meta_proposal_from_log_q",
    props=["C03"], log_domain=True, self_shape="ISProposalC03",
    params={"log_q": "Tbl(QRow)"},
    requires=[f"forall(i, 0, len(log_q), ncol(log_q[i]) == {NW})"],
    returns="Seq(Real)",
    ensures=[
        "len(result) == len(log_q)",
        # log Q_i = log sum_j w_j q_ij : the weight of column j is the
        # weight stored under key j - 1
        "forall(i, 0, len(log_q), E(result[i]) == "
        + MIX.format(m=NW, w=W, row="log_q[i]") + ")",
    ],
)

contract(
    IP, "ImportanceFlowProposal.update_log_q", props=["C03", "C08"],
    self_shape="ISProposalC03",
    params={"samples": INS_ARR, "log_q": "Tbl(QRow)"},
    requires=["len(log_q) == len(samples)", "len(samples) >= 1",
              "forall(i, 0, len(log_q), ncol(log_q[i]) == "
              "self.level_count + 1)"],
    raises={"ValueError": f"self.level_count + 1 == {NW}"},
    returns="Tbl(QRow)",
    ensures=[
        "len(result) == len(log_q)",
        "forall(i, 0, len(log_q), ncol(result[i]) == self.level_count + 2)",
        # the columns that were there are untouched ...
        "forall2(i, len(log_q), j, self.level_count + 1, "
        "col(result[i], j) == col(log_q[i], j))",
        # ... and the new last column is the current proposal evaluated at
        # the sample, Jacobian of the reparameterisation included
        "forall(i, 0, len(log_q), col(result[i], self.level_count + 1) == "
        "LPX(self.level_count, Rf(samples[i]['x'])) + RJ(samples[i]['x']))",
    ],
)

WSUM = "Sum(p, 0, len(weights), weights[p - 1])"
contract(
    IP, "ImportanceFlowProposal.update_proposal_weights", props=["C03"],
    self_shape="ISProposalC03",
    params={"weights": "IDict(Real)"},
    # both call sites pass a weight for every proposal (old and new)
    requires=[f"len(weights) >= {NW}"],
    modifies=["self._weights"],
    raises={"RuntimeError": f"not isclose({WSUM}, 1.0)"},
    ensures=[
        f"{NW} == len(weights)",
        f"forall(p, 0, len(weights), {W}[p - 1] == weights[p - 1])",
        # the stored weights sum to one (up to the tolerance of the check)
        f"isclose(Sum(p, 0, {NW}, {W}[p - 1]), 1.0)",
    ],
)

# ---- sampler side ----------------------------------------------------------
CNT = "self.sample_counts"
NC = f"len({CNT})"
CSUM = f"Sum(p, 0, {NC}, real({CNT}[p - 1]))"
shape("INSC03", {
    "sample_counts": "IDict(Int)",
    "proposal": "Obj(ISProposalC03)",
}, cls="ImportanceNestedSampler")
NT = "(len(self.training_samples.samples) + n_new)"
contract(
    INS, "ImportanceNestedSampler.add_new_proposal_weight", props=["C03"],
    variant_name="c03", self_shape="INSC03",
    params={"iteration": "Int", "n_new": "Int"},
    requires=[
        # the counts account for every stored sample
        f"forall(p, 0, {NC}, {CNT}[p - 1] >= 0)",
        # (without the independent set the 'main' samples are the training
        # samples: ImportanceNestedSampler._ordered_samples)
        "not self.draw_iid_live",
        f"{CSUM} == real(len(self.training_samples.samples))",
        # (training the new level has already added its key, with a NaN
        # weight, to the proposal's weight dictionary)
        f"len(self.proposal._weights) <= "
        f"({NC} if iteration < {NC} - 1 else {NC} + 1)",
        # the level is the next one (or an existing one, checked below)
        f"-1 <= iteration and iteration <= {NC} - 1",
        "n_new >= 0", f"{NT} >= 1",
    ],
    modifies=["self.sample_counts", "self.proposal._weights"],
    raises={"RuntimeError": f"iteration < {NC} - 1 and "
            f"{CNT}[iteration] != 0"},
    hints=[("at_start", None, f"lemma_sum_split({CSUM}, iteration + 1)"),
           # sum of the updated counts = old sum + n_new (update of a zero
           # entry, or a new last entry); weights = counts / n_total
           ("before_stmt", "update_proposal_weights",
            f"lemma_sum_split({CSUM}, iteration + 1)"),
           ("before_stmt", "update_proposal_weights",
            f"lemma_sum_last({CSUM})"),
           ("before_stmt", "update_proposal_weights",
            f"lemma_sum_div(Sum(p, 0, len(new_weights), "
            f"new_weights[p - 1]), {CSUM}, real(n_total))"),
           ],
    ensures=[
        f"{NC} == (old({NC}) if iteration < old({NC}) - 1 "
        f"else old({NC}) + 1)",
        f"{CNT}[iteration] == n_new",
        f"forall(p, 0, old({NC}), implies(p - 1 != iteration, "
        f"{CNT}[p - 1] == old({CNT})[p - 1]))",
        # weights = fraction of samples drawn from each proposal, counting
        # the n_new about to be drawn from the new one
        f"len(self.proposal._weights) == {NC}",
        f"forall(p, 0, {NC}, self.proposal._weights[p - 1] == "
        f"real({CNT}[p - 1]) / real{NT})",
        f"{CSUM} == real{NT}",
        # every weight is set (none is left at the NaN placeholder)
        "forall(p, 0, len(self.proposal._weights), "
        "not isnan(self.proposal._weights[p - 1]))",
    ],
)

# ---- the per-iteration update of the stores ------------------------------
from .c04_ordered import REP_INV as _REP


def _rep(store):
    return [e.replace("self.", f"self.{store}.") for e in _REP]


def rows_ok(store, m, upto_weights=True):
    """per-row clauses of C03INV for `self.<store>` with m columns"""
    S, Q = f"self.{store}.samples", f"self.{store}.log_q"
    out = [
        f"forall(i, 0, len({S}), ncol({Q}[i]) == {m})",
        # column 0: the initial uniform proposal; column j >= 1: level j-1
        f"forall(i, 0, len({S}), col({Q}[i], 0) == 0)",
        f"forall2(i, len({S}), j, {m}, implies(j >= 1, col({Q}[i], j) == "
        f"LPX(j - 1, Rf({S}[i]['x'])) + RJ({S}[i]['x'])))",
    ]
    if upto_weights:
        out += [
            f"forall(i, 0, len({S}), E({S}[i]['logQ']) == "
            + MIX.format(m=m, w="self.proposal._weights", row=f"{Q}[i]")
            + ")",
            f"forall(i, 0, len({S}), {S}[i]['logW'] == "
            f"{S}[i]['logU'] - {S}[i]['logQ'])",
        ]
    return out


from pyvc.contracts import SHAPES as _S
_S["INSC03"].attrs.update({
    "iteration": "Int",
    "history": "Dict(leakage_new_points:List(Real),n_added:List(Real),"
               "n_live:List(Real),leakage_live_points:List(Real))",
    "_current_proposal_entropy": "Any", "plot": "Bool", "plot_pool": "Bool",
    "training_samples": "Obj(OrderedSamples)",
    "iid_samples": "Obj(OrderedSamples)", "draw_iid_live": "Bool",
    "live_points_unit": INS_ARR, "live_points_ess": "Any",
    "add_and_update_samples_time": "Any",
    "current_training_samples": INS_ARR, "output": "Any",
    "log_likelihood_threshold": "Real",
})
PW = "self.proposal._weights"
M_NEW = "self.proposal.level_count + 2"
NEWROWS = [
    "len(result[0]) == n and len(result[1]) == n",
    f"forall(i, 0, n, ncol(result[1][i]) == len({PW}))",
    "forall(i, 0, n, col(result[1][i], 0) == 0)",
    f"forall2(i, n, j, len({PW}), implies(j >= 1, col(result[1][i], j) == "
    "LPX(j - 1, Rf(result[0][i]['x'])) + RJ(result[0][i]['x'])))",
    "forall(i, 0, n, E(result[0][i]['logQ']) == "
    + MIX.format(m=f"len({PW})", w=PW, row="result[1][i]") + ")",
    "forall(i, 0, n, result[0][i]['logW'] == "
    "result[0][i]['logU'] - result[0][i]['logQ'])",
]
DRAW_REQ = [
    "n >= 1", f"self.proposal.flow.n_models == len({PW}) - 1",
    f"len({PW}) >= 2",
    f"forall(p, 0, len({PW}), not isnan({PW}[p - 1]))",
    "forall(k, 0, len(self.proposal.flow.models), "
    "not self.proposal.flow.models[k]['training'])",
]
shape("ISModelLL", {}, methods={
    "batch_evaluate_log_likelihood": Contract(
        "<abstract>", "ISModelLL.batch_evaluate_log_likelihood",
        params={"x": INS_ARR, "unit_hypercube": "Bool"}, trusted=True,
        trusted_reason="Model.batch_evaluate_log_likelihood: the model's "
        "value LL at each point (C10); REQUIRES every point to be inside "
        "the unit hypercube -- the call site has to prove it (C09: the "
        "likelihood is never evaluated outside the prior support)",
        requires=["forall(i, 0, len(x), InUnit(x[i]['x']))"],
        returns="Seq(Real)",
        ensures=["len(result) == len(x)",
                 "forall(i, 0, len(x), result[i] == LL(x[i]['x']))"]),
})
_S["INSC03"].attrs.update({"model": "Obj(ISModelLL)",
                           "draw_samples_time": "Any"})
contract(
    INS, "ImportanceNestedSampler.draw_n_samples", props=["C03", "C09"],
    variant_name="c03", self_shape="INSC03", log_domain=True,
    params={"n": "Int", "**kwargs": {}}, requires=DRAW_REQ,
    modifies=["self.draw_samples_time"],
    may_raise={"ValueError": None},
    returns=f"Tuple({INS_ARR},Tbl(QRow))",
    ensures=NEWROWS + [
        "forall(i, 0, n, InUnit(result[0][i]['x']))",
        # the stored log-likelihood is the model's value at the point
        "forall(i, 0, n, result[0][i]['logL'] == LL(result[0][i]['x']))",
    ],
)


def at(store, idx, m):
    """C03INV clauses for the single row `idx` of self.<store>"""
    S, Q = f"self.{store}.samples", f"self.{store}.log_q"
    X = f"{S}[{idx}]['x']"
    return (f"ncol({Q}[{idx}]) == {m} and col({Q}[{idx}], 0) == 0 and "
            # columns of the earlier levels, and the column just appended
            f"forall(j, 1, {m} - 1, col({Q}[{idx}], j) == "
            f"LPX(j - 1, Rf({X})) + RJ({X})) and "
            f"col({Q}[{idx}], {m} - 1) == LPX({m} - 2, Rf({X})) + RJ({X}) "
            f"and E({S}[{idx}]['logQ']) == "
            + MIX.format(m=m, w=PW, row=f"{Q}[{idx}]") + " and "
            f"{S}[{idx}]['logW'] == {S}[{idx}]['logU'] - {S}[{idx}]['logQ']")


def aup_contract(store, variant, iid):
    other = "iid_samples" if store == "training_samples" else \
        "training_samples"
    req = (DRAW_REQ + ["self.proposal.level_count >= 0",
            # the weight of the new level has been set
            # (add_new_proposal_weight)
            f"len({PW}) == {M_NEW}",
            ("self.draw_iid_live" if iid else "not self.draw_iid_live"),
            "len(self.training_samples.samples) >= 1"]
           + _rep("training_samples")
           + rows_ok("training_samples", "self.proposal.level_count + 1",
                     upto_weights=False))
    if iid:
        req += (_rep("iid_samples") + rows_ok(
            "iid_samples", "self.proposal.level_count + 1",
            upto_weights=False) + ["len(self.iid_samples.samples) >= 1"])
    S = f"self.{store}.samples"
    contract(
        INS, "ImportanceNestedSampler.add_and_update_points",
        props=["C03"], variant_name=variant, self_shape="INSC03",
        log_domain=True, params={"n": "Int"}, requires=req,
        modifies=["self.history", "self._current_proposal_entropy",
                  "self.training_samples", "self.iid_samples",
                  "self.live_points_ess", "self.draw_samples_time",
                  "self.add_and_update_samples_time"],
        opaque_callees=["ImportanceNestedSampler.compute_leakage",
                        "differential_entropy", "effective_sample_size",
                        "plot_1d_comparison"],
        may_raise={"RuntimeError": "False", "ValueError": None},
        ghost_funcs={"posold": "Int->Int", "posnew": "Int->Int",
                     "isnew": "Int->Bool", "srcnew": "Int->Int",
                     "srcold": "Int->Int"},
        bind_ghost={g: f"call:OrderedSamples.add_samples.{g}" for g in
                    ("posold", "posnew", "isnew", "srcnew", "srcold")},
        ensures=(
            [f"len({S}) == old(len({S})) + n",
             # stepping stones (each proved, then assumed): the re-weighted
             # old rows and the freshly drawn rows, where add_samples put
             # them (position maps of the *last* add_samples call: the one
             # on this store)
             f"forall(a, 0, old(len({S})), 0 <= posold(a) and "
             f"posold(a) < len({S}) and (" + at(store, "posold(a)", M_NEW)
             + "), posold(a))",
             f"forall(b, 0, n, 0 <= posnew(b) and posnew(b) < len({S}) "
             f"and (" + at(store, "posnew(b)", M_NEW) + "), posnew(b))",
             # every row is one or the other
             f"forall(p, 0, len({S}), "
             f"(isnew(p) and 0 <= srcnew(p) and srcnew(p) < n and "
             f"posnew(srcnew(p)) == p) or (not isnew(p) and "
             f"0 <= srcold(p) and srcold(p) < old(len({S})) and "
             f"posold(srcold(p)) == p), self.{store}.log_q[p], "
             f"{S}[p]['logQ'], {S}[p]['logW'])",
             # hence the invariant of C03 for every stored sample
             f"forall(p, 0, len({S}), " + at(store, "p", M_NEW) + ")"]
            # ... in the form the next iteration (and finalise) rely on
            + rows_ok(store, M_NEW)
            # the store's own representation invariant (C04) is kept
            + _rep(store)
        ),
    )


aup_contract("training_samples", "c03", False)
aup_contract("iid_samples", "c03-iid", True)

# ---- evaluating the meta-proposal at new points -----------------------------
_S["FlowSetAbs"].attrs.update({"n_models": "Int",
                               "models": "Seq(Row(training:Bool))"})
_S["FlowSetAbs"].methods.update({
    "log_prob_all": Contract(
        "<abstract>", "FlowSetAbs.log_prob_all", params={"x": XT},
        trusted=True,
        trusted_reason="ImportanceFlowModel.log_prob_all: column k is the "
        "level-k flow's log-density LPX(k, .) (flow evaluation: C08)",
        returns="Tbl(QRow)",
        ensures=["len(result) == len(x)",
                 "forall(i, 0, len(x), ncol(result[i]) == self.n_models)",
                 "forall2(i, len(x), k, self.n_models, "
                 "col(result[i], k) == LPX(k, x[i]))"]),
})
contract(
    IP, "ImportanceFlowProposal.compute_log_Q", props=["C03", "C08"],
    self_shape="ISProposalC03", log_domain=True,
    params={"x_prime": XT, "log_j": "Opt(Seq(Real))"},
    requires=[
        "implies(log_j is not None, len(log_j) == len(x_prime))",
        # one weight per proposal: the initial one and one per trained flow
        f"self.flow.n_models == {NW} - 1", f"{NW} >= 1",
    ],
    returns="Tuple(Seq(Real),Tbl(QRow))",
    raises={"RuntimeError":
            f"exists(p, 0, {NW}, isnan({W}[p - 1])) or "
            f"({NW} > 1 and log_j is None) or "
            "exists(k, 0, len(self.flow.models), "
            "self.flow.models[k]['training'])"},
    may_raise={"ValueError": None},      # a NaN mixture is reported
    ensures=[
        "len(result[0]) == len(x_prime) and len(result[1]) == len(x_prime)",
        f"forall(i, 0, len(x_prime), ncol(result[1][i]) == {NW})",
        # column 0: the initial uniform proposal; column j: flow j-1 at the
        # point, times the Jacobian that was handed in
        "forall(i, 0, len(x_prime), col(result[1][i], 0) == 0)",
        f"forall2(i, len(x_prime), j, {NW}, implies(j >= 1, "
        "col(result[1][i], j) == LPX(j - 1, x_prime[i]) + log_j[i]))",
        "forall(i, 0, len(x_prime), E(result[0][i]) == "
        + MIX.format(w=W, row="result[1][i]") + ")",
    ],
)

# ---- drawing new samples: ImportanceFlowProposal.draw ----------------------
from .shapes import INS_LP
shape("ISModelAbs", {}, methods={
    "in_unit_hypercube": Contract(
        "<abstract>", "ISModelAbs.in_unit_hypercube", params={"x": INS_ARR},
        trusted=True, trusted_reason="Model.in_unit_hypercube as the "
        "abstract predicate InUnit on the point", returns="Seq(Bool)",
        ensures=["len(result) == len(x)",
                 "forall(i, 0, len(x), result[i] == InUnit(x[i]['x']))"]),
    "batch_evaluate_log_prior": Contract(
        "<abstract>", "ISModelAbs.batch_evaluate_log_prior",
        params={"x": INS_ARR, "unit_hypercube": "Bool"}, trusted=True,
        trusted_reason="prior values (C10)", returns="Seq(Real)",
        ensures=["len(result) == len(x)",
                 "forall(i, 0, len(x), result[i] == LPr(x[i]['x']))"]),
    "batch_evaluate_log_prior_unit_hypercube": Contract(
        "<abstract>", "ISModelAbs.batch_evaluate_log_prior_unit_hypercube",
        params={"x": INS_ARR}, trusted=True,
        trusted_reason="unit-hypercube prior values (C10)",
        returns="Seq(Real)", ensures=["len(result) == len(x)"]),
})
_S["ISProposalC03"].attrs.update({
    "model": "Obj(ISModelAbs)", "dtype": f"DType({INS_LP})",
})
_S["FlowSetAbs"].methods.update({
    "sample_ith": Contract(
        "<abstract>", "FlowSetAbs.sample_ith",
        params={"i": "Int", "N": "Int"}, trusted=True,
        trusted_reason="draws N points from flow i", returns=XT,
        ensures=["len(result) == N"]),
})
_S["ISProposalC03"].methods.update({
    "inverse_rescale": Contract(
        "<abstract>", "ImportanceFlowProposal.inverse_rescale",
        params={"x_prime": XT}, trusted=True,
        trusted_reason="primed space -> unit hypercube as the abstract map "
        "Ri (inverse of Rf, C07/C08 axioms) with log-Jacobian RiJ; the other "
        "fields of the returned structured array are unspecified",
        returns=f"Tuple({INS_ARR},Seq(Real))",
        ensures=["len(result[0]) == len(x_prime) and "
                 "len(result[1]) == len(x_prime)",
                 "forall(i, 0, len(x_prime), "
                 "result[0][i]['x'] == Ri(x_prime[i]) and "
                 "result[1][i] == RiJ(x_prime[i]))"]),
})


def drawn_ok(S, Q, n):
    """row clauses for the first n rows of (S, Q) under the current weights"""
    return [
        f"forall(i, 0, {n}, ncol({Q}[i]) == {NW})",
        f"forall(i, 0, {n}, col({Q}[i], 0) == 0)",
        f"forall2(i, {n}, j, {NW}, implies(j >= 1, col({Q}[i], j) == "
        f"LPX(j - 1, Rf({S}[i]['x'])) + RJ({S}[i]['x'])))",
        f"forall(i, 0, {n}, E({S}[i]['logQ']) == "
        + MIX.format(w=W, row=f"{Q}[i]") + ")",
        f"forall(i, 0, {n}, {S}[i]['logW'] == "
        f"{S}[i]['logU'] - {S}[i]['logQ'])",
        # only points inside the unit hypercube are kept (so the likelihood
        # is never evaluated outside the prior support: C09)
        f"forall(i, 0, {n}, InUnit({S}[i]['x']))",
    ]


def prior_ok(S, n):
    """C09: a drawn point carries the model's log-prior and it is finite
    (points where the prior vanishes are discarded, not handed to the
    likelihood)"""
    return [f"forall(i, 0, {n}, {S}[i]['logP'] == LPr({S}[i]['x']))",
            f"forall(i, 0, {n}, isfinite({S}[i]['logP']))"]


contract(
    IP, "ImportanceFlowProposal.draw", props=["C03", "C08", "C09"],
    self_shape="ISProposalC03", log_domain=True,
    params={"n": "Int", "flow_number": "Opt(Int)"},
    requires=["n >= 1", f"self.flow.n_models == {NW} - 1", f"{NW} >= 2",
              f"forall(p, 0, {NW}, not isnan({W}[p - 1]))",
              "forall(k, 0, len(self.flow.models), "
              "not self.flow.models[k]['training'])"],
    returns=f"Tuple({INS_ARR},Tbl(QRow))",
    may_raise={"ValueError": None},
    loops={0: {
        "inv": ["n_accepted >= 0", "len(samples) == n_accepted",
                "len(log_q_samples) == n_accepted", "n_draw >= 1"]
        + drawn_ok("samples", "log_q_samples", "n_accepted")
        + prior_ok("samples", "n_accepted"),
    }},
    ensures=["len(result[0]) == n and len(result[1]) == n"]
    + drawn_ok("result[0]", "result[1]", "n") + prior_ok("result[0]", "n"),
)

# ---- re-evaluating stored samples (used when resuming: the density table is
# ---- not pickled and is recomputed from the saved proposals) -----------------
contract(
    IP, "ImportanceFlowProposal.compute_meta_proposal_samples",
    props=["C03"], self_shape="ISProposalC03", log_domain=True,
    params={"samples": INS_ARR},
    requires=[f"self.flow.n_models == {NW} - 1", f"{NW} >= 2",
              f"self.level_count == {NW} - 2",
              f"forall(p, 0, {NW} - 1, not isnan({W}[p - 1]))",
              "forall(k, 0, len(self.flow.models), "
              "not self.flow.models[k]['training'])"],
    raises={"RuntimeError": f"isnan({W}[self.level_count])"},
    may_raise={"ValueError": None},
    returns="Tuple(Seq(Real),Tbl(QRow))",
    ensures=[
        "len(result[0]) == len(samples) and len(result[1]) == len(samples)",
        f"forall(i, 0, len(samples), ncol(result[1][i]) == {NW})",
        "forall(i, 0, len(samples), col(result[1][i], 0) == 0)",
        # every column is the saved proposal re-evaluated at the sample
        f"forall2(i, len(samples), j, {NW}, implies(j >= 1, "
        "col(result[1][i], j) == LPX(j - 1, Rf(samples[i]['x'])) + "
        "RJ(samples[i]['x'])))",
        "forall(i, 0, len(samples), E(result[0][i]) == "
        + MIX.format(w=W, row="result[1][i]") + ")",
    ],
)

# ---- composition: one iteration of ImportanceNestedSampler.nested_sampling_loop
# The function-level contracts above are only worth something if the loop calls
# them in an order and in states that meet their preconditions.  This contract
# checks exactly that (without the independent sample set): the C03 invariant
# of the training store together with the bookkeeping of levels, weights and
# counts is a loop invariant of nested_sampling_loop.  The callees that do not
# touch the stores' rows or the weights are frames (trusted, their `modifies`
# sets inferred from the code as for C15); what is ASSUMED of the others is
# stated in their trusted_reason.
TSs, TSq = "self.training_samples.samples", "self.training_samples.log_q"
LV = "self.proposal.level_count"
LOOP_INV = (
    _rep("training_samples")
    + rows_ok("training_samples", f"{LV} + 2")
    + [f"len({PW}) == {LV} + 2", f"self.proposal.flow.n_models == {LV} + 1",
       f"{LV} >= -1", f"len({CNT}) == {LV} + 2",
       f"forall(p, 0, {NC}, {CNT}[p - 1] >= 0)",
       f"{CSUM} == real(len({TSs}))",
       f"self.iteration == {LV} + 1", f"len({TSs}) >= 1",
       f"forall(p, 0, len({PW}), not isnan({PW}[p - 1]))",
       "forall(k, 0, len(self.proposal.flow.models), "
       "not self.proposal.flow.models[k]['training'])",
       "not self.finalised", "not self.draw_iid_live", "self.nlive >= 1",
       "self.plotting_frequency >= 1"]
)
_S["INSC03"].attrs.update({
    "finalised": "Bool", "min_iteration": "Int", "max_iteration": "Real",
    "n_update": "None", "threshold_method": "Str",
    "threshold_kwargs": "EmptyDict", "draw_constant": "Bool",
    "replace_all": "Bool", "nlive": "Int", "importance": "Any",
    "criterion": "Any", "plotting_frequency": "Int",
    "checkpointing": "Bool", "stopping_criterion": "Any",
    "training_time": "Any", "likelihood_evaluation_time": "Any",
    # read-only properties / flags the loop consults (shadowed: their
    # definitions are C15's concern)
    "reached_tolerance": "Bool", "log_evidence": "Real",
    "nested_samples_unit": "Any", "samples": "Any",
})
C03_FRAME = ("frame only: does not touch the rows of the sample stores, the "
             "density tables, the proposal weights or the sample counts "
             "(modifies set as inferred for C15)")


def _frame(name, modifies=(), ensures=(), returns=None, params=None,
           requires=(), reason=C03_FRAME):
    contract(INS, f"ImportanceNestedSampler.{name}", variant_name="c03",
             props=["C03"], self_shape="INSC03", trusted=True, verify=False,
             trusted_reason=reason, params=params or {},
             requires=list(requires), modifies=list(modifies),
             ensures=list(ensures), returns=returns)


_frame("initialise_history", modifies=["self.history"])
_S["ISProposalC03"].methods.update({
    "initialise": Contract(
        "<abstract>", "ImportanceFlowProposal.initialise", trusted=True,
        trusted_reason="creates the (empty) set of flows and the output "
        "directories; ASSUMED not to touch weights / level count / stores",
        modifies=[]),
})
FRESH = ["self.n_initial >= 1", f"len({CNT}) == 0", "not self.draw_iid_live",
         f"len({PW}) == 1 and {PW}[-1] == 1 and not isnan({PW}[-1])",
         f"{LV} == -1",
         "self.proposal.flow.n_models == 0", "self.iteration == 0",
         "len(self.proposal.flow.models) == 0",
         "len(self.training_samples.nested_samples_indices) == 0"]
contract(
    INS, "ImportanceNestedSampler.initialise", variant_name="c03",
    props=["C03"], self_shape="INSC03I", log_domain=True,
    # the state the constructor leaves behind (ASSUMED of __init__ /
    # ImportanceFlowProposal.__init__: not under contract)
    requires=FRESH,
    modifies=["self.training_samples", "self.sample_counts", "self.history",
              "self.initialised"],
    may_raise={"RuntimeError": None},
    ensures=[e for e in LOOP_INV if "finalised" not in e and
             "draw_iid_live" not in e and "nlive" not in e and
             "plotting" not in e],
)
_frame("_compute_gradient")
_frame("determine_log_likelihood_threshold", returns="Real",
       params={"samples": "Any", "method": "Any", "**kwargs": {}})
_frame("update_log_likelihood_threshold", params={"threshold": "Any"},
       modifies=["self.log_likelihood_threshold",
                 "self.training_samples.log_likelihood_threshold"])
_frame("remove_samples", returns="Int",
       modifies=["self.training_samples.live_points_indices",
                 "self.training_samples.nested_samples_indices",
                 "self.history"],
       ensures=_rep("training_samples") + ["result >= 0"],
       reason="moves live indices to the nested set (C04: "
       "OrderedSamples.remove_samples keeps the representation invariant "
       "and does not touch samples / log_q)")
_frame("add_new_proposal",
       modifies=["self.proposal.level_count", "self.proposal._weights",
                 "self.proposal.flow.n_models", "self.proposal.flow.models",
                 "self.current_training_samples", "self.training_time"],
       ensures=[f"{LV} == old({LV}) + 1",
                "self.proposal.flow.n_models == "
                "old(self.proposal.flow.n_models) + 1",
                f"len({PW}) == old(len({PW})) + 1",
                f"forall(p, 0, old(len({PW})), "
                f"{PW}[p - 1] == old({PW})[p - 1])",
                "forall(k, 0, len(self.proposal.flow.models), "
                "not self.proposal.flow.models[k]['training'])"],
       reason="ASSUMED of ImportanceFlowProposal.train: one more level and "
       "one more flow, a new (NaN) entry appended to the weight dictionary, "
       "no flow left in training mode; sample stores untouched")
for _n in ("update_evidence", "log_state", "update_history", "produce_plots"):
    _frame(_n, modifies=["self.history"] if _n == "update_history" else [])
_frame("compute_importance", returns="Any",
       params={"importance_ratio": "Any"})
_frame("compute_stopping_criterion", returns="Any")
_frame("checkpoint", params={"periodic": "Bool", "force": "Bool"})
_frame("finalise",
       modifies=["self.finalised",
                 "self.training_samples.live_points_indices",
                 "self.training_samples.nested_samples_indices"],
       ensures=["self.finalised"],
       reason="OrderedSamples.finalise moves the live indices to the nested "
       "set (C04); rows and weights untouched")
C03_LOOP_MOD = ["self.training_samples", "self.proposal",
                "self.sample_counts", "self.iteration", "self.history",
                "self.criterion", "self.importance",
                "self.log_likelihood_threshold",
                "self.current_training_samples", "self.training_time",
                "self._current_proposal_entropy", "self.live_points_ess",
                "self.draw_samples_time", "self.add_and_update_samples_time",
                "self.reached_tolerance", "self.iid_samples"]
contract(
    INS, "ImportanceNestedSampler.nested_sampling_loop", variant_name="c03",
    props=["C03", "C05"], self_shape="INSC03", log_domain=True,
    requires=FRESH + ["self.nlive >= 1",
              "self.plotting_frequency >= 1",
              # (variable draws with an empty level: listed C20 finding)
              "self.draw_constant or self.replace_all"],
    modifies=C03_LOOP_MOD + ["self.finalised", "self.initialised"],
    may_raise={"ValueError": None},
    returns="Tuple(Real,Any)",
    loops={0: {"inv": LOOP_INV, "modifies": C03_LOOP_MOD}},
    ensures=[
        # at the end of the run (and of every iteration: loop invariant)
        # every training sample carries the exact meta-proposal density
        "implies(not old(self.finalised), self.finalised)"]
    + ["implies(not old(self.finalised), " + e + ")"
       for e in rows_ok("training_samples", f"{LV} + 2")]
    # C05: the number of returned samples is the sum of the draws of every
    # level (the per-level counts account for every stored sample)
    + [f"implies(not old(self.finalised), {CSUM} == real(len({TSs})))"],
)

# ---- base case: the initial live points (level -1, one column of zeros) -------
LVP = "nessai/livepoint.py"
contract(LVP, "get_dtype", variant_name="c03", props=["C03"], trusted=True,
         verify=False, trusted_reason="structured dtype of the live points "
         "(field plumbing: C18's concern)",
         params={"names": "Any"}, returns=f"DType({INS_LP})")
shape("ISModelInit", {"names": "Any"}, methods={
    "sample_unit_hypercube": Contract(
        "<abstract>", "ISModelInit.sample_unit_hypercube",
        params={"n": "Int"}, trusted=True,
        trusted_reason="n points drawn in the unit hypercube",
        returns=INS_ARR,
        ensures=["len(result) == n",
                 "forall(i, 0, n, InUnit(result[i]['x']))"]),
    "batch_evaluate_log_prior": _S["ISModelAbs"].methods[
        "batch_evaluate_log_prior"],
    "batch_evaluate_log_prior_unit_hypercube": _S["ISModelAbs"].methods[
        "batch_evaluate_log_prior_unit_hypercube"],
    "batch_evaluate_log_likelihood": _S["ISModelLL"].methods[
        "batch_evaluate_log_likelihood"],
})
# (the sampler-side shape of C03 with the model methods populate uses)
_S["ISModelLL"].methods.update(_S["ISModelInit"].methods)
_S["ISModelLL"].attrs.update({"names": "Any"})
_S["INSC03"].attrs.update({"n_initial": "Int", "initialised": "Bool"})
# the same object seen by `initialise`: no live points yet (the property
# live_points_unit is None before the first population)
shape("INSC03I", dict(_S["INSC03"].attrs, live_points_unit="None"),
      cls="ImportanceNestedSampler")
contract(
    INS, "ImportanceNestedSampler.populate_live_points", props=["C03", "C09"],
    variant_name="c03", self_shape="INSC03", log_domain=True,
    requires=["self.n_initial >= 1", f"len({CNT}) == 0",
              "not self.draw_iid_live",
              # a fresh proposal: only the initial (uniform) proposal, weight 1
              f"len({PW}) == 1 and {PW}[-1] == 1",
              "len(self.training_samples.nested_samples_indices) == 0"],
    modifies=["self.training_samples", "self.sample_counts"],
    may_raise={"RuntimeError": None},       # +inf likelihood
    loops={0: {"inv": [
        "0 <= n and n <= target", "len(live_points) == target",
        "forall(i, 0, n, InUnit(live_points[i]['x']))",
        # only points where the prior does not vanish are kept (C09)
        "forall(i, 0, n, isfinite(live_points[i]['logP']))"]}},
    hints=[("at_end", None, f"lemma_mixrow_single({PW})"),
           ("at_end", None, f"lemma_sum_single({CSUM})"),
           # C09: the likelihood is called on the initial points only where
           # the prior is finite (program-point clause)
           ("assert_before_stmt",
            "live_points['logL'] = self.model.batch_evaluate_log_likelihood",
            "forall(i, 0, len(live_points), "
            "isfinite(live_points[i]['logP']))")],
    ensures=_rep("training_samples") + [
        "len(self.training_samples.samples) == self.n_initial",
        f"len({CNT}) == 1 and {CNT}[-1] == self.n_initial",
        f"{CSUM} == real(len(self.training_samples.samples))",
        # only unit-hypercube points were handed to the likelihood (call-site
        # obligation) and kept
        "forall(i, 0, self.n_initial, "
        "InUnit(self.training_samples.samples[i]['x']))",
    ] + rows_ok("training_samples", "1"),
)

# ---- resume: the density tables are not pickled (save_log_q=False) and are
# ---- re-derived from the saved proposals -- for the right samples -------------
shape("OrderedSamplesPickled", {"samples": INS_ARR,
                                "log_q": "Opt(Tbl(QRow))"})
_S["ISProposalC03"].methods.update({
    "resume": Contract(
        "<abstract>", "ImportanceFlowProposal.resume",
        params={"model": "Any", "flow_config": "Any", "weights_path": "Any"},
        trusted=True, trusted_reason="reloads the saved flows (C11 / C12); "
        "ASSUMED to restore the proposals the checkpoint was written with "
        "(weights, level count, number of flows unchanged)", modifies=[]),
})
shape("INSPickled", {
    "_previous_likelihood_evaluations": "Int",
    "_previous_likelihood_evaluation_time": "Real",
    "model": "Any", "resumed": "Bool", "checkpoint_callback": "Any",
    "iteration": "Int", "draw_iid_live": "Bool",
    "proposal": "Obj(ISProposalC03)",
    "training_samples": "Obj(OrderedSamplesPickled)",
    "iid_samples": "Opt(Obj(OrderedSamplesPickled))",
}, cls="ImportanceNestedSampler")
shape("INSCls", {}, cls="ImportanceNestedSampler", methods={
    "add_fields": Contract("<abstract>", "ImportanceNestedSampler.add_fields",
                           trusted=True, trusted_reason="registers the extra "
                           "live-point fields (C18's registry)"),
})
SP = "sampler.proposal._weights"


def recomputed(store):
    S, Q = f"sampler.{store}.samples", f"sampler.{store}.log_q"
    return [
        f"{Q} is not None", f"len({Q}) == len({S})",
        f"forall(i, 0, len({S}), ncol({Q}[i]) == len({SP}))",
        f"forall(i, 0, len({S}), col({Q}[i], 0) == 0)",
        # the re-derived densities are the saved proposals evaluated at THIS
        # store's samples
        f"forall2(i, len({S}), j, len({SP}), implies(j >= 1, "
        f"col({Q}[i], j) == LPX(j - 1, Rf({S}[i]['x'])) + "
        f"RJ({S}[i]['x'])))",
    ]


contract(
    "nessai/samplers/base.py", "BaseNestedSampler.resume_from_pickled_sampler",
    variant_name="c03", props=["C03"], trusted=True, verify=False,
    trusted_reason="the contract proved for it under C12 (model re-attached, "
    "evaluation counters continued, the pickled sampler itself returned), "
    "restated as a frame for this caller",
    params={"sampler": "Any", "model": "Any", "checkpoint_callback": "Any"},
    modifies=["sampler.model", "sampler.resumed", "sampler.checkpoint_callback",
              "sampler._previous_likelihood_evaluations",
              "sampler._previous_likelihood_evaluation_time"],
    returns_param="sampler",
)
contract(
    INS, "ImportanceNestedSampler.resume_from_pickled_sampler",
    variant_name="c03",
    props=["C03", "C12"], self_shape="INSCls", log_domain=True,
    params={"sampler": "Obj(INSPickled)", "model": "Obj(ModelCnt)",
            "flow_config": "Opt(Any)", "weights_path": "Any",
            "**kwargs": {}},
    requires=[
        f"sampler.proposal.flow.n_models == len({SP}) - 1",
        f"len({SP}) >= 2", f"sampler.proposal.level_count == len({SP}) - 2",
        f"forall(p, 0, len({SP}), not isnan({SP}[p - 1]))",
        "forall(k, 0, len(sampler.proposal.flow.models), "
        "not sampler.proposal.flow.models[k]['training'])",
        # (tables that WERE pickled are left alone)
        "sampler.training_samples.log_q is None",
        "implies(sampler.iid_samples is not None, "
        "sampler.iid_samples.log_q is None)",
    ],
    modifies=["sampler", "model"],
    may_raise={"ValueError": None},
    returns="Any",
    ensures=recomputed("training_samples")
    + ["implies(sampler.iid_samples is not None, " + e + ")"
       for e in recomputed("iid_samples")],
)

# failed obligations of the proposal-side functions are replayed on a concrete
# instance built around the package's own ImportanceFlowProposal
from pyvc.contracts import CONTRACTS as _ALL
for _c in _ALL.values():
    if _c.file == IP and _c.verify and _c.replay is None and _c.func in (
            "ImportanceFlowProposal.compute_log_Q",
            "ImportanceFlowProposal.update_log_q",
            "ImportanceFlowProposal.compute_meta_proposal_from_log_q",
            "ImportanceFlowProposal.compute_meta_proposal_samples",
            "ImportanceFlowProposal.draw"):
        _c.replay = {"module": "replay.c03_ins", "func": "ins_replay"}

# ---- the real inverse_rescale: from_prime, optional clipping, conversion ----
# `draw` (and every other caller) uses it as the map Ri.  That is what the
# real body does when clipping is off (the default).  With clip=True a point
# the flow generates outside the unit hypercube is moved onto its boundary
# AFTER its density was fixed: the densities `draw` attaches (evaluated at the
# un-clipped x_prime) are then not those of the returned point.
shape("ISProposalInv", {"clip": "Bool", "model": "Obj(ISModelNames)"},
      cls="ImportanceFlowProposal", methods={
    "from_prime": Contract(
        "<abstract>", "ImportanceFlowProposal.from_prime",
        params={"x_prime": XT}, trusted=True,
        trusted_reason="sigmoid / identity as the abstract map Ri with "
        "log-Jacobian RiJ (C07)", returns="Tuple(Seq(Sort(P)),Seq(Real))",
        ensures=["len(result[0]) == len(x_prime) and "
                 "len(result[1]) == len(x_prime)",
                 "forall(i, 0, len(x_prime), result[0][i] == Ri(x_prime[i]) "
                 "and result[1][i] == RiJ(x_prime[i]))"]),
})
shape("ISModelNames", {"names": "Any"})
LPF_ = "nessai/livepoint.py"
contract(LPF_, "numpy_array_to_live_points", variant_name="c03",
         props=["C03", "C08"], trusted=True, verify=False,
         trusted_reason="unstructured -> structured conversion keeps each "
         "point (the other fields take their defaults: C18)",
         params={"array": "Seq(Sort(P))", "names": "Any"}, returns=INS_ARR,
         ensures=["len(result) == len(array)",
                  "forall(i, 0, len(array), result[i]['x'] == array[i])"])
INV_ENS = ["len(result[0]) == len(x_prime) and len(result[1]) == len(x_prime)",
           "forall(i, 0, len(x_prime), result[0][i]['x'] == Ri(x_prime[i]) "
           "and result[1][i] == RiJ(x_prime[i]))"]
for _v, _req in (("c03-noclip", "not self.clip"), ("c03-clip", "self.clip")):
    contract(
        IP, "ImportanceFlowProposal.inverse_rescale", variant_name=_v,
        props=["C03", "C08"], self_shape="ISProposalInv", log_domain=True,
        params={"x_prime": XT}, requires=[_req],
        returns=f"Tuple({INS_ARR},Seq(Real))", ensures=INV_ENS,
        ident_name=f"ImportanceFlowProposal.inverse_rescale#{_v}",
        replay=({"module": "replay.custom", "func": "script_probe",
                 "script": "c08_clip.py", "args": [1]} if _v == "c03-clip"
                else {"module": "replay.custom", "func": "script_probe",
                      "script": "c08_clip.py", "args": [0]}),
    )

# ---- the constructor: the clipping option is stored as given and is OFF
# ---- unless asked for (the contracts above are for clip=False; clip=True is
# ---- the known finding of inverse_rescale#c03-clip)
shape("ISModelDims", {"names": "Any", "dims": "Int"})
shape("ISProposalNew", {}, cls="ImportanceFlowProposal")
_INIT_P = {"model": "Obj(ISModelDims)", "output": "Any",
           "flow_config": "None", "training_config": "None",
           "reparameterisation": "Str", "weighted_kl": "Bool",
           "reset_flow": "Bool", "plot_training": "Bool"}
_INIT_ENS = ["self.level_count == -1", "len(self._weights) == 1",
             "self._weights[-1] == 1",
             "self.reparameterisation == reparameterisation",
             "self.model is model"]
contract(
    IP, "ImportanceFlowProposal.__init__", props=["C03", "C08"],
    self_shape="ISProposalNew", params=dict(_INIT_P, clip="Bool"),
    opaque_callees=["update_flow_config", "get_dtype"],
    ensures=_INIT_ENS + ["self.clip == clip"],
)
contract(
    IP, "ImportanceFlowProposal.__init__", variant_name="defaults",
    props=["C03", "C08"], self_shape="ISProposalNew", params=_INIT_P,
    opaque_callees=["update_flow_config", "get_dtype"],
    ident_name="ImportanceFlowProposal.__init__#defaults",
    replay={"module": "replay.custom", "func": "script_probe",
            "script": "c08_clip.py", "args": ["default"]},
    # `clip` not given: the signature's default applies
    ensures=_INIT_ENS + ["not self.clip"],
)
