"""C04: the INS sample store (OrderedSamples) stays sorted, partitioned and
aligned under all updates.

Abstract view: the sequence of (record, density-table row) pairs.  The
whole-view postconditions are stated with the position maps of np.insert
(ghost functions posold / posnew: where every old / new pair lands), never
with bare existentials."""
from pyvc.contracts import contract, shape, Contract
from .shapes import INS, INS_ARR, EV

ST = "nessai/utils/structures.py"

shape("_INSStateAbs", {}, methods={
    "update_evidence": Contract(
        "<abstract>", "_INSStateAbs.update_evidence",
        params={"nested_samples": "Any", "live_points": "Any"},
        trusted=True, modifies=[],
        trusted_reason="evidence update reads the samples only (C05)"),
})

shape("OrderedSamples", {
    "samples": INS_ARR,
    "log_q": "Tbl(QRow)",
    "live_points_indices": "Opt(Seq(Int))",
    "nested_samples_indices": "Seq(Int)",
    "strict_threshold": "Bool",
    "replace_all": "Bool",
    "log_likelihood_threshold": "Real",
    "state": "Obj(_INSStateAbs)",
})

L = "self.live_points_indices"
N = "self.nested_samples_indices"
REP_INV = [
    "sorted_by(self.samples, 'logL')",
    "len(self.log_q) == len(self.samples)",
    f"strictly_increasing({N})",
    f"forall(i, 0, len({N}), 0 <= {N}[i] and {N}[i] < len(self.samples))",
    f"implies({L} is not None, strictly_increasing({L}))",
    f"implies({L} is not None, forall(i, 0, len({L}), "
    f"0 <= {L}[i] and {L}[i] < len(self.samples)))",
    # disjoint, and (by the pigeonhole lemma) together covering [0, len)
    f"implies({L} is not None, forall2(i, len({L}), k, len({N}), "
    f"{L}[i] != {N}[k]))",
    f"implies({L} is not None, len({L}) + len({N}) == len(self.samples))",
    f"implies({L} is None, len({N}) == len(self.samples))",
]

contract(
    ST, "get_inverse_indices", props=["C04", "C03"],
    params={"n": "Int", "indices": "Seq(Int)"},
    requires=["n >= 0", "len(indices) >= 1",
              "strictly_increasing(indices)",
              "forall(k, 0, len(indices), indices[k] >= 0)"],
    returns="Seq(Int)",
    raises={"ValueError": "indices[len(indices) - 1] >= n"},
    ensures=[
        "len(result) == n - len(indices)",
        "strictly_increasing(result)",
        "forall(i, 0, len(result), 0 <= result[i] and result[i] < n)",
        "forall2(i, len(result), k, len(indices), result[i] != indices[k])",
    ],
)

contract(
    ST, "get_subset_arrays", props=["C04"], inline=True, verify=False,
    notes="one-line tuple(a[indices] for a in args): inlined at call sites",
)

PERM = {"perm": "Int->Int", "perminv": "Int->Int"}
PERM_ENS = [
    "forall(k, 0, len(samples), 0 <= perm(k) and perm(k) < len(samples) "
    "and perminv(perm(k)) == k)",
    "forall(k, 0, len(samples), 0 <= perminv(k) and "
    "perminv(k) < len(samples) and perm(perminv(k)) == k)",
]

contract(
    INS, "OrderedSamples.sort_samples", props=["C04"],
    params={"samples": INS_ARR, "*args": ["Tbl(QRow)"]},
    requires=["len(args[0]) == len(samples)"],
    returns=f"Tuple({INS_ARR},Tbl(QRow))",
    ghost_funcs=PERM,
    bind_ghost={"perm": "last_argsort.perm", "perminv": "last_argsort.inv"},
    ensures=[
        "len(result[0]) == len(samples)",
        "len(result[1]) == len(samples)",
        "sorted_by(result[0], 'logL')",
        # the same permutation drives both arrays: rows stay attached
        "forall(k, 0, len(samples), row_eq(result[0][k], samples[perm(k)]) "
        "and result[1][k] == args[0][perm(k)])",
    ] + PERM_ENS,
)

contract(
    INS, "OrderedSamples.add_initial_samples", props=["C04"],
    params={"samples": INS_ARR, "log_q": "Tbl(QRow)"},
    requires=["len(log_q) == len(samples)", f"len({N}) == 0"],
    modifies=["self.samples", "self.log_q", "self.live_points_indices"],
    ghost_funcs=PERM,
    bind_ghost={"perm": "call:OrderedSamples.sort_samples.perm",
                "perminv": "call:OrderedSamples.sort_samples.perminv"},
    ensures=REP_INV + [
        "len(self.samples) == len(samples)",
        "forall(k, 0, len(samples), row_eq(self.samples[k], "
        "samples[perm(k)]) and self.log_q[k] == log_q[perm(k)])",
        f"{L} is not None and len({L}) == len(samples)",
    ] + PERM_ENS,
)

contract(
    INS, "OrderedSamples.add_to_nested_samples", props=["C04"],
    params={"indices": "Seq(Int)"},
    requires=[
        f"strictly_increasing({N})", "strictly_increasing(indices)",
        f"forall2(i, len(indices), k, len({N}), indices[i] != {N}[k])",
    ],
    modifies=["self.nested_samples_indices"],
    ghost_funcs={"npos_old": "Int->Int", "npos_new": "Int->Int"},
    bind_ghost={"npos_old": "last_insert.posold",
                "npos_new": "last_insert.posnew"},
    ensures=[
        f"len({N}) == old(len({N})) + len(indices)",
        f"strictly_increasing({N})",
        # every old and every moved index is present (position maps)
        f"forall(j, 0, old(len({N})), 0 <= npos_old(j) and "
        f"npos_old(j) < len({N}) and {N}[npos_old(j)] == old({N})[j])",
        f"forall(k, 0, len(indices), 0 <= npos_new(k) and "
        f"npos_new(k) < len({N}) and {N}[npos_new(k)] == indices[k])",
        # and nothing else
        f"forall(p, 0, len({N}), "
        f"exists(j, 0, old(len({N})), {N}[p] == old({N})[j]) or "
        f"exists(k, 0, len(indices), {N}[p] == indices[k]))",
    ],
)

contract(
    INS, "OrderedSamples.update_log_likelihood_threshold", props=["C04"],
    params={"threshold": "Real"},
    modifies=["self.log_likelihood_threshold"],
    ensures=["self.log_likelihood_threshold == threshold"],
)

ADD_GHOST = dict(PERM)
ADD_GHOST.update({"posold": "Int->Int", "posnew": "Int->Int",
                  "lpos_old": "Int->Int", "lpos_new": "Int->Int",
                  "isnew": "Int->Bool", "srcnew": "Int->Int",
                  "srcold": "Int->Int"})

contract(
    INS, "OrderedSamples.add_samples", props=["C04", "C03"],
    params={"samples": INS_ARR, "log_q": "Tbl(QRow)"},
    requires=REP_INV + [
        "len(log_q) == len(samples)",
        # np.max of an empty index array raises: batches are non-empty
        "len(samples) >= 1",
    ],
    modifies=["self.samples", "self.log_q", "self.live_points_indices",
              "self.nested_samples_indices"],
    ghost_funcs=ADD_GHOST,
    bind_ghost={"perm": "call:OrderedSamples.sort_samples.perm",
                "perminv": "call:OrderedSamples.sort_samples.perminv",
                "posold": "inserts[0].posold", "posnew": "inserts[0].posnew",
                "isnew": "inserts[0].isnew", "srcnew": "inserts[0].srcnew",
                "srcold": "inserts[0].srcold",
                "lpos_old": "last_insert.posold",
                "lpos_new": "last_insert.posnew"},
    may_raise={"RuntimeError": "False"},
    hints=[("after_call", "get_inverse_indices",
            "lemma_unique_enum(result)")],
    ensures=REP_INV + PERM_ENS + [
        "len(self.samples) == old(len(self.samples)) + len(samples)",
        # whole view: every old pair is still there, unmodified, with its
        # density row; every new pair is there with its row
        "forall(j, 0, old(len(self.samples)), 0 <= posold(j) and "
        "posold(j) < len(self.samples) and "
        "row_eq(self.samples[posold(j)], old(self.samples)[j]) and "
        "self.log_q[posold(j)] == old(self.log_q)[j])",
        "forall(k, 0, len(samples), 0 <= posnew(k) and "
        "posnew(k) < len(self.samples) and "
        "row_eq(self.samples[posnew(k)], samples[perm(k)]) and "
        "self.log_q[posnew(k)] == log_q[perm(k)])",
        "forall2(j, old(len(self.samples)), k, len(samples), "
        "posold(j) != posnew(k))",
        "forall((j, j2), 0, old(len(self.samples)), "
        "implies(j < j2, posold(j) < posold(j2)))",
        # soft threshold: membership of every old sample is preserved and
        # the new samples join the live set
        f"implies(not self.strict_threshold, len({N}) == old(len({N})) and "
        f"forall(i, 0, len({N}), {N}[i] == posold(old({N})[i])))",
        f"implies(not self.strict_threshold and old({L}) is not None, "
        f"{L} is not None and "
        f"len({L}) == old(len({L})) + len(samples) and "
        f"forall(i, 0, old(len({L})), {L}[lpos_old(i)] == "
        f"posold(old({L})[i])) and "
        f"forall(k, 0, len(samples), {L}[lpos_new(k)] == posnew(k)))",
        # strict threshold: live = exactly the samples at or above it
        f"implies(self.strict_threshold, {L} is not None and "
        f"forall(i, 0, len({N}), {N}[i] == i) and "
        f"forall(i, 0, len({L}), {L}[i] == len({N}) + i))",
        f"implies(self.strict_threshold and "
        f"self.samples[len(self.samples) - 1]['logL'] >= "
        f"self.log_likelihood_threshold, "
        f"forall(i, 0, len({N}), self.samples[{N}[i]]['logL'] < "
        f"self.log_likelihood_threshold) and "
        f"forall(i, 0, len({L}), self.samples[{L}[i]]['logL'] >= "
        f"self.log_likelihood_threshold))",
        # ... and nothing else: every stored pair is an old or a new one,
        # with explicit inverse maps (C03 carries its per-row invariant
        # through this clause)
        "forall(p, 0, len(self.samples), "
        "(isnew(p) and 0 <= srcnew(p) and srcnew(p) < len(samples) and "
        "posnew(srcnew(p)) == p) or "
        "(not isnew(p) and 0 <= srcold(p) and "
        "srcold(p) < old(len(self.samples)) and posold(srcold(p)) == p))",
    ],
)

contract(
    INS, "OrderedSamples.remove_samples", props=["C04"],
    requires=REP_INV + [f"{L} is not None",
                        # np.argmax of an empty array raises
                        f"implies(not self.replace_all, len({L}) >= 1)",
                        # the threshold is the likelihood of a live sample
                        # (established by determine_log_likelihood_threshold,
                        # C17), so the largest live sample is at/above it
                        f"implies(not self.replace_all, self.samples["
                        f"{L}[len({L}) - 1]]['logL'] >= "
                        f"self.log_likelihood_threshold)"],
    modifies=["self.live_points_indices", "self.nested_samples_indices"],
    returns="Int",
    ensures=REP_INV + [
        # replace-all: every live sample is removed
        f"implies(self.replace_all, result == old(len({L})) and "
        f"{L} is None)",
        # otherwise: the number removed = the number of live samples
        # strictly below the threshold, and they are the first `result`
        f"implies(not self.replace_all, 0 <= result and "
        f"result <= old(len({L})) and "
        f"forall(i, 0, result, self.samples[old({L})[i]]['logL'] < "
        f"self.log_likelihood_threshold))",
        # ... exactly: every other live sample is at or above it
        f"implies(not self.replace_all, result < old(len({L})) and "
        f"forall(i, result, old(len({L})), "
        f"self.samples[old({L})[i]]['logL'] >= "
        f"self.log_likelihood_threshold))",
        f"implies(not self.replace_all, {L} is not None and "
        f"len({L}) == old(len({L})) - result and "
        f"forall(i, 0, len({L}), {L}[i] == old({L})[result + i]))",
        f"len({N}) == old(len({N})) + result",
    ],
)

contract(
    INS, "OrderedSamples.finalise", props=["C04"],
    requires=REP_INV + [f"{L} is not None"],
    modifies=["self.live_points_indices", "self.nested_samples_indices"],
    ensures=REP_INV + [
        f"{L} is None",
        f"len({N}) == len(self.samples)",
    ],
)
