"""C03 / C11 / C12: what FlowModel.train leaves on disk is the flow it leaves
in memory.

The importance sampler's stored densities (log_q, logQ, logW) are computed
with the in-memory flow; after a resume the flows are reloaded from the
weights files.  For the resumed densities to be the stored ones, the file
written at the end of training must hold the parameters of the model as it
is used afterwards -- in particular AFTER `finalise()` (a resampled / LARS
base distribution re-estimates its normalisation constant there).

Ghost state: the network's parameters are summarised by an integer
`version` (any change of parameters gives a new, arbitrary value);
`ghost_saved_version` is the version `save_weights` last wrote
(torch.save(self.model.state_dict(), file))."""
from pyvc.contracts import contract, shape, Contract

FMB = "nessai/flowmodel/base.py"

# `cache`: the parameter version the eval-mode caches of the LU linear
# layers (weight and log-determinant, filled by a forward pass in eval mode)
# were computed for; -1 = empty.  train() empties them; loading a state
# dictionary does NOT.
shape("FlowNetAbs", {"version": "Int", "cache": "Int"}, methods={
    "state_dict": Contract(
        "<abstract>", "FlowNetAbs.state_dict", trusted=True,
        trusted_reason="snapshot of the parameters", returns="Int",
        ensures=["result == self.version"]),
    "load_state_dict": Contract(
        "<abstract>", "FlowNetAbs.load_state_dict", params={"sd": "Int"},
        trusted=True, trusted_reason="restores a snapshot",
        modifies=["self.version"], ensures=["self.version == sd"]),
    "finalise": Contract(
        "<abstract>", "FlowNetAbs.finalise", trusted=True,
        trusted_reason="NFlow.finalise: may change parameters (the "
        "resampled base distribution re-estimates its normalisation)",
        modifies=["self.version"]),
    "train": Contract("<abstract>", "FlowNetAbs.train", trusted=True,
                      trusted_reason="mode switch: parameters unchanged; "
                      "the eval-mode caches are dropped",
                      modifies=["self.cache"], ensures=["self.cache == -1"]),
    "eval": Contract("<abstract>", "FlowNetAbs.eval", trusted=True,
                     trusted_reason="mode switch: parameters unchanged"),
})
shape("FlowModelTrain", {
    "initialised": "Bool", "output": "Any",
    "training_config": "Dict(val_size:Real,use_dataloader:Bool,"
                       "batch_size:Int,max_epochs:Int,annealing:Bool,"
                       "patience:Int)",
    "noise_type": "Str", "noise_scale": "Real",
    "device": "Any", "inference_device": "Any",
    "model": "Obj(FlowNetAbs)", "ghost_saved_version": "Int",
    "_optimiser": "Any", "scheduler": "Any",
}, cls="FlowModel", methods={
    "initialise": Contract(
        "<abstract>", "FlowModel.initialise", trusted=True,
        trusted_reason="builds the flow and the optimiser",
        modifies=["self.initialised", "self.model", "self._optimiser"],
        ensures=["self.initialised"]),
    "move_to": Contract(
        "<abstract>", "FlowModel.move_to", params={"device": "Any"},
        trusted=True, trusted_reason="device transfer: parameters unchanged"),
    "prep_data": Contract(
        "<abstract>", "FlowModel.prep_data",
        params={"samples": "Any", "val_size": "Any", "batch_size": "Any",
                "weights": "Any", "conditional": "Any",
                "use_dataloader": "Any"}, trusted=True,
        trusted_reason="data preparation (C20): does not touch the flow",
        returns="Tuple(Any,Any,Any)"),
    "_train": Contract(
        "<abstract>", "FlowModel._train",
        params={"train_data": "Any", "noise_scale": "Any",
                "is_dataloader": "Any", "weighted": "Any",
                "is_conditional": "Any"}, trusted=True,
        trusted_reason="one epoch of optimisation (train mode): new "
        "parameters, caches dropped",
        modifies=["self.model.version", "self.model.cache"], returns="Real",
        ensures=["self.model.cache == -1"]),
    "_validate": Contract(
        "<abstract>", "FlowModel._validate",
        params={"val_data": "Any", "is_dataloader": "Any",
                "weighted": "Any", "is_conditional": "Any"}, trusted=True,
        trusted_reason="evaluation in eval mode: fills the caches for the "
        "current parameters", modifies=["self.model.cache"], returns="Real",
        ensures=["self.model.cache == self.model.version or "
                 "self.model.cache == old(self.model.cache)"]),
    "save_weights": Contract(
        "<abstract>", "FlowModel.save_weights",
        params={"weights_file": "Any"}, trusted=True,
        trusted_reason="writes self.model.state_dict() (the file protocol "
        "is C11's: contracts/c11_checkpoint.py)",
        modifies=["self.ghost_saved_version"],
        ensures=["self.ghost_saved_version == self.model.version"]),
})
contract(FMB, "FlowModel.finalise", props=["C03"], verify=False,
         inline=True)
contract(
    FMB, "FlowModel.train", props=["C03", "C08"],
    self_shape="FlowModelTrain",
    params={"samples": "Seq(Sort(X))", "weights": "Opt(Seq(Real))",
            "conditional": "None", "max_epochs": "Opt(Int)",
            "patience": "Opt(Int)", "output": "Opt(Path)",
            "val_size": "Opt(Real)", "plot": "Bool"},
    # (the epoch / patience overrides only replace configured numbers:
    # fixed to 'not given' to keep the number of paths down)
    requires=["max_epochs is None", "patience is None",
              "self.training_config['max_epochs'] >= 1"],
    opaque_callees=["compute_minimum_distances", "plot_loss"],
    # the quick tier fixes options that do not interact with the order of
    # finalise / save_weights (the thorough tier explores all of them)
    quick_requires=["self.initialised", "output is None",
                    "not self.training_config['annealing']",
                    "self.noise_type == 'constant'", "weights is None",
                    "not plot"],
    may_raise={"ValueError": None},
    modifies=["self.initialised", "self.model", "self._optimiser",
              "self.scheduler", "self.ghost_saved_version"],
    loops={0: {"inv": [], "modifies": ["self.model.version",
                                       "self.model.cache"],
               "declare": {"loss": "Real", "val_loss": "Real",
                           "epoch": "Int"}}},
    returns="Any",
    ensures=[
        # the file written last holds the flow as it is used from now on
        "self.ghost_saved_version == self.model.version",
        # C08: no stale eval-mode cache is left behind (the density of a
        # generated sample and the density evaluated at it would use
        # different weights)
        "self.model.cache == -1 or self.model.cache == self.model.version",
    ],
)
