#!/bin/sh
# seed_eval.sh <property> <worktree> <name>: confirm a seeded change (demo fails
# with it / passes without), run the property's check against the worktree,
# store the seed under /verif/seeded/<name>/.
P=$1; WT=$2; NAME=$3
cd "$WT" || exit 3
git diff -- nessai > /tmp/seed-$NAME.diff
[ -s /tmp/seed-$NAME.diff ] || { echo "no change in worktree"; exit 3; }
PYTHONPATH=$WT /venv/bin/python demo_$P.py > /tmp/seed-$NAME.with.log 2>&1; RC_WITH=$?
# (no `git stash`: the stash is shared by all worktrees of the repository)
git apply -R /tmp/seed-$NAME.diff
PYTHONPATH=$WT /venv/bin/python demo_$P.py > /tmp/seed-$NAME.without.log 2>&1; RC_WITHOUT=$?
git apply /tmp/seed-$NAME.diff
echo "demo with change: exit $RC_WITH ; without: exit $RC_WITHOUT"
NESSAI_REPO=$WT PYVC_OUT=/tmp/seed-$NAME.out /verif/vcheck $P > /tmp/seed-$NAME.check.log 2>&1; RC_CHECK=$?
grep -E "^VIOLATION|^\[" /tmp/seed-$NAME.check.log | head -6
echo "check exit: $RC_CHECK"
D=/verif/seeded/$NAME; mkdir -p $D
cp /tmp/seed-$NAME.diff $D/patch.diff; cp demo_$P.py $D/; [ -f meta.json ] && cp meta.json $D/agent_meta.json
cat > $D/meta.json <<EOM
{"property": "$P", "demo_exit_with_change": $RC_WITH, "demo_exit_without_change": $RC_WITHOUT,
 "check_cmd": "NESSAI_REPO=<tree with patch applied> ./vcheck $P", "check_exit": $RC_CHECK,
 "caught": $( [ $RC_CHECK -eq 1 ] && echo true || echo false )}
EOM
rm -rf /tmp/seed-$NAME.out
