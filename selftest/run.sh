#!/bin/sh
# Run every seeded mutant (selftest/mutants.tsv) against its property's check
# on a scratch copy outside /repo and /verif (removed afterwards).  Each must
# give exit 1.  usage: selftest/run.sh [property-filter] [jobs]
cd "$(dirname "$0")/.." || exit 3
FILTER=${1:-.}
JOBS=${2:-4}
grep -v '^#' selftest/mutants.tsv | grep -E "^$FILTER" | awk -F'\t' 'NF>=3' > /tmp/pyvc-mutlist.$$
n=0
export PYVC_MAX_REPLAYS=1
run_one() {
  P=$(printf '%s' "$1" | cut -f1); F=$(printf '%s' "$1" | cut -f2); S=$(printf '%s' "$1" | cut -f3)
  out=$(selftest/mut.sh "$P" "$F" "$S" --jobs 4 2>&1); rc=$?
  if [ $rc -eq 1 ]; then echo "CAUGHT  $P $F $S"; else echo "MISSED($rc) $P $F $S"; echo "$out" | tail -3 | sed 's/^/     /'; fi
}
while IFS= read -r line; do
  run_one "$line" &
  n=$((n+1))
  if [ $((n % JOBS)) -eq 0 ]; then wait; fi
done < /tmp/pyvc-mutlist.$$
wait
rm -f /tmp/pyvc-mutlist.$$
