#!/bin/sh
# usage: mut.sh <property> <file-relative-to-repo> <sed-expression> [vcheck args]
# Applies a seeded change to a scratch copy of the package (outside /repo and
# /verif), runs the property's check against it and removes the copy.
P=$1; F=$2; SED=$3; shift 3
S=$(mktemp -d /tmp/pyvc-mut.XXXXXX)
cp -r /repo/nessai "$S/nessai"
sed -i "$SED" "$S/$F"
if diff -q /repo/$F "$S/$F" >/dev/null; then echo "MUTATION DID NOT APPLY"; rm -rf "$S"; exit 9; fi
diff /repo/$F "$S/$F" | head -6
NESSAI_REPO=$S PYVC_OUT=$S/out /verif/vcheck "$P" "$@"; rc=$?
rm -rf "$S"
echo "exit=$rc"
exit $rc
