"""Custom replay programs registered by extra checks (run under
/venv/bin/python by replay/run.py). Return 10 = reproduced."""
import importlib


def lib_symbol(rec):
    dotted = rec["replay"]["symbol"]
    parts = dotted.split(".")
    k = len(parts)
    obj = None
    while k > 0:
        try:
            obj = importlib.import_module(".".join(parts[:k]))
            break
        except Exception:
            k -= 1
    try:
        for p in parts[k:]:
            obj = getattr(obj, p)
    except AttributeError as e:
        print(f"REPRODUCED: {dotted}: {e!r} in the installed library")
        return 10
    print(f"{dotted} exists: not reproduced")
    return 0
