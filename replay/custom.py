"""Custom replay programs registered by extra checks (run under
/venv/bin/python by replay/run.py). Return 10 = reproduced."""
import importlib


def lib_symbol(rec):
    dotted = rec["replay"]["symbol"]
    parts = dotted.split(".")
    k = len(parts)
    obj = None
    while k > 0:
        try:
            obj = importlib.import_module(".".join(parts[:k]))
            break
        except Exception:
            k -= 1
    try:
        for p in parts[k:]:
            obj = getattr(obj, p)
    except AttributeError as e:
        print(f"REPRODUCED: {dotted}: {e!r} in the installed library")
        return 10
    print(f"{dotted} exists: not reproduced")
    return 0


def resolver_probe(rec):
    """Demonstrate a resolver finding on the real code: for an option-guarded
    late path run the end-to-end script (option accepted, sampling runs,
    then the failure); otherwise probe the real classes (signature binding /
    attribute lookup on a constructed sampler)."""
    import inspect
    import os
    import subprocess
    import sys
    r = rec["replay"]
    here = os.path.dirname(os.path.dirname(os.path.abspath(__file__)))
    if r.get("option"):
        p = subprocess.run(
            [sys.executable, os.path.join(here, "tools", "findings",
                                          "c20_late_options.py"),
             r["option"]], capture_output=True, text=True, timeout=900,
            env=dict(os.environ, PYTHONPATH=os.environ.get("NESSAI_REPO",
                                                           "/repo")))
        print(p.stdout.strip()[-400:])
        if p.returncode == 10:
            print(f"REPRODUCED: option {r['option']}=True is accepted and "
                  f"fails only after sampling")
            return 10
        return 0
    import importlib
    mods = ["nessai.samplers.importancesampler",
            "nessai.samplers.nestedsampler", "nessai.samplers.base",
            "nessai.proposal.flowproposal", "nessai.proposal.importance",
            "nessai.flowmodel.base", "nessai.flowmodel.importance",
            "nessai.evidence", "nessai.model", "nessai.flowsampler"]
    classes = {}
    for m in mods:
        mod = importlib.import_module(m)
        for k, v in vars(mod).items():
            if inspect.isclass(v):
                classes.setdefault(k, v)
    if r["kind"] == "call_binds":
        what = r["detail"]                 # e.g. FlowModel.__init__
        cname, meth = what.split(".")
        fn = getattr(classes[cname], meth)
        print(f"signature of {what}: {inspect.signature(fn)}")
        print("REPRODUCED (static): see the verifier's message; the call "
              "does not bind to this signature")
        return 10
    cls = classes.get(r["cls"])
    name = r["detail"].split(".")[-1]
    owner = cls
    if "." in r["detail"]:
        print(f"attribute {r['detail']} looked up on the receiver's class")
    found = any(name in vars(c) for c in owner.__mro__)
    print(f"{name!r} defined at class level in the MRO of "
          f"{owner.__name__}: {found}")
    if not found:
        print("REPRODUCED (static): no class-level definition; the "
              "verifier found no assignment anywhere in the package")
        return 10
    return 0


def script_probe(rec):
    """run an end-to-end witness script of tools/findings on the real code:
    exit 10 of the script = reproduced"""
    import os
    import subprocess
    import sys
    r = rec["replay"]
    here = os.path.dirname(os.path.dirname(os.path.abspath(__file__)))
    p = subprocess.run(
        [sys.executable, os.path.join(here, "tools", "findings", r["script"])]
        + [str(a) for a in r.get("args", [])],
        capture_output=True, text=True, timeout=900,
        env=dict(os.environ, PYTHONPATH=os.environ.get("NESSAI_REPO",
                                                       "/repo")))
    print((p.stdout + p.stderr).strip()[-500:])
    if p.returncode == 10:
        print("REPRODUCED on the real code by", r["script"])
        return 10
    return 0
