"""Custom replay programs registered by extra checks (run under
/venv/bin/python by replay/run.py). Return 10 = reproduced."""
import importlib


def lib_symbol(rec):
    dotted = rec["replay"]["symbol"]
    parts = dotted.split(".")
    k = len(parts)
    obj = None
    while k > 0:
        try:
            obj = importlib.import_module(".".join(parts[:k]))
            break
        except Exception:
            k -= 1
    try:
        for p in parts[k:]:
            obj = getattr(obj, p)
    except AttributeError as e:
        print(f"REPRODUCED: {dotted}: {e!r} in the installed library")
        return 10
    print(f"{dotted} exists: not reproduced")
    return 0


def resolver_probe(rec):
    """Demonstrate a resolver finding on the real code: for an option-guarded
    late path run the end-to-end script (option accepted, sampling runs,
    then the failure); otherwise probe the real classes (signature binding /
    attribute lookup on a constructed sampler)."""
    import inspect
    import os
    import subprocess
    import sys
    r = rec["replay"]
    here = os.path.dirname(os.path.dirname(os.path.abspath(__file__)))
    if r.get("option"):
        p = subprocess.run(
            [sys.executable, os.path.join(here, "tools", "findings",
                                          "c20_late_options.py"),
             r["option"]], capture_output=True, text=True, timeout=900,
            env=dict(os.environ, PYTHONPATH=os.environ.get("NESSAI_REPO",
                                                           "/repo")))
        print(p.stdout.strip()[-400:])
        if p.returncode == 10:
            print(f"REPRODUCED: option {r['option']}=True is accepted and "
                  f"fails only after sampling")
            return 10
        return 0
    import importlib
    mods = ["nessai.samplers.importancesampler",
            "nessai.samplers.nestedsampler", "nessai.samplers.base",
            "nessai.proposal.flowproposal", "nessai.proposal.importance",
            "nessai.flowmodel.base", "nessai.flowmodel.importance",
            "nessai.evidence", "nessai.model", "nessai.flowsampler"]
    classes = {}
    for m in mods:
        mod = importlib.import_module(m)
        for k, v in vars(mod).items():
            if inspect.isclass(v):
                classes.setdefault(k, v)
    if r["kind"] == "call_binds":
        what = r["detail"]                 # e.g. FlowModel.__init__
        cname, meth = what.split(".")
        fn = getattr(classes[cname], meth)
        print(f"signature of {what}: {inspect.signature(fn)}")
        print("REPRODUCED (static): see the verifier's message; the call "
              "does not bind to this signature")
        return 10
    cls = classes.get(r["cls"])
    name = r["detail"].split(".")[-1]
    owner = cls
    if "." in r["detail"]:
        print(f"attribute {r['detail']} looked up on the receiver's class")
    found = any(name in vars(c) for c in owner.__mro__)
    print(f"{name!r} defined at class level in the MRO of "
          f"{owner.__name__}: {found}")
    if not found:
        print("REPRODUCED (static): no class-level definition; the "
              "verifier found no assignment anywhere in the package")
        return 10
    return 0


def script_probe(rec):
    """run an end-to-end witness script of tools/findings on the real code:
    exit 10 of the script = reproduced"""
    import os
    import subprocess
    import sys
    r = rec["replay"]
    here = os.path.dirname(os.path.dirname(os.path.abspath(__file__)))
    p = subprocess.run(
        [sys.executable, os.path.join(here, "tools", "findings", r["script"])]
        + [str(a) for a in r.get("args", [])],
        capture_output=True, text=True, timeout=900,
        env=dict(os.environ, PYTHONPATH=os.environ.get("NESSAI_REPO",
                                                       "/repo")))
    print((p.stdout + p.stderr).strip()[-500:])
    if p.returncode == 10:
        print("REPRODUCED on the real code by", r["script"])
        return 10
    return 0


def rescale_init(rec):
    """C07: construct the real RescaleToBounds with the option combinations
    the constructor's contract ranges over (prior None / 'uniform' / other,
    update_bounds on / off, the post-rescaling of the failed variant) and
    evaluate the same contract strings on the constructed object."""
    import sys
    sys.path.insert(0, "/verif")
    from pyvc import contracts as C
    from replay.run import eval_spec
    from nessai.reparameterisations.rescale import RescaleToBounds
    C.load_all()
    key = rec.get("contract_key") or rec["function"]
    con = [c for c in C.CONTRACTS.values() if c.key[1] == key][0]
    post = con.params["post_rescaling"]
    post = post[1] if isinstance(post, tuple) else None
    bad = n = 0
    for prior in (None, "uniform", "other"):
        for upd in (False, True):
            n += 1
            env = {"prior": prior, "update_bounds": upd,
                   "post_rescaling": post}
            desc = f"RescaleToBounds(prior={prior!r}, update_bounds={upd}, " \
                   f"post_rescaling={post!r})"
            try:
                obj = RescaleToBounds(
                    parameters=["a", "b"],
                    prior_bounds={"a": [0.0, 1.0], "b": [-1.0, 3.0]},
                    prior=prior, update_bounds=upd, post_rescaling=post)
            except Exception as ex:                       # noqa: BLE001
                cond = con.raises.get(type(ex).__name__)
                if cond is None or not eval_spec(cond, env, env, None):
                    print(f"REPRODUCED: {desc} raised "
                          f"{type(ex).__name__}: {ex}")
                    bad += 1
                continue
            if any(eval_spec(c, env, env, None)
                   for c in con.raises.values()):
                print(f"REPRODUCED: {desc} did not raise")
                bad += 1
                continue
            env["self"] = obj
            for j, e in enumerate(con.ensures):
                try:
                    ok = eval_spec(e, env, env, None)
                except Exception as ex:                   # noqa: BLE001
                    print(f"ensures[{j}] not evaluable: {ex!r}")
                    continue
                if not ok:
                    print(f"REPRODUCED: {desc}: ensures[{j}] is false on "
                          f"the real object: {e}")
                    bad += 1
    if bad:
        return 10
    print(f"{n} constructions satisfy the contract: not reproduced")
    return 0
