"""C08 replay: a concrete instance of the abstract flow, run on the real code.

The contracts of C08 are proved for *every* bijection Tf/Ti with log-Jacobians
Dj/Di, base density Bz, alternative density AltB and reparameterisation
Rf/Ri/RJ/RiJ.  A failed obligation is replayed here on one concrete instance:

    data, latent and physical space = R (arrays of shape (n, 1))
    Tf(x) = 2x + 1           Dj(x) = log 2     Ti(z) = (z-1)/2   Di = -log 2
    Bz(z)  = standard normal log-density, NaN for z > 50 (to exercise the
             discard-non-finite branch with a real non-finite density)
    AltB(z) = -|z|
    Rf(p) = 3p - 2           RJ(p) = log 3     Ri(x) = (x+2)/3   RiJ = -log 3
    InBounds(p) = p > -1

built from the package's own classes (nessai.flows.base.NFlow around a
glasflow Transform / Distribution, nessai.flowmodel.base.FlowModel,
nessai.proposal.flowproposal.FlowProposal; only rescale / inverse_rescale /
model.in_bounds are the concrete stand-ins above).  The function named by the
failed obligation is run on a small-scope enumeration of batches (sizes 0..3
over a grid that contains out-of-bounds points and points with a non-finite
density, alt_dist absent / present) and the *same contract strings* are
evaluated on what it returns.  exit 10 = a postcondition is false or the real
code raised; 0 = every scenario satisfied the contract."""
import itertools
import math
import sys
import traceback

import numpy as np

LOG2, LOG3 = math.log(2.0), math.log(3.0)


class T(float):
    """float with tolerant equality (float32 flows)"""

    def __eq__(self, o):
        try:
            o = float(o)
        except Exception:
            return NotImplemented
        a = float(self)
        if math.isnan(a) or math.isnan(o):
            return math.isnan(a) and math.isnan(o)
        if math.isinf(a) or math.isinf(o):
            return a == o
        return abs(a - o) <= 1e-4 * (1 + abs(a) + abs(o))

    def __ne__(self, o):
        return not self.__eq__(o)

    __hash__ = float.__hash__


def Tf(x): return 2 * float(x) + 1
def Dj(x): return LOG2
def Ti(z): return (float(z) - 1) / 2
def Di(z): return -LOG2


def Bz(z):
    z = float(z)
    if z > 50:
        return float("nan")
    return -0.5 * z * z - 0.5 * math.log(2 * math.pi)


def AltB(z): return -abs(float(z))
def Rf(p): return 3 * float(p) - 2
def RJ(p): return LOG3
def Ri(x): return (float(x) + 2) / 3
def RiJ(x): return -LOG3
def InBounds(p): return float(p) > -1


def _veq(a, b):
    """== of the contract strings: tolerant on reals (float32 flows)"""
    if isinstance(a, bool) or isinstance(b, bool) or a is None or b is None:
        return a == b
    try:
        return T(a) == float(b)
    except Exception:
        return a == b


NS = dict(_veq=_veq, Tf=Tf, Dj=Dj, Ti=Ti, Di=Di, Bz=Bz, AltB=AltB, Rf=Rf, RJ=RJ, Ri=Ri,
          RiJ=RiJ, InBounds=InBounds)


def build_flow():
    import torch
    from glasflow.nflows.transforms import Transform
    from glasflow.nflows.distributions import Distribution
    from nessai.flows.base import NFlow

    class Affine(Transform):
        def forward(self, inputs, context=None):
            return 2 * inputs + 1, torch.full((inputs.shape[0],), LOG2)

        def inverse(self, inputs, context=None):
            return (inputs - 1) / 2, torch.full((inputs.shape[0],), -LOG2)

    class Base(Distribution):
        def _log_prob(self, inputs, context):
            z = inputs[:, 0]
            lp = -0.5 * z ** 2 - 0.5 * math.log(2 * math.pi)
            return torch.where(z > 50, torch.full_like(lp, float("nan")), lp)

        def _sample(self, num_samples, context):
            return torch.randn(num_samples, 1)

    return NFlow(Affine(), Base())


def build_flowmodel():
    from nessai.flowmodel.base import FlowModel
    fm = object.__new__(FlowModel)
    fm.model = build_flow()
    fm.model.device = "cpu"
    return fm


class AltDist:
    def log_prob(self, z):
        return -z[:, 0].abs()


def build_proposal(alt):
    from nessai.proposal.flowproposal import FlowProposal
    from nessai.livepoint import get_dtype, empty_structured_array

    class M:
        def in_bounds(self, x):
            return x["p"] > -1

    p = object.__new__(FlowProposal)
    p.flow = build_flowmodel()
    p.alt_dist = AltDist() if alt else None
    p.prime_parameters = ["p_prime"]
    p.model = M()
    xd = get_dtype(["p"])
    xpd = get_dtype(["p_prime"])

    def rescale(x, compute_radius=False, **kw):
        xp = empty_structured_array(x.size, dtype=xpd)
        xp["p_prime"] = 3 * x["p"] - 2
        return xp, np.full(x.size, LOG3)

    def inverse_rescale(xp, **kw):
        x = empty_structured_array(xp.size, dtype=xd)
        x["p"] = (xp["p_prime"] + 2) / 3
        return x, np.full(xp.size, -LOG3)

    p.rescale, p.inverse_rescale = rescale, inverse_rescale
    return p, xd


def pts(a):
    """abstract view of an array of points / of reals: list of T"""
    if a is None:
        return None
    if hasattr(a, "detach"):
        a = a.detach().cpu().numpy()
    a = np.asarray(a)
    if a.dtype.names:
        name = [n for n in a.dtype.names if n.startswith("p")][0]
        a = a[name]
    return [T(v) for v in a.reshape(len(a), -1)[:, 0]] if a.size else []


def view(v):
    if isinstance(v, tuple):
        return tuple(view(x) for x in v)
    if isinstance(v, (np.ndarray,)) or hasattr(v, "detach"):
        return pts(v)
    return v


GRID = [0.3, -0.7, 2.5, 120.0, -9.0]      # 120: non-finite base density;
#                                           -9 -> out of bounds after Ri(Ti)


def batches(maxn=3):
    for n in range(0, maxn + 1):
        for vals in itertools.product(GRID, repeat=n):
            yield np.array(vals, dtype=float).reshape(n, 1)


def scenarios(func, contract_key):
    """yield (description, callable, env-for-the-contract)"""
    import torch
    variant = contract_key.split("#")[1] if "#" in contract_key else None
    if func.startswith("NFlow."):
        name = func.split(".")[1]
        for b in batches():
            fl = build_flow()
            t = torch.tensor(b, dtype=torch.get_default_dtype())
            if name in ("forward", "log_prob", "forward_and_log_prob"):
                key = "inputs" if name == "log_prob" else "x"
                yield (f"{func}({b.ravel().tolist()})",
                       lambda fl=fl, t=t: getattr(fl, name)(t),
                       {"self": fl, key: pts(b), "context": None})
            elif name in ("inverse", "base_distribution_log_prob"):
                yield (f"{func}({b.ravel().tolist()})",
                       lambda fl=fl, t=t: getattr(fl, name)(t),
                       {"self": fl, "z": pts(b), "context": None})
        if name in ("sample_and_log_prob", "sample"):
            for n in (1, 4):
                fl = build_flow()
                key = "N" if name == "sample_and_log_prob" else "num_samples"
                yield (f"{func}({n})", lambda fl=fl, n=n:
                       getattr(fl, name)(n), {"self": fl, key: n,
                                               "context": None})
        return
    if func.startswith("FlowModel."):
        name = func.split(".")[1]
        if name in ("log_prob", "forward_and_log_prob"):
            for b in batches():
                fm = build_flowmodel()
                fm.model.train()
                yield (f"{func}({b.ravel().tolist()})",
                       lambda fm=fm, b=b: getattr(fm, name)(b.copy()),
                       {"self": fm, "x": pts(b), "conditional": None})
        elif name == "sample_and_log_prob":
            for n in (1, 4):
                fm = build_flowmodel()
                fm.model.train()
                yield (f"{func}(N={n})", lambda fm=fm, n=n:
                       fm.sample_and_log_prob(N=n),
                       {"self": fm, "N": n, "z": None, "alt_dist": None,
                        "conditional": None})
            for b in batches():
                for alt in (None, AltDist()):
                    for as_tensor in (False, True):
                        fm = build_flowmodel()
                        z = torch.tensor(b, dtype=torch.get_default_dtype()) \
                            if as_tensor else b.copy()
                        yield (f"{func}(z={b.ravel().tolist()}, alt_dist="
                               f"{'given' if alt else None}, tensor="
                               f"{as_tensor})",
                               lambda fm=fm, z=z, alt=alt:
                               fm.sample_and_log_prob(z=z, alt_dist=alt),
                               {"self": fm, "N": 1, "z": pts(b),
                                "alt_dist": alt, "conditional": None})
        return
    if func == "FlowProposal.forward_pass":
        for b in batches():
            for alt in (False,):
                p, xd = build_proposal(alt)
                from nessai.livepoint import empty_structured_array
                x = empty_structured_array(len(b), dtype=xd)
                x["p"] = b[:, 0]
                yield (f"{func}({b.ravel().tolist()})",
                       lambda p=p, x=x: p.forward_pass(x.copy(),
                                                       rescale=True),
                       {"self": p, "x": pts(x), "rescale": True,
                        "compute_radius": True})
        return
    if func == "FlowProposal.backward_pass":
        rz = variant != "no-z"
        for b in batches():
            for alt in (False, True):
                for dn in ((True,) if rz else (True, False)):
                    p, xd = build_proposal(alt)
                    yield (f"{func}(z={b.ravel().tolist()}, alt_dist="
                           f"{'given' if alt else None}, discard_nans={dn}, "
                           f"return_z={rz})",
                           lambda p=p, b=b, dn=dn: p.backward_pass(
                               b.copy(), rescale=True, discard_nans=dn,
                               return_z=rz),
                           {"self": p, "z": pts(b), "rescale": True,
                            "discard_nans": dn, "return_z": rz})
        return


class SelfView:
    """attribute view of the real object for the contract expressions"""

    def __init__(self, o):
        self._o = o

    def __getattr__(self, n):
        v = getattr(self._o, n)
        if hasattr(v, "__dict__") and not callable(v):
            return SelfView(v)
        return v


def flow_replay(rec):
    sys.path.insert(0, "/verif")
    from pyvc import contracts as C
    from replay.run import eval_spec
    C.load_all()
    key = rec.get("contract_key") or rec["function"]
    con = [c for c in C.CONTRACTS.values()
           if c.key[1] == key and "C08" in c.props]
    if not con:
        print(f"no C08 contract {key}")
        return 3
    con = con[0]
    n = bad = 0
    for desc, call, env in scenarios(con.func, key):
        n += 1
        old = dict(env)
        try:
            res = call()
        except Exception as ex:
            print(f"REPRODUCED: {desc}: real code raised "
                  f"{type(ex).__name__}: {ex}")
            traceback.print_exc(limit=3, file=sys.stdout)
            return 10
        env = dict(env)
        env["self"] = SelfView(env["self"])
        old["self"] = env["self"]
        r = view(res)
        for j, e in enumerate(con.ensures):
            try:
                ok = eval_spec(e, env, old, r, NS)
            except Exception as ex:
                print(f"ensures[{j}] not evaluable on {desc}: {ex!r}")
                continue
            if not ok:
                print(f"REPRODUCED: {desc}: ensures[{j}] is false on the "
                      f"real code: {e}")
                print("  returned:", r)
                bad += 1
        if bad:
            return 10
    if n == 0:
        print(f"no concrete scenario generator for {key}")
        return 0
    print(f"concrete affine-flow instance: {n} scenarios of {key} satisfy "
          f"every postcondition on the real code: not reproduced")
    return 0
