"""C11 replay: kill the process right after a given statement of a
checkpoint-writing function (real code, child process, sys.settrace +
os._exit; for the in-place weights write the kill lands in the middle of
torch.save), then run the real recovery path on what is left on disk.
Exit 10 = recovery fails or loads something that is neither the previous nor
the new checkpoint."""
import os
import pickle
import shutil
import subprocess
import sys
import tempfile

CHILD = r'''
import os, sys, pickle
target, line, end_line, mid, d, save_existing = sys.argv[1], int(sys.argv[2]), int(sys.argv[3]), sys.argv[4] == "1", sys.argv[5], sys.argv[6] == "1"
import importlib
if target == "safe_file_dump":
    import nessai.utils.io as m
    fn = m.safe_file_dump
    call = lambda: fn("NEW", os.path.join(d, "ckpt.pkl"), pickle, save_existing=save_existing)
elif target == "FlowModel.save_weights":
    import torch
    from nessai.flowmodel.base import FlowModel
    fm = object.__new__(FlowModel)
    fm.model = torch.nn.Linear(4, 4)
    fn = FlowModel.save_weights
    if mid:
        real = torch.save
        def torn(obj, path, *a, **k):
            import io
            buf = io.BytesIO(); real(obj, buf)
            with open(path, "wb") as fh:
                fh.write(buf.getvalue()[: len(buf.getvalue()) // 2]); fh.flush()
            os._exit(77)
        torch.save = torn
    call = lambda: fn(fm, os.path.join(d, "model.pt"))
else:
    sys.exit(3)
code = fn.__code__
state = {"armed": False}
def local(frame, event, arg):
    if event == "line":
        ln = frame.f_lineno
        if state["armed"] and not (line <= ln <= end_line):
            os._exit(77)
        if ln == line:
            state["armed"] = True
    elif event == "return" and state["armed"]:
        os._exit(77)
    return local
def tracer(frame, event, arg):
    return local if frame.f_code is code else None
if not mid:
    sys.settrace(tracer)
call()
os._exit(0)
'''


def _recover_checkpoint(d):
    """the real recovery path: FlowSampler.check_resume +
    FlowSampler._resume_from_file with a sampler class whose `resume` is
    the real open + pickle.load"""
    from nessai.flowsampler import FlowSampler

    class S:
        @classmethod
        def resume(cls, filename, model, **kw):
            with open(filename, "rb") as f:
                return pickle.load(f)

    fs = object.__new__(FlowSampler)
    fs.output = d
    if not FlowSampler.check_resume(fs, "ckpt.pkl", None):
        return "start-afresh"
    return FlowSampler._resume_from_file(fs, S, "ckpt.pkl", None, None, None)


def crash_replay(rec):
    r = rec["replay"]
    target = r["target_func"]
    if target not in ("safe_file_dump", "FlowModel.save_weights"):
        print(f"no crash replay program for {target}")
        return 0
    bad = []
    for save_existing in (True, False):
        for initial in ("prev", "prev+old", "none", "old-only"):
            d = tempfile.mkdtemp(prefix="pyvc-c11-")
            try:
                if target == "safe_file_dump":
                    f = os.path.join(d, "ckpt.pkl")
                    if initial in ("prev", "prev+old"):
                        pickle.dump("PREV", open(f, "wb"))
                    if initial == "prev+old":
                        pickle.dump("OLDER", open(f + ".old", "wb"))
                    if initial == "old-only":
                        pickle.dump("PREV", open(f + ".old", "wb"))
                else:
                    import torch
                    f = os.path.join(d, "model.pt")
                    if initial in ("prev", "prev+old"):
                        torch.save({"w": torch.zeros(2)}, f)
                    if initial in ("prev+old", "old-only"):
                        torch.save({"w": torch.ones(2)}, f + ".old")
                p = subprocess.run(
                    [sys.executable, "-c", CHILD, target, str(r["line"]),
                     str(r["end_line"]), "1" if r.get("mid_write") else "0",
                     d, "1" if save_existing else "0"],
                    capture_output=True, text=True, timeout=300,
                    env=dict(os.environ, PYTHONPATH=os.environ.get(
                        "NESSAI_REPO", "/repo")))
                if p.returncode != 77:
                    continue            # the statement was not reached
                had_any = initial != "none"
                if target == "safe_file_dump":
                    try:
                        got = _recover_checkpoint(d)
                    except Exception as ex:     # noqa: BLE001
                        bad.append(f"[{initial}, save_existing="
                                   f"{save_existing}] recovery raised "
                                   f"{type(ex).__name__}: {ex}")
                        continue
                    ok = got in ("PREV", "NEW") if had_any else \
                        got in ("start-afresh", "NEW")
                    if not ok:
                        bad.append(f"[{initial}, save_existing="
                                   f"{save_existing}] recovery gave {got!r}; "
                                   f"files: {sorted(os.listdir(d))}")
                else:
                    import torch
                    # FlowProposal.resume: load weights_file if it exists
                    try:
                        if os.path.exists(f):
                            torch.load(f)
                        elif had_any:
                            bad.append(f"[{initial}] weights file named by "
                                       f"the checkpoint is missing; files: "
                                       f"{sorted(os.listdir(d))}")
                    except Exception as ex:     # noqa: BLE001
                        bad.append(f"[{initial}] loading the weights file "
                                   f"raised {type(ex).__name__}: "
                                   f"{str(ex)[:120]}")
            finally:
                shutil.rmtree(d, ignore_errors=True)
    if bad:
        for b in bad:
            print("REPRODUCED:", b)
        return 10
    print("recovery succeeded from every scenario: not reproduced")
    return 0


WCHILD = r'''
import os, sys, io, torch
from nessai.flowmodel.base import FlowModel
d, where = sys.argv[1], sys.argv[2]
fm = object.__new__(FlowModel)
fm.model = torch.nn.Linear(3, 3)
with torch.no_grad():
    fm.model.weight.fill_(2.0); fm.model.bias.fill_(2.0)      # "NEW"
real_save = torch.save
if where.startswith("mid-write"):
    # killed after `nbytes` bytes of the in-place write reached the file
    # (torch.load fails differently on 0, 1-3 and more bytes)
    nb = where.split(":")[1]
    def torn(obj, path, *a, **k):
        buf = io.BytesIO(); real_save(obj, buf)
        n = len(buf.getvalue()) // 2 if nb == "half" else int(nb)
        with open(path, "wb") as fh:
            fh.write(buf.getvalue()[:n]); fh.flush()
        os._exit(77)
    torch.save = torn
else:                                   # killed right after the move
    def gone(obj, path, *a, **k):
        os._exit(77)
    torch.save = gone
FlowModel.save_weights(fm, os.path.join(d, "model.pt"))
os._exit(0)
'''


def weights_recovery_replay(rec):
    """kill the real FlowModel.save_weights (a) in the middle of torch.save,
    (b) between the move to .old and the write; then run the real
    FlowProposal.resume weights logic on what is left on disk."""
    import torch
    from nessai.flowmodel.base import FlowModel
    from nessai.proposal.flowproposal import FlowProposal
    bad = []
    for where in ("mid-write:0", "mid-write:1", "mid-write:2",
                  "mid-write:3", "mid-write:4", "mid-write:half",
                  "after-move"):
        d = tempfile.mkdtemp(prefix="pyvc-c11w-")
        try:
            f = os.path.join(d, "model.pt")
            prev = torch.nn.Linear(3, 3)
            with torch.no_grad():
                prev.weight.fill_(1.0)
                prev.bias.fill_(1.0)                      # "PREV"
            torch.save(prev.state_dict(), f)
            p = subprocess.run(
                [sys.executable, "-c", WCHILD, d, where],
                capture_output=True, text=True, timeout=300,
                env=dict(os.environ, PYTHONPATH=os.environ.get(
                    "NESSAI_REPO", "/repo")))
            if p.returncode != 77:
                bad.append(f"[{where}] child did not reach the kill point: "
                           f"{p.stderr[-200:]}")
                continue
            prop = object.__new__(FlowProposal)
            prop.mask = None
            prop.weights_file = f            # what the checkpoint names
            prop.initialise = lambda resumed=False: None
            fm = object.__new__(FlowModel)
            fm.model = torch.nn.Linear(3, 3)
            fm.initialised = True
            fm.weights_file = None
            prop.flow = fm
            try:
                FlowProposal.resume(prop, object(), {})
            except Exception as ex:        # noqa: BLE001
                bad.append(f"[{where}] FlowProposal.resume raised "
                           f"{type(ex).__name__}: {str(ex)[:100]}; files: "
                           f"{sorted(os.listdir(d))}")
                continue
            w = float(fm.model.weight.detach().flatten()[0])
            if w not in (1.0, 2.0):
                bad.append(f"[{where}] no saved weights were installed "
                           f"(weight[0]={w:.3f}, expected the previous 1.0 "
                           f"or the new 2.0); files: "
                           f"{sorted(os.listdir(d))}")
                continue
            # second phase: the resumed run trains again and is killed in
            # the middle of ITS weights save (the state the recovery left
            # behind is the initial state of that save); recovery must work
            # again
            p2 = subprocess.run(
                [sys.executable, "-c", WCHILD, d, "mid-write:half"],
                capture_output=True, text=True, timeout=300,
                env=dict(os.environ, PYTHONPATH=os.environ.get(
                    "NESSAI_REPO", "/repo")))
            if p2.returncode != 77:
                bad.append(f"[{where}] second save: child did not reach the "
                           f"kill point: {p2.stderr[-200:]}")
                continue
            prop2 = object.__new__(FlowProposal)
            prop2.mask = None
            prop2.weights_file = f
            prop2.initialise = lambda resumed=False: None
            fm2 = object.__new__(FlowModel)
            fm2.model = torch.nn.Linear(3, 3)
            fm2.initialised = True
            fm2.weights_file = None
            prop2.flow = fm2
            try:
                FlowProposal.resume(prop2, object(), {})
            except Exception as ex:        # noqa: BLE001
                bad.append(f"[{where}, then a kill in the middle of the "
                           f"next weights save] FlowProposal.resume raised "
                           f"{type(ex).__name__}: {str(ex)[:80]}; files: "
                           f"{sorted(os.listdir(d))} -- the first recovery "
                           f"left the torn file in place and the next save "
                           f"moved it over the only valid copy")
        finally:
            shutil.rmtree(d, ignore_errors=True)
    if bad:
        for b in bad:
            print("REPRODUCED:", b)
        return 10
    print("weights recovered in every crash scenario (kill after 0, 1, 2, 3, "
          "4, half of the bytes; kill after the move): not reproduced")
    return 0
