"""Replay a verifier counterexample against the real code.

Runs under /venv/bin/python (the interpreter the repository is installed
for).  Input: a replay record written by vcheck.  The record's concrete
inputs are turned into real numpy / python objects, callees that the proof
treated modularly are stubbed with the values the solver chose for them (so
the real *body* of the function under test runs on the solver's path), the
contract's preconditions are evaluated (a counterexample that does not
satisfy them at run time is reported as not reproduced), the real function
is called and the *same* postcondition strings are evaluated on the result.

exit 10 = the violation reproduces on the real code; exit 0 = it does not;
anything else = the harness itself failed (never counted as reproduced).
"""
from __future__ import annotations

import ast
import copy
import importlib
import json
import math
import os
import sys
import traceback

VERIF = os.path.dirname(os.path.dirname(os.path.abspath(__file__)))
REPO = os.environ.get("NESSAI_REPO", "/repo")
sys.path.insert(0, VERIF)
if REPO != "/repo":
    sys.path.insert(0, REPO)

import resource                                         # noqa: E402
try:      # a counterexample with absurd sizes must not take the machine down
    resource.setrlimit(resource.RLIMIT_AS, (8 << 30, 8 << 30))
    resource.setrlimit(resource.RLIMIT_CPU, (300, 320))
except Exception:
    pass
import numpy as np                                      # noqa: E402

from pyvc import contracts as C                         # noqa: E402
from pyvc.types import parse_type                      # noqa: E402


# ------------------------------------------------------------ value builders
class SortIds:
    def __init__(self):
        self.ids = {}

    def get(self, s):
        if s not in self.ids:
            self.ids[s] = float(len(self.ids) + 1) * 1.5
        return self.ids[s]


SORTS = SortIds()


def fnum(x):
    if isinstance(x, str):
        if x == "inf":
            return math.inf
        if x == "-inf":
            return -math.inf
        if x == "nan":
            return math.nan
        return SORTS.get(x)
    return x


def np_dtype(fields):
    out = []
    for f, ty in fields:
        if ty == "Int":
            out.append((f, "i8"))
        elif ty == "Bool":
            out.append((f, "?"))
        else:
            out.append((f, "f8"))
    return np.dtype(out)


def build(ty, js):
    p = parse_type(ty) if isinstance(ty, str) else ty
    k = p[0]
    if js is None and k not in ("None", "Any"):
        return None
    if k == "None":
        return None
    if k in ("Int", "Nat"):
        return int(js)
    if k == "Real":
        return float(fnum(js))
    if k == "Bool":
        return bool(js)
    if k == "Str":
        return js
    if k == "Sort":
        return fnum(js)
    if k == "Opt":
        return build(p[1], js)
    if k == "Any":
        return Anything()
    if k == "Seq":
        et = parse_type(p[1])[0]
        dt = {"Int": "i8", "Bool": "?"}.get(et, "f8")
        return np.array([fnum(v) for v in js], dtype=dt)
    if k == "List":
        return [build(p[1], v) for v in js]
    if k == "Struct":
        dt = np_dtype(p[1])
        n = js["__n__"]
        a = np.zeros(n, dtype=dt)
        for f, _ty in p[1]:
            a[f] = [fnum(v) for v in js["__struct__"][f]]
        return a
    if k == "Row":
        dt = np_dtype(p[1])
        a = np.zeros(1, dtype=dt)
        for f, _ty in p[1]:
            a[f] = fnum(js["__row__"][f])
        return a[0]
    if k == "PyConst":
        import ast as _ast
        return _ast.literal_eval(p[1])
    if k == "PyList":
        ety = p[1].rsplit(",", 1)[0].strip()
        return [build(ety, v) for v in js]
    if k == "Path":
        return str(js)
    if k == "Func":
        table = {fnum(a): fnum(b) for a, b in js["__func__"].items()}
        dflt = fnum(js.get("default", 0.0))

        def f(x, __t=table, __d=dflt):
            if isinstance(x, np.ndarray) and x.ndim >= 1:
                return np.array([__t.get(float(p), __d) for p in x],
                                dtype=float)
            return __t.get(float(x), __d)
        f.table, f.default = table, dflt
        return f
    if k == "Pool":
        return FakePool()
    if k == "Tbl":
        rows = js["__tbl__"] if isinstance(js, dict) else []
        return np.array([[fnum(x) for x in r] for r in rows],
                        dtype="f8").reshape(len(rows), 3)
    if k == "Tuple":
        return tuple(build(t, v) for t, v in zip(p[1], js["__tuple__"]))
    if k == "Obj":
        return build_obj(p[1], js)
    raise ValueError(f"cannot build {ty}")


class Anything:
    """Stands for a value of declared type Any (never inspected by the
    contracts): absorbs arithmetic, calls, attribute access."""

    def _s(self, *a, **k):
        return self
    __add__ = __radd__ = __iadd__ = __sub__ = __rsub__ = __isub__ = _s
    __mul__ = __rmul__ = __truediv__ = __rtruediv__ = __call__ = _s
    __getitem__ = _s

    def __getattr__(self, n):
        if n.startswith("__"):
            raise AttributeError(n)
        return self

    def __format__(self, spec):
        return "<any>"

    def __repr__(self):
        return "<any>"

    def __fspath__(self):
        return "/tmp/pyvc-replay-any"


class FakePool:
    """order-preserving pool (the assumed contract of Pool.map)"""

    def map(self, f, it):
        return [f(v) for v in it]

    def close(self):
        pass

    def join(self):
        pass


class Stub:
    """Abstract foreign object: attributes + scripted methods."""

    def __repr__(self):
        return f"<Stub {self.__dict__.get('_shape')}>"


def real_class(name):
    idx = json.load(open(os.path.join(VERIF, ".cache", "classindex.json"))) \
        if os.path.exists(os.path.join(VERIF, ".cache", "classindex.json")) \
        else {}
    return idx.get(name)


def find_class(clsname):
    for dp, _dn, fns in os.walk(os.path.join(REPO, "nessai")):
        for fn in fns:
            if not fn.endswith(".py"):
                continue
            path = os.path.join(dp, fn)
            try:
                txt = open(path).read()
            except OSError:
                continue
            if f"class {clsname}(" in txt or f"class {clsname}:" in txt:
                mod = os.path.relpath(path, REPO)[:-3].replace("/", ".")
                if mod.endswith(".__init__"):
                    mod = mod[:-9]
                try:
                    m = importlib.import_module(mod)
                    return getattr(m, clsname)
                except Exception:
                    continue
    return None


def build_obj(shape_name, js):
    sh = C.SHAPES[shape_name]
    cls = find_class(sh.cls)
    if cls is None:
        o = Stub()
        o.__dict__["_shape"] = shape_name
    else:
        try:
            o = object.__new__(cls)
        except TypeError:
            o = Stub()
    attrs = js["attrs"] if js else {}
    for a, ty in sh.attrs.items():
        v = build(ty, attrs.get(a))
        if a in ("device", "inference_device") and ty == "Any":
            v = "cpu"        # (an uninspected value torch must accept)
        try:
            o.__dict__[a] = v
        except Exception:
            setattr(o, a, v)
    return o


# ----------------------------------------------------- runtime spec evaluator
class SpecRewriter(ast.NodeTransformer):
    def __init__(self, roots):
        self.roots = roots
        self.in_old = 0

    def visit_Call(self, node):
        if isinstance(node.func, ast.Name):
            n = node.func.id
            if n == "old":
                self.in_old += 1
                inner = self.visit(node.args[0])
                self.in_old -= 1
                return inner
            if n in ("forall", "exists"):
                var, lo, hi, body = node.args
                names = [var.id] if isinstance(var, ast.Name) else \
                    [e.id for e in var.elts]
                lo, hi, body = self.visit(lo), self.visit(hi), \
                    self.visit(body)
                gens = [ast.comprehension(
                    target=ast.Name(id=v, ctx=ast.Store()),
                    iter=ast.Call(func=ast.Name(id="range", ctx=ast.Load()),
                                  args=[lo, hi], keywords=[]),
                    ifs=[], is_async=0) for v in names]
                return ast.Call(
                    func=ast.Name(id="all" if n == "forall" else "any",
                                  ctx=ast.Load()),
                    args=[ast.GeneratorExp(elt=body, generators=gens)],
                    keywords=[])
            if n == "forall2":
                i, n1, k, n2, body = node.args
                n1, n2, body = self.visit(n1), self.visit(n2), \
                    self.visit(body)
                gens = [ast.comprehension(
                    target=ast.Name(id=v.id, ctx=ast.Store()),
                    iter=ast.Call(func=ast.Name(id="range", ctx=ast.Load()),
                                  args=[nn], keywords=[]),
                    ifs=[], is_async=0) for v, nn in ((i, n1), (k, n2))]
                return ast.Call(
                    func=ast.Name(id="all", ctx=ast.Load()),
                    args=[ast.GeneratorExp(elt=body, generators=gens)],
                    keywords=[])
            if n == "Sum":
                var, lo, hi, body = node.args
                lo, hi, body = self.visit(lo), self.visit(hi), \
                    self.visit(body)
                gen = ast.comprehension(
                    target=ast.Name(id=var.id, ctx=ast.Store()),
                    iter=ast.Call(func=ast.Name(id="range", ctx=ast.Load()),
                                  args=[lo, hi], keywords=[]),
                    ifs=[], is_async=0)
                return ast.Call(
                    func=ast.Name(id="sum", ctx=ast.Load()),
                    args=[ast.GeneratorExp(elt=body, generators=[gen])],
                    keywords=[])
            if n == "implies":
                a, b = self.visit(node.args[0]), self.visit(node.args[1])
                return ast.BoolOp(op=ast.Or(), values=[
                    ast.UnaryOp(op=ast.Not(), operand=a), b])
            if n == "let":
                name = node.args[0].id
                val = self.visit(node.args[1])
                body = self.visit(node.args[2])
                lam = ast.Lambda(args=ast.arguments(
                    posonlyargs=[], args=[ast.arg(arg=name)], kwonlyargs=[],
                    kw_defaults=[], defaults=[]), body=body)
                return ast.Call(func=lam, args=[val], keywords=[])
        return self.generic_visit(node)

    def visit_Compare(self, node):
        node = self.generic_visit(node)
        if len(node.ops) == 1 and isinstance(node.ops[0], (ast.Eq,
                                                            ast.NotEq)):
            call = ast.Call(func=ast.Name(id="_veq", ctx=ast.Load()),
                            args=[node.left, node.comparators[0]],
                            keywords=[])
            if isinstance(node.ops[0], ast.NotEq):
                return ast.UnaryOp(op=ast.Not(), operand=call)
            return call
        return node

    def visit_Name(self, node):
        if self.in_old and node.id in self.roots:
            return ast.Subscript(value=ast.Name(id="__old__", ctx=ast.Load()),
                                 slice=ast.Constant(value=node.id),
                                 ctx=ast.Load())
        return node


def _eq(a, b):
    try:
        if isinstance(a, (float, np.floating)) and \
                isinstance(b, (float, int, np.floating)) or \
                isinstance(b, (float, np.floating)) and \
                isinstance(a, (int, np.floating)):
            a, b = float(a), float(b)
            # the proofs are over the reals: compare floats with a tolerance
            return a == b or (math.isnan(a) and math.isnan(b)) or \
                math.isclose(a, b, rel_tol=1e-9, abs_tol=1e-12)
        r = a == b
        if isinstance(r, np.ndarray):
            return bool(r.all())
        return bool(r)
    except Exception:
        return False


def row_eq(a, b):
    try:
        names = a.dtype.names
        if names is None:
            return _eq(a, b)
        return all(_eq(float(a[f]), float(b[f])) for f in names)
    except Exception:
        return _eq(a, b)


def _col(arr, field):
    if isinstance(arr, list):
        return [r[field] for r in arr]
    return arr[field]


def is_sorted(s):
    s = list(s)
    return all(s[i] <= s[i + 1] for i in range(len(s) - 1))


def strictly_increasing(s):
    s = list(s)
    return all(s[i] < s[i + 1] for i in range(len(s) - 1))


def _veq(a, b):
    if a is None or b is None:
        return a is None and b is None
    if isinstance(a, (np.void,)) or isinstance(b, (np.void,)):
        return row_eq(a, b)
    return _eq(a, b)


SPEC_NS = {
    "row_eq": row_eq, "_veq": _veq,
    "sorted_by": lambda arr, f: is_sorted(_col(arr, f)),
    "is_sorted": is_sorted,
    "strictly_increasing": strictly_increasing,
    "lower": lambda s: s.lower(),
    "implies": lambda a, b: (not a) or b,
    "iff": lambda a, b: bool(a) == bool(b),
    "isnan": lambda x: bool(np.isnan(x)),
    "isfinite": lambda x: bool(np.isfinite(x)),
    "INF": math.inf, "NAN": math.nan, "np": np,
    "pointwise": lambda f, p: f(p),
    "E": lambda x: float(np.exp(x)), "LOG": lambda x: float(np.log(x)),
    "real": float,
    "ext": lambda seq, v: list(seq) + [v],
    "same_function": lambda a, b: a is None or a is b or (
        getattr(a, "table", 0) == getattr(b, "table", 1)
        and getattr(a, "default", 0) == getattr(b, "default", 1)),
    "len": len, "range": range, "all": all, "any": any, "abs": abs,
    "min": min, "max": max, "int": int, "float": float, "sum": sum,
}


def eval_spec(expr, env, old, result, extra_ns=None):
    roots = set(env)
    tree = ast.parse(expr.strip(), mode="eval")
    tree = SpecRewriter(roots).visit(tree)
    ast.fix_missing_locations(tree)
    ns = dict(SPEC_NS)
    if extra_ns:
        ns.update(extra_ns)
    ns.update(env)
    ns["__old__"] = old
    ns["result"] = result
    return eval(compile(tree, "<spec>", "eval"), ns)


def deep(v, memo=None):
    """deep copy that does not go through __getstate__/__reduce__ of the
    package classes (the objects are built without __init__)."""
    memo = {} if memo is None else memo
    if id(v) in memo:
        return memo[id(v)]
    if isinstance(v, np.ndarray):
        return v.copy()
    if isinstance(v, (np.void, np.generic)):
        return copy.deepcopy(v)
    if isinstance(v, (int, float, str, bool, type(None))):
        return v
    if isinstance(v, list):
        out = []
        memo[id(v)] = out
        out.extend(deep(x, memo) for x in v)
        return out
    if isinstance(v, tuple):
        return tuple(deep(x, memo) for x in v)
    if isinstance(v, dict):
        out = {}
        memo[id(v)] = out
        for k, x in v.items():
            out[k] = deep(x, memo)
        return out
    if callable(v) and not hasattr(v, "__dict__"):
        return v
    if hasattr(v, "__dict__") and not isinstance(v, type) \
            and not callable(v):
        try:
            o = object.__new__(type(v))
        except TypeError:
            return v
        memo[id(v)] = o
        for k, x in v.__dict__.items():
            o.__dict__[k] = deep(x, memo)
        return o
    return v


# ------------------------------------------------------------------- replay
def main():
    rec = json.load(open(sys.argv[1]))
    if rec.get("replay"):
        # a custom replay program registered by an extra check
        mod = importlib.import_module(rec["replay"]["module"])
        return getattr(mod, rec["replay"]["func"])(rec)
    C.load_all()
    con = C.CONTRACTS.get((rec["file"], rec.get("contract_key") or
                           rec["function"]))
    if con is None:
        print("no contract for the function in the record")
        return 0
    if rec.get("cex") is None:
        # the verifier gave no model: look for a failing input ourselves
        # (small-scope random search against the same contract text)
        return search(con, rec)
    return replay_cex(con, rec, rec["cex"])


def rand_json(ty, rng, strings, depth=0):
    p = parse_type(ty) if isinstance(ty, str) else ty
    k = p[0]
    reals = [-2.5, -1.0, -0.5, 0.0, 0.25, 0.5, 1.0, 1.5, 3.0]
    if k in ("Int", "Nat"):
        return rng.choice([0, 1, 2, 3, 4, 5])
    if k == "Real":
        return rng.choice(reals)
    if k == "Bool":
        return rng.random() < 0.5
    if k == "Str":
        return rng.choice(strings) if strings else "x"
    if k == "Sort":
        return f"{p[1]}!val!{rng.randrange(4)}"
    if k == "Opt":
        return None if rng.random() < 0.3 else rand_json(p[1], rng, strings)
    if k in ("Any", "None", "Pool"):
        return None if k != "Pool" else {"__pool__": True}
    if k in ("Seq", "List"):
        n = rng.choice([0, 1, 1, 2, 2, 3, 4])
        if parse_type(p[1])[0] == "Real" and rng.random() < 0.5:
            vals = sorted(rng.choice(reals) for _ in range(n))
            return vals
        return [rand_json(p[1], rng, strings, depth + 1) for _ in range(n)]
    if k == "Struct":
        n = rng.choice([0, 1, 2, 3, 4])
        cols = {}
        for f, fty in p[1]:
            col = [rand_json(fty, rng, strings) for _ in range(n)]
            if f == "logL" and rng.random() < 0.7:
                col = sorted(col)
            cols[f] = col
        return {"__struct__": cols, "__n__": n}
    if k == "Row":
        return {"__row__": {f: rand_json(fty, rng, strings)
                            for f, fty in p[1]}}
    if k == "Tuple":
        return {"__tuple__": [rand_json(t, rng, strings) for t in p[1]]}
    if k == "Tbl":
        n = rng.choice([0, 1, 2, 3])
        return {"__tbl__": [[rng.choice(reals) for _ in range(3)]
                            for _ in range(n)]}
    if k == "Func":
        return {"__func__": {}, "default": rng.choice(reals)}
    if k == "Obj":
        sh = C.SHAPES[p[1]]
        return {"__obj__": sh.cls,
                "attrs": {a: rand_json(t, rng, strings, depth + 1)
                          for a, t in sh.attrs.items()}}
    raise ValueError(f"cannot generate {ty}")


def search(con, rec, trials=400):
    import random
    import re as _re
    rng = random.Random(12345)
    texts = " ".join(list(con.requires) + list(con.ensures) +
                     [str(v) for v in con.raises.values()])
    strings = sorted(set(_re.findall(r"'([A-Za-z_]+)'", texts))) + ["other"]
    if any(c for c in C.CONTRACTS.values() if False):
        pass
    tried = 0
    for _t in range(trials):
        inputs = {}
        try:
            if con.cls is not None:
                inputs["self"] = rand_json(
                    f"Obj({con.self_shape or con.cls})", rng, strings)
            for n, ty in con.params.items():
                if n.startswith("*") or (isinstance(ty, tuple) and ty and
                                         ty[0] == "const"):
                    continue
                inputs[n] = rand_json(ty, rng, strings)
        except Exception as ex:
            print(f"search: cannot generate inputs: {ex!r}")
            return 0
        cex = {"inputs": inputs, "calls": []}
        rc = replay_cex(con, rec, cex, quiet=True)
        if rc == 10:
            print("(failing input found by small-scope search over the "
                  "contract's input types; the verifier gave no model)")
            return replay_cex(con, rec, cex, quiet=False)
        if rc != 77:
            tried += 1
    print(f"small-scope search: {tried} admissible inputs of {trials} tried, "
          f"none violates the postconditions at run time")
    return 0


def replay_cex(con, rec, cex, quiet=False):
    import io
    import contextlib
    if quiet:
        buf = io.StringIO()
        with contextlib.redirect_stdout(buf):
            try:
                return _replay_cex(con, rec, cex, True)
            except Exception:
                return 3
    return _replay_cex(con, rec, cex, False)


def _replay_cex(con, rec, cex, searching):
    GHOSTS.clear()
    mod = rec["file"][:-3].replace("/", ".")
    m = importlib.import_module(mod)
    target = m
    for part in con.func.split("."):
        target = getattr(target, part)
    if isinstance(target, property):
        target = target.fget
    env = {}
    inputs = cex["inputs"]
    if con.cls is not None and "self" in inputs:
        env["self"] = build_obj(con.self_shape or con.cls, inputs["self"])
    for n, ty in con.params.items():
        if n.startswith("*"):
            continue
        if isinstance(ty, tuple) and ty and ty[0] == "const":
            env[n] = ty[1]
        else:
            env[n] = build(ty, inputs.get(n))
    # stubs for modular callees
    install_stubs(env, con, cex.get("calls", []))
    # preconditions
    for e in con.requires:
        try:
            ok = eval_spec(e, env, env, None)
        except Exception as ex:
            print(f"precondition not evaluable at run time: {e!r}: {ex!r}")
            return 77 if searching else 0
        if not ok:
            print(f"counterexample does not satisfy precondition {e!r} at "
                  f"run time (model artefact): not reproduced")
            return 77 if searching else 0
    old = {k: deep(v) for k, v in env.items()}
    args = dict(env)
    final_locals = {}
    code = getattr(target, "__code__", None)

    def prof(frame, event, arg):
        if event == "return" and frame.f_code is code:
            final_locals.clear()
            final_locals.update(frame.f_locals)
    extra_ns = {"final": lambda n: final_locals[n],
                "ghost": lambda n: GHOSTS[n]}
    print("replaying", con.func, "with",
          {k: (v if not hasattr(v, "__dict__") else
               {a: x for a, x in v.__dict__.items()
                if not a.startswith("_")})
           for k, v in args.items()})
    try:
        sys.setprofile(prof)
        try:
            if "self" in args:
                s = args.pop("self")
                result = target(s, **args)
            else:
                result = target(**args)
            if con.generator:
                result = next(result)
        finally:
            sys.setprofile(None)
    except HarnessLimit as ex:
        print(f"replay harness limit: {ex}")
        return 3
    except Exception as ex:
        name = type(ex).__name__
        tb = traceback.extract_tb(ex.__traceback__)
        if "Stub" in str(ex) or (tb and tb[-1].filename.endswith(
                os.path.join("replay", "run.py"))):
            print(f"replay harness limit: {name}: {ex}")
            traceback.print_exc(limit=6, file=sys.stdout)
            return 3
        allowed = dict(con.raises)
        allowed.update(con.extra.get("may_raise", {}))
        if name in allowed:
            cond = allowed[name]
            if cond is None or eval_spec(cond, old, old, None):
                print(f"raised {name} as the contract allows: not a "
                      f"violation")
                return 0
        print(f"REPRODUCED: real code raised {name}: {ex}")
        traceback.print_exc(limit=4, file=sys.stdout)
        return 10
    failed = []
    for j, e in enumerate(con.ensures):
        try:
            ok = eval_spec(e, env, old, result, extra_ns)
        except Exception as ex:
            print(f"ensures[{j}] not evaluable at run time: {ex!r}")
            continue
        if not ok:
            failed.append((j, e))
    if failed:
        for j, e in failed:
            print(f"REPRODUCED: ensures[{j}] is false on the real code: {e}")
        print("result =", result)
        return 10
    print("real code satisfied every postcondition on this input: not "
          "reproduced")
    return 0


def _walk_objects(env):
    seen, out, stack = set(), [], list(env.values())
    while stack:
        o = stack.pop()
        if id(o) in seen or not hasattr(o, "__dict__") or callable(o):
            continue
        seen.add(id(o))
        out.append(o)
        stack.extend(o.__dict__.values())
    return out


def _callee_contract(callee):
    c = C.BY_QUAL.get(callee)
    if c is not None:
        return c
    cls, _, meth = callee.partition(".")
    sh = C.SHAPES.get(cls)
    if sh is not None and meth in sh.methods:
        return sh.methods[meth]
    return None


def install_stubs(env, con, calls):
    """Replace modular callees by scripted stubs returning what the solver
    chose for them (in call order per callee), so that the real body of the
    function under test runs on the solver's path."""
    by_callee = {}
    for c in calls:
        by_callee.setdefault(c["callee"], []).append(c)
    objs = _walk_objects(env)
    for callee, lst in by_callee.items():
        ccon = _callee_contract(callee)
        if ccon is None or "." not in callee:
            continue
        cls, _, name = callee.partition(".")
        targets = [o for o in objs
                   if o.__dict__.get("_shape") == cls
                   or cls in [k.__name__ for k in type(o).__mro__]]
        it = iter(lst)
        for tgt in targets:
            def stub(*a, __it=it, __ccon=ccon, __tgt=tgt, **k):
                try:
                    c = next(__it)
                except StopIteration:
                    raise HarnessLimit("more calls than on the solver path")
                for path, v in (c.get("post") or {}).items():
                    pp = path.split(".")
                    if pp[0] != "self":
                        continue
                    o = __tgt
                    for q in pp[1:-1]:
                        o = getattr(o, q)
                    sh = C.SHAPES.get(o.__dict__.get("_shape") or
                                      type(o).__name__)
                    ty = sh.attrs.get(pp[-1]) if sh else None
                    if ty is not None:
                        o.__dict__[pp[-1]] = build(ty, v)
                r = build(__ccon.returns, c["result"]) \
                    if __ccon.returns else None
                for g, callees in con.extra.get("bind_call_results",
                                                {}).items():
                    if __ccon.func in callees:
                        GHOSTS[g] = r
                if __ccon.generator:
                    return iter([r])
                return r
            tgt.__dict__[name] = stub


GHOSTS = {}


class HarnessLimit(Exception):
    pass


if __name__ == "__main__":
    sys.exit(main())
