"""C03 replay: a concrete instance of the abstract importance-sampler objects,
run on the real code.

The contracts of C03 are proved for every family of level densities
LPX(k, .), every reparameterisation Rf / RJ and every model.  A failed
obligation of the proposal-side functions is replayed here on one concrete
instance built around the package's own ImportanceFlowProposal (its real
to_prime / from_prime / rescale / inverse_rescale with the logit or no
reparameterisation, its real compute_log_Q / draw / update_log_q / ...):

    2 parameters in the unit square; flow k has density
        LPX(k, x') = -0.5 |x' - (k+1)/4|^2 - log(2 pi) + 0.1 k
    and samples x' = (k+1)/4 + N(0, 1) (so with reparameterisation None many
    draws fall outside the unit square: draw needs several batches);
    weights = (1, 2, ..., m) / sum.

The same contract strings are evaluated on what the real function returns.
exit 10 = a postcondition is false or the real code raised; 0 = all scenarios
satisfied the contract."""
import math
import sys
import traceback

import numpy as np

from replay.c08_flow import T

LOG2PI = math.log(2 * math.pi)


class Pt:
    """a point of the unit square / primed space (2 coordinates)"""

    def __init__(self, v):
        self.v = tuple(float(x) for x in v)

    def __eq__(self, o):
        return isinstance(o, Pt) and all(T(a) == b for a, b in
                                         zip(self.v, o.v))

    def __hash__(self):
        return 0

    def __repr__(self):
        return f"Pt{self.v}"


class Row:
    """a row of the density table"""

    def __init__(self, v):
        self.v = [float(x) for x in v]

    def __eq__(self, o):
        return isinstance(o, Row) and len(self.v) == len(o.v) and \
            all(T(a) == b for a, b in zip(self.v, o.v))

    def __hash__(self):
        return 0

    def __repr__(self):
        return f"Row{self.v}"


def lpx_np(k, xp):
    mu = (k + 1) / 4
    return -0.5 * ((xp - mu) ** 2).sum(axis=1) - LOG2PI + 0.1 * k


class Flows:
    def __init__(self, n, rng):
        self.models = [type("M", (), {"training": False})() for _ in range(n)]
        self.rng = rng

    @property
    def n_models(self):
        return len(self.models)

    def log_prob_all(self, x):
        return np.stack([lpx_np(k, x) for k in range(self.n_models)], axis=1) \
            if self.n_models else np.empty((x.shape[0], 0))

    def log_prob_ith(self, x, i):
        return lpx_np(i, x)

    def sample_ith(self, i, N=1):
        return (i + 1) / 4 + self.rng.normal(size=(int(N), 2))


class Model:
    names = ["a", "b"]
    dims = 2

    def in_unit_hypercube(self, x):
        return (x["a"] >= 0) & (x["a"] <= 1) & (x["b"] >= 0) & (x["b"] <= 1)

    def batch_evaluate_log_prior(self, x, unit_hypercube=False):
        # zero prior density in one corner: exercises the second filter
        return np.where((x["a"] < 0.1) & (x["b"] < 0.1), -np.inf, 0.0)

    def batch_evaluate_log_prior_unit_hypercube(self, x):
        return np.zeros(x.size)


def build(m, reparam, seed=0):
    from nessai.proposal.importance import ImportanceFlowProposal
    from nessai.samplers.importancesampler import ImportanceNestedSampler
    from nessai.livepoint import get_dtype
    ImportanceNestedSampler.add_fields()       # logW, logQ, logU fields
    rng = np.random.default_rng(seed)
    p = object.__new__(ImportanceFlowProposal)
    p.model = Model()
    p.reparameterisation = reparam
    p.clip = False
    p.level_count = m - 2
    w = np.arange(1, m + 1, dtype=float)
    w /= w.sum()
    p._weights = {k - 1: float(w[k]) for k in range(m)}
    p.flow = Flows(m - 1, rng)
    p.dtype = get_dtype(p.model.names)
    return p


def spec_ns(p):
    """concrete meaning of the abstract symbols for proposal p"""
    from nessai.utils.rescaling import logit

    def Rf(pt):
        x = np.array([pt.v])
        if p.reparameterisation == "logit":
            from nessai import config
            xp, _ = logit(x, eps=config.general.eps)
            return Pt(xp[0])
        return Pt(x[0])

    def RJ(pt):
        x = np.array([pt.v])
        if p.reparameterisation == "logit":
            from nessai import config
            _, lj = logit(x, eps=config.general.eps)
            return float(lj.sum())
        return 0.0

    def LPX(k, xp):
        return float(lpx_np(int(k), np.array([xp.v]))[0])

    def col(row, j):
        return row.v[int(j)]

    def ncol(row):
        return len(row.v)

    def mixrow(w, row):
        ws = list(w.values())
        return sum(ws[j] * math.exp(row.v[j]) for j in range(len(ws)))

    def E(x):
        x = float(x)
        return 0.0 if x == -math.inf else math.exp(x)

    def InUnit(pt):
        return all(0 <= c <= 1 for c in pt.v)

    def _veq(a, b):
        if isinstance(a, (Pt, Row)) or isinstance(b, (Pt, Row)):
            return a == b
        if isinstance(a, bool) or isinstance(b, bool) or a is None or \
                b is None:
            return a == b
        try:
            return T(a) == float(b)
        except Exception:                       # noqa: BLE001
            return a == b
    def LPr(pt):
        # the log-prior of the concrete model (Model.batch_evaluate_log_prior)
        return -math.inf if (pt.v[0] < 0.1 and pt.v[1] < 0.1) else 0.0

    return dict(Rf=Rf, RJ=RJ, LPX=LPX, col=col, ncol=ncol, mixrow=mixrow,
                E=E, InUnit=InUnit, _veq=_veq, LPr=LPr,
                isfinite=lambda x: math.isfinite(float(x)),
                isnan=lambda x: isinstance(x, float) and math.isnan(x))


class RowView:
    def __init__(self, arr, i):
        self.arr, self.i = arr, i

    def __getitem__(self, f):
        if f == "x":
            return Pt((self.arr["a"][self.i], self.arr["b"][self.i]))
        return T(self.arr[f][self.i])


class ArrView:
    """structured array seen as rows with the abstract point field 'x'"""

    def __init__(self, arr):
        self.arr = arr

    def __len__(self):
        return self.arr.size

    def __getitem__(self, i):
        return RowView(self.arr, int(i))


class IDictView:
    """the weight dictionary indexed by key (w[j - 1])"""

    def __init__(self, d):
        self.d = d

    def __len__(self):
        return len(self.d)

    def __getitem__(self, k):
        return self.d[int(k)]

    def values(self):
        return self.d.values()


class SelfView:
    def __init__(self, o):
        self._o = o

    def __getattr__(self, n):
        v = getattr(self._o, n)
        if n == "_weights":
            return IDictView(v)
        if n == "flow":
            return FlowView(v)
        return v


class FlowView:
    def __init__(self, f):
        self._f = f

    @property
    def n_models(self):
        return self._f.n_models

    @property
    def models(self):
        return [{"training": m.training} for m in self._f.models]


def view(v):
    if isinstance(v, tuple):
        return tuple(view(x) for x in v)
    if isinstance(v, np.ndarray):
        if v.dtype.names:
            return ArrView(v)
        if v.ndim == 2 and v.shape[1] == 2 and False:
            return [Pt(r) for r in v]
        if v.ndim == 2:
            return [Row(r) for r in v]
        return [T(x) for x in v]
    return v


def points(a):
    return [Pt(r) for r in a]


def samples_in_square(n, rng):
    from nessai.livepoint import get_dtype, empty_structured_array
    x = empty_structured_array(n, dtype=get_dtype(["a", "b"]))
    x["a"], x["b"] = rng.random(n) * 0.98 + 0.01, rng.random(n) * 0.98 + 0.01
    x["logU"] = 0.0
    return x


def scenarios(func):
    rng = np.random.default_rng(3)
    for reparam in ("logit", None):
        for m in (2, 3, 4):
            p = build(m, reparam, seed=m)
            if func == "ImportanceFlowProposal.compute_log_Q":
                for n in (0, 1, 5):
                    xp = rng.normal(size=(n, 2))
                    lj = rng.normal(size=n)
                    yield (f"{func}(n={n}, m={m}, {reparam})",
                           lambda p=p, xp=xp, lj=lj: p.compute_log_Q(
                               xp.copy(), log_j=lj.copy()),
                           {"self": p, "x_prime": points(xp),
                            "log_j": [T(v) for v in lj]})
            elif func == "ImportanceFlowProposal.update_log_q":
                for n in (1, 4):
                    s = samples_in_square(n, rng)
                    q = rng.normal(size=(n, m - 1))
                    yield (f"{func}(n={n}, m={m}, {reparam})",
                           lambda p=p, s=s, q=q: p.update_log_q(
                               s.copy(), q.copy()),
                           {"self": p, "samples": ArrView(s),
                            "log_q": [Row(r) for r in q]})
            elif func == "ImportanceFlowProposal.compute_meta_proposal_from_log_q":
                for n in (0, 3):
                    q = rng.normal(size=(n, m))
                    yield (f"{func}(n={n}, m={m})",
                           lambda p=p, q=q:
                           p.compute_meta_proposal_from_log_q(q.copy()),
                           {"self": p, "log_q": [Row(r) for r in q]})
            elif func == "ImportanceFlowProposal.compute_meta_proposal_samples":
                for n in (1, 4):
                    s = samples_in_square(n, rng)
                    yield (f"{func}(n={n}, m={m}, {reparam})",
                           lambda p=p, s=s:
                           p.compute_meta_proposal_samples(s.copy()),
                           {"self": p, "samples": ArrView(s)})
            elif func == "ImportanceFlowProposal.draw":
                for n in (1, 7, 40):
                    yield (f"{func}(n={n}, m={m}, {reparam})",
                           lambda p=p, n=n: p.draw(n),
                           {"self": p, "n": n, "flow_number": None})


def ins_replay(rec):
    sys.path.insert(0, "/verif")
    from pyvc import contracts as C
    from replay.run import eval_spec
    C.load_all()
    key = rec.get("contract_key") or rec["function"]
    con = [c for c in C.CONTRACTS.values()
           if c.key[1] == key and "C03" in c.props]
    if not con:
        print(f"no C03 contract {key}")
        return 3
    con = con[0]
    n = 0
    for desc, call, env in scenarios(con.func):
        n += 1
        p = env["self"]
        try:
            res = call()
        except Exception as ex:                           # noqa: BLE001
            print(f"REPRODUCED: {desc}: real code raised "
                  f"{type(ex).__name__}: {ex}")
            traceback.print_exc(limit=3, file=sys.stdout)
            return 10
        ns = spec_ns(p)
        env = dict(env)
        env["self"] = SelfView(p)
        old = dict(env)
        r = view(res)
        bad = 0
        for j, e in enumerate(con.ensures):
            try:
                ok = eval_spec(e, env, old, r, ns)
            except Exception as ex:                       # noqa: BLE001
                print(f"ensures[{j}] not evaluable on {desc}: {ex!r}")
                continue
            if not ok:
                print(f"REPRODUCED: {desc}: ensures[{j}] is false on the "
                      f"real code: {e[:200]}")
                bad += 1
        if bad:
            return 10
    if n == 0:
        print(f"no concrete scenario generator for {key}")
        return 0
    print(f"concrete importance-sampler instance: {n} scenarios of {key} "
          f"satisfy every postcondition on the real code: not reproduced")
    return 0
