"""C13 replay: deliver a termination signal on the real code right after a
given statement of a given function (line-level sys.settrace hook that calls
the real FlowSampler.safe_exit), then resume from the checkpoint it leaves
and check the resumed run: no discarded point recorded or integrated twice,
none lost, counts agree.  Exit 10 = the inconsistency reproduces."""
import os
import shutil
import sys
import tempfile

import numpy as np


def _model():
    from nessai.model import Model

    class M(Model):
        names = ["x", "y"]
        bounds = {"x": [-5, 5], "y": [-5, 5]}

        def log_prior(self, x):
            return np.log(self.in_bounds(x), dtype=float)

        def log_likelihood(self, x):
            return -0.5 * (x["x"] ** 2 + x["y"] ** 2)

    return M()


def _target_code(qual):
    import importlib
    mods = {"NestedSampler": "nessai.samplers.nestedsampler",
            "BaseNestedSampler": "nessai.samplers.base",
            "_NSIntegralState": "nessai.evidence"}
    cls, meth = qual.split(".")
    m = importlib.import_module(mods[cls])
    return getattr(getattr(m, cls), meth).__code__


def run(target, line, end_line, at_iteration=20, nlive=50, max_it=120,
        verbose=True):
    from nessai.flowsampler import FlowSampler
    out = tempfile.mkdtemp(prefix="pyvc-c13-")
    tol = 0.1
    if target.endswith(".finalise"):
        # reach the tolerance (so that finalise runs) instead of the cap
        at_iteration, max_it, tol = 0, 5000, 3.0
    kw = dict(output=out, nlive=nlive, max_iteration=max_it, seed=1234,
              stopping=tol,
              plot=False, checkpointing=True, checkpoint_interval=100000,
              maximum_uninformed=10 ** 6, log_on_iteration=False,
              signal_handling=False, resume=True)
    code = _target_code(target)
    fs = FlowSampler(_model(), **kw)
    state = {"armed": False, "fired": False}

    def fire():
        state["fired"] = True
        sys.settrace(None)
        fs.safe_exit(15)

    def local(frame, event, arg):
        if state["fired"]:
            return None
        if event == "line":
            ln = frame.f_lineno
            if state["armed"] and not (line <= ln <= end_line):
                fire()
            if ln == line and fs.ns.iteration >= at_iteration:
                state["armed"] = True
        elif event == "return" and state["armed"]:
            fire()
        return local

    def tracer(frame, event, arg):
        if frame.f_code is code and not state["fired"]:
            return local
        return None

    sys.settrace(tracer)
    try:
        fs.run(plot=False, save=False)
        interrupted = False
    except SystemExit:
        interrupted = True
    finally:
        sys.settrace(None)
    if not interrupted:
        shutil.rmtree(out, ignore_errors=True)
        print("the statement was never reached: not reproduced")
        return 0
    it_sig = fs.ns.iteration
    fs2 = FlowSampler(_model(), **kw)
    ns = fs2.ns
    problems = []
    n0 = len(ns.nested_samples)
    if n0 != len(ns.state.logLs) - 1:
        problems.append(f"after resume: {n0} recorded vs "
                        f"{len(ns.state.logLs) - 1} integrated")
    if n0 != ns.iteration:
        problems.append(f"after resume: {n0} recorded at iteration "
                        f"{ns.iteration}")
    if len(ns.insertion_indices) != ns.iteration:
        problems.append(f"after resume: {len(ns.insertion_indices)} "
                        f"insertion indices at iteration {ns.iteration}")
    if ns.live_points is not None:
        lp = [tuple(p) for p in ns.live_points.tolist()]
        if len(set(lp)) != len(lp):
            problems.append("after resume: duplicated live point")
        rec = {tuple(np.asarray(p).tolist()) for p in ns.nested_samples}
        both = [p for p in lp if p in rec]
        if both:
            problems.append(f"after resume: {len(both)} point(s) are both "
                            f"recorded and still live")
    try:
        fs2.run(plot=False, save=False)
    except Exception as ex:          # noqa: BLE001
        problems.append(f"resumed run failed: {ex!r}")
    ns = fs2.ns
    nested = [tuple(np.asarray(p).tolist()) for p in ns.nested_samples]
    if len(set(nested)) != len(nested):
        problems.append(f"final: {len(nested) - len(set(nested))} nested "
                        f"sample(s) recorded twice")
    if len(nested) != len(ns.state.logLs) - 1:
        problems.append(f"final: {len(nested)} recorded vs "
                        f"{len(ns.state.logLs) - 1} integrated")
    expected = ns.iteration + (nlive if ns.finalised else 0)
    if len(nested) != expected:
        problems.append(f"final: {len(nested)} nested samples for "
                        f"{ns.iteration} iterations "
                        f"(finalised={ns.finalised})")
    shutil.rmtree(out, ignore_errors=True)
    if verbose:
        print(f"signal after {target} line {line} at iteration {it_sig}; "
              f"resumed run ended at iteration {ns.iteration}")
    if problems:
        for p in problems:
            print("REPRODUCED:", p)
        return 10
    print("resumed run is consistent: not reproduced")
    return 0


def signal_replay(rec):
    r = rec["replay"]
    return run(r["target_func"], r["line"], r["end_line"])


if __name__ == "__main__":
    sys.exit(run(sys.argv[1], int(sys.argv[2]), int(sys.argv[3])))
