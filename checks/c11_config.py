"""C11: the crash invariant is asserted after every simple statement (a
process kill can land between any two file-system effects) and *inside*
every non-atomic write (torch.save: the mid-write hook).  Never assumed."""
import ast

import z3

from pyvc.extra import config
from pyvc.values import bz, Unsupported, SpecError

SIMPLE = (ast.Assign, ast.AugAssign, ast.AnnAssign, ast.Expr, ast.Delete)


def _oblige(I, con, tag, line, end_line, src, env):
    inv = con.extra["crash_invariant"]
    try:
        goal = z3.And(*[bz(I.truth(I.eval_spec(e, env))) for e in inv])
    except (Unsupported, SpecError) as ex:
        raise
    I.oblige(f"crash_inv@{line}{tag}", goal, "crash_inv", line,
             assume=False,
             replay={"module": "replay.c11_crash", "func": "crash_replay",
                     "target_func": con.func, "file": con.file,
                     "line": line, "end_line": end_line, "statement": src,
                     "mid_write": bool(tag)})


@config("C11")
def _cfg(V, con):
    if not con.extra.get("crash_invariant"):
        V.stmt_hook = None
        V.mid_write_hook = None
        return

    def hook(I, st, env):
        if not isinstance(st, SIMPLE):
            return
        if isinstance(st, ast.Expr) and isinstance(st.value, ast.Constant):
            return
        src = I.src.lines[st.lineno - 1].strip()
        if src.startswith("logger."):
            return
        _oblige(I, con, "", st.lineno, st.end_lineno, src, I.cur_env)

    def mid(I, p):
        src = I.src.lines[I.cur_line - 1].strip()
        _oblige(I, con, ":mid-write", I.cur_line, I.cur_line, src,
                I.cur_env)
    V.stmt_hook = lambda I, st, env: (setattr(I, "cur_env", env),
                                      hook(I, st, env))
    V.mid_write_hook = mid
