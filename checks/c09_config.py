"""C09: `config.livepoints.non_sampling_parameters` (a module-level registry)
is modelled by its default value: the core non-sampling fields, no extra
fields registered (ASSUMPTION of the convert_to_samples contract)."""
from pyvc.extra import config
from pyvc.values import Obj, Opaque


def _cfg(V, con):
    lp = Obj("LivepointsConfigAbs", {
        "non_sampling_parameters": ["logP", "logL", "it"],
        "default_float_dtype": Opaque("float dtype")}, abstract=True)
    cfg = Obj("ConfigAbs", {"livepoints": lp}, abstract=True)
    V.module_globals["nessai/proposal/flowproposal.py:config"] = \
        lambda I: cfg


config("C09")(_cfg)
config("C01")(_cfg)
config("C08")(_cfg)
config("C07")(_cfg)
