"""C07: round trips and cancelling Jacobians as lemmas over pairs of
contracts (pyvc/pairs.py)."""
from pyvc.extra import extra
from pyvc.pairs import pair_obligations

RS = "nessai/utils/rescaling.py"
B = {"x": "Real", "xmin": "Real", "xmax": "Real"}


def _affine(fwd, inv, lo, hi):
    return [
        {"name": f"{inv}∘{fwd}", "first": (RS, fwd), "second": (RS, inv),
         "params": B, "assume": ["xmin < xmax"],
         "args1": ["x", "xmin", "xmax"], "args2": ["r1[0]", "xmin", "xmax"],
         "prove": ["r2[0] == x", "E(r2[1]) * E(r1[1]) == 1"]},
        {"name": f"{fwd}∘{inv}", "first": (RS, inv), "second": (RS, fwd),
         "params": B, "assume": ["xmin < xmax"],
         "args1": ["x", "xmin", "xmax"], "args2": ["r1[0]", "xmin", "xmax"],
         "prove": ["r2[0] == x", "E(r2[1]) * E(r1[1]) == 1"]},
    ]


SPECS = _affine("rescale_zero_to_one", "inverse_rescale_zero_to_one", 0, 1) \
    + _affine("rescale_minus_one_to_one",
              "inverse_rescale_minus_one_to_one", -1, 1) + [
    {"name": "sigmoid∘logit", "first": (RS, "logit"),
     "second": (RS, "sigmoid"), "params": {"x": "Real"},
     "assume": ["0 < x and x < 1"],
     "args1": ["x", "None"], "args2": ["r1[0]"],
     # sigmoid(logit(x)) = x and the two log-Jacobians are negatives
     "prove": ["r2[0] == x",
               "E(r2[1]) * E(r1[1]) == 1"]},
    {"name": "logit∘sigmoid", "first": (RS, "sigmoid"),
     "second": (RS, "logit"), "params": {"x": "Real"},
     "assume": ["E(x) > 0"],
     "args1": ["x"], "args2": ["r1[0]", "None"],
     "prove": ["E(r2[0]) == E(x)", "E(r2[1]) * E(r1[1]) == 1"]},
    {"name": "exp∘log", "first": (RS, "log_with_log_jacobian"),
     "second": (RS, "exp_with_log_jacobian"), "params": {"x": "Real"},
     "assume": ["x > 0"],
     "args1": ["x"], "args2": ["r1[0]"],
     "prove": ["r2[0] == x",
               "E(r2[1]) * E(r1[1]) == 1"]},
    {"name": "log∘exp", "first": (RS, "exp_with_log_jacobian"),
     "second": (RS, "log_with_log_jacobian"), "params": {"x": "Real"},
     "assume": ["E(x) > 0"],
     "args1": ["x"], "args2": ["r1[0]"],
     "prove": ["E(r2[0]) == E(x)", "E(r2[1]) * E(r1[1]) == 1"]},
]


RR = "nessai/reparameterisations/rescale.py"
XS = "Struct(a:Real,b:Real,logP:Real,logL:Real)"
XP = "Struct(a_prime:Real,b_prime:Real,logP:Real,logL:Real)"
SPECS += [
    {"name": "ScaleAndShift:inverse∘forward",
     "first": (RR, "ScaleAndShift.reparameterise"),
     "second": (RR, "ScaleAndShift.inverse_reparameterise"),
     "self_shape": "ScaleAndShift",
     "params": {"x": XS, "x_prime": XP, "log_j": "Seq(Real)"},
     "assume": ["len(x) == len(x_prime) and len(log_j) == len(x)",
                "self.scale['a'] != 0 and self.scale['b'] != 0"],
     "args1": ["x", "x_prime", "log_j"], "args2": ["x", "x_prime", "log_j"],
     # mapping to the primed space and back returns the original
     # parameters, leaves non-sampling fields alone, and the two
     # log-Jacobian contributions cancel
     "prove": ["forall(i, 0, len(x), x['a'][i] == old(x['a'])[i] and "
               "x['b'][i] == old(x['b'])[i])",
               "forall(i, 0, len(x), x['logL'][i] == old(x['logL'])[i] and "
               "x['logP'][i] == old(x['logP'])[i])",
               "forall(i, 0, len(x), E(log_j[i]) == E(old(log_j)[i]))"]},
    {"name": "RescaleToBounds:_inverse∘_rescale",
     "first": (RR, "RescaleToBounds._rescale_to_bounds"),
     "second": (RR, "RescaleToBounds._inverse_rescale_to_bounds"),
     "self_shape": "RescaleToBounds", "params": {"x": "Real"},
     "assume": ["self.bounds['a'][0] < self.bounds['a'][1]",
                "self._rescale_factor['a'] > 0"],
     "args1": ["x", "'a'"], "args2": ["r1[0]", "'a'"],
     "prove": ["r2[0] == x", "E(r2[1]) * E(r1[1]) == 1"]},
]


@extra("C07")
def _f(tier, seed):
    return pair_obligations("C07", SPECS, tier)


# ---- RescaleToBounds on arrays: the round trip of the whole
# reparameterisation (two parameters, own bounds / offsets / rescale
# bounds), through the contracts of the two real methods ------------------
def _w(p):
    return f"(self.bounds['{p}'][1] - self.bounds['{p}'][0])"


def _u(p):
    return (f"((x['{p}'][i] - self.offsets['{p}'] - self.bounds['{p}'][0])"
            f" / {_w(p)})")


RP_ASSUME = ["len(x) == len(x_prime) and len(log_j) == len(x)",
             "not self.has_pre_rescaling"] + [
    f"self.bounds['{p}'][0] < self.bounds['{p}'][1] and "
    f"self._rescale_factor['{p}'] > 0" for p in "ab"]
LG_ASSUME = ["self.has_post_rescaling"] + [
    f"self._rescale_factor['{p}'] == 1 and self._rescale_shift['{p}'] == 0"
    for p in "ab"] + [
    "forall(i, 0, len(x), " + " and ".join(
        f"0 < {_u(p)} and {_u(p)} < 1" for p in "ab") + ")"]
ROUND = ["forall(i, 0, len(x), x['a'][i] == old(x['a'])[i] and "
         "x['b'][i] == old(x['b'])[i])",
         "forall(i, 0, len(x), x['logL'][i] == old(x['logL'])[i] and "
         "x['logP'][i] == old(x['logP'])[i])",
         "forall(i, 0, len(x), E(log_j[i]) == E(old(log_j)[i]))"]
SPECS += [
    {"name": "RescaleToBounds:inverse∘forward",
     "first": (RR, "RescaleToBounds.reparameterise#seq"),
     "second": (RR, "RescaleToBounds.inverse_reparameterise#seq"),
     "self_shape": "RescaleToBoundsRP",
     "params": {"x": XS, "x_prime": XP, "log_j": "Seq(Real)"},
     "assume": RP_ASSUME + ["not self.has_post_rescaling"],
     "args1": ["x", "x_prime", "log_j", "False"],
     "args2": ["x", "x_prime", "log_j"],
     "prove": ROUND},
    {"name": "RescaleToBounds(logit):inverse∘forward",
     "first": (RR, "RescaleToBounds.reparameterise#seq-logit"),
     "second": (RR, "RescaleToBounds.inverse_reparameterise#seq-logit"),
     "self_shape": "RescaleToBoundsRP",
     "params": {"x": XS, "x_prime": XP, "log_j": "Seq(Real)"},
     "assume": RP_ASSUME + LG_ASSUME,
     "args1": ["x", "x_prime", "log_j", "False"],
     "args2": ["x", "x_prime", "log_j"],
     # stepping stones (each is assumed once proved): sigmoid(logit(u)) = u
     # per parameter, then the affine part, then the statement itself
     "prove": [
         "forall(i, 0, len(x), 1 / (1 + E(-x_prime['a_prime'][i])) == "
         + _u("a").replace("x['a'][i]", "old(x['a'])[i]") + ")",
         "forall(i, 0, len(x), 1 / (1 + E(-x_prime['b_prime'][i])) == "
         + _u("b").replace("x['b'][i]", "old(x['b'])[i]") + ")",
     ] + ROUND[:2] + [
         "forall(i, 0, len(x), log_j[i] == old(log_j)[i])", ROUND[2]]},
]


# ---- the prime prior has the same support as the prior -------------------
# a value v lies in the prior interval iff its image under the map that
# _rescale_to_bounds applies (after the offset) lies between the bounds
# determine_rescaled_bounds returns: the uniform prime prior's box is
# exactly the image of the prior box (and the map is affine, so the density
# is the prior divided by a constant Jacobian)
SPECS += [
    {"name": "prime-prior support = image of the prior interval",
     "first": (RS, "determine_rescaled_bounds"),
     "second": (RR, "RescaleToBounds._rescale_to_bounds"),
     "self_shape": "RescaleToBounds",
     "params": {"v": "Real", "pmin": "Real", "pmax": "Real",
                "off": "Real", "rb": "PyList(Real,2)"},
     "assume": ["self.bounds['a'][0] < self.bounds['a'][1]",
                "rb[0] < rb[1]", "pmin <= pmax",
                "self._rescale_factor['a'] == rb[1] - rb[0]",
                "self._rescale_shift['a'] == rb[0]"],
     "args1": ["pmin", "pmax", "self.bounds['a'][0]", "self.bounds['a'][1]",
               "None", "False", "off", "rb"],
     "args2": ["v - off", "'a'"],
     "prove": ["(pmin <= v and v <= pmax) == "
               "(r1[0] <= r2[0] and r2[0] <= r1[1])",
               # the end points map to the end points
               "implies(v == pmin, r2[0] == r1[0])",
               "implies(v == pmax, r2[0] == r1[1])"]},
]


# ---- RescaleToBounds with the log pre-rescaling: round trip ---------------
SPECS += [
    {"name": "RescaleToBounds(log pre-rescaling):inverse∘forward",
     "first": (RR, "RescaleToBounds.reparameterise#pre"),
     "second": (RR, "RescaleToBounds.inverse_reparameterise#pre"),
     "self_shape": "RescaleToBoundsPre",
     "params": {"x": XS, "x_prime": XP, "log_j": "Seq(Real)"},
     "assume": ["len(x) == len(x_prime) and len(log_j) == len(x)",
                "self.has_pre_rescaling and not self.has_post_rescaling",
                "forall(i, 0, len(x), x['a'][i] > 0 and x['b'][i] > 0)"] + [
         f"self.bounds['{p}'][0] < self.bounds['{p}'][1] and "
         f"self._rescale_factor['{p}'] > 0" for p in "ab"],
     "args1": ["x", "x_prime", "log_j", "False"],
     "args2": ["x", "x_prime", "log_j"],
     "prove": [
         # stepping stone: the argument of the final exponential is log x
         "forall(i, 0, len(x), " + " and ".join(
             f"{_w(p)} * (x_prime['{p}_prime'][i] - "
             f"self._rescale_shift['{p}']) / self._rescale_factor['{p}'] + "
             f"self.bounds['{p}'][0] + self.offsets['{p}'] == "
             f"LOG(old(x['{p}'])[i])" for p in "ab") + ")",
         # (the inverse returns exp of that argument -- its postcondition --
         # so the parameters come back as exp(log x) = x; that last step is
         # the exp / log law and is not asked of the solver here)
         ROUND[1],
         "forall(i, 0, len(x), log_j[i] == old(log_j)[i])"]},
]


# ---- Angle: round trip MODULO two stated facts about the library's
# ---- trigonometric functions (polar decomposition: not proved here; they are
# ---- hypotheses of the lemma, instantiated at the rows)
RA = "nessai/reparameterisations/angle.py"
XA = "Struct(a:Real,r:Real,logP:Real,logL:Real)"
XAP = "Struct(a_x:Real,a_y:Real,logP:Real,logL:Real)"
_PHI = "(x['a'][i] * self.scale)"
_RC = f"(x['r'][i] * COS({_PHI}))"
_RS = f"(x['r'][i] * SIN({_PHI}))"
SPECS += [
    {"name": "Angle:inverse∘forward (modulo polar-decomposition facts)",
     "first": (RA, "Angle.reparameterise"),
     "second": (RA, "Angle.inverse_reparameterise"),
     "self_shape": "AngleRP",
     "params": {"x": XA, "x_prime": XAP, "log_j": "Seq(Real)"},
     "assume": [
         "len(x) == len(x_prime) and len(log_j) == len(x)",
         "self.scale > 0 and not self._zero_bound",
         # where the map is regular: positive radius, angle (times scale)
         # in (-pi, pi]
         f"forall(i, 0, len(x), x['r'][i] > 0 and -PI < {_PHI} and "
         f"{_PHI} <= PI)",
         # LIBRARY FACTS (hypotheses): arctan2 / sqrt invert the polar map
         f"forall(i, 0, len(x), ARCTAN2({_RS}, {_RC}) == {_PHI})",
         f"forall(i, 0, len(x), SQRT({_RC} * {_RC} + {_RS} * {_RS}) == "
         f"x['r'][i])"],
     "args1": ["x", "x_prime", "log_j"], "args2": ["x", "x_prime", "log_j"],
     "prove": ["forall(i, 0, len(x), x['r'][i] == old(x['r'])[i])",
               "forall(i, 0, len(x), x['a'][i] * self.scale == "
               "old(x['a'])[i] * self.scale)",
               "forall(i, 0, len(x), x['logL'][i] == old(x['logL'])[i] and "
               "x['logP'][i] == old(x['logP'])[i])",
               "forall(i, 0, len(x), log_j[i] == old(log_j)[i])"]},
]
