"""C10: the module-global `_model` of nessai.utils.multiprocessing is
modelled by the verifier's global model object (for the wrappers: a fresh
Model; for Model.batch_evaluate_*: the model itself -- the fork assumption)."""
from pyvc.extra import config


@config("C10")
def _cfg(V, con):
    V.module_globals["nessai/utils/multiprocessing.py:_model"] = \
        lambda I: I.V.global_model
