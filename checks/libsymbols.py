"""Resolver obligation 'library symbol exists': every attribute chain rooted
at an imported third-party module (numpy, scipy, ...) that a function under
contract for the property evaluates must exist in the *installed* library
(asked of /venv/bin/python, the interpreter the repository runs under)."""
import ast
import json
import subprocess
import time

from pyvc import contracts as C
from pyvc.front import Source

THIRD = ("numpy", "scipy", "torch", "pandas", "h5py", "matplotlib")


def chains(fn, imports):
    out = {}
    for node in ast.walk(fn):
        if isinstance(node, ast.Attribute):
            parts = []
            cur = node
            while isinstance(cur, ast.Attribute):
                parts.append(cur.attr)
                cur = cur.value
            if isinstance(cur, ast.Name) and cur.id in imports:
                base = imports[cur.id]
                if base.split(".")[0] in THIRD:
                    dotted = ".".join([base] + list(reversed(parts)))
                    out.setdefault(dotted, node.lineno)
        elif isinstance(node, ast.Name) and node.id in imports:
            base = imports[node.id]
            if base.split(".")[0] in THIRD and "." in base:
                out.setdefault(base, node.lineno)
    return out


PROBE = r'''
import importlib, json, sys
names = json.loads(sys.stdin.read())
res = {}
for dotted in names:
    parts = dotted.split(".")
    obj, ok, k = None, False, len(parts)
    while k > 0:
        try:
            obj = importlib.import_module(".".join(parts[:k])); break
        except Exception:
            k -= 1
    if obj is None:
        res[dotted] = "no module"; continue
    err = None
    for p in parts[k:]:
        try:
            obj = getattr(obj, p)
        except AttributeError as e:
            err = repr(e); break
        if not (isinstance(obj, type(importlib)) or isinstance(obj, type) or callable(obj)):
            break   # attribute of a value (e.g. np.pi.real): stop resolving
    res[dotted] = err
print(json.dumps(res))
'''


def lib_symbol_obligations(pid):
    C.load_all()
    t0 = time.time()
    wanted = {}
    for con in C.for_property(pid):
        if con.file.startswith("<"):
            continue
        src = Source.get(con.file)
        fn, _ = src.find(con.func)
        if fn is None:
            continue
        for dotted, line in chains(fn, src.imports).items():
            wanted.setdefault(dotted, (con.file, con.func, line))
    if not wanted:
        return []
    p = subprocess.run(["/venv/bin/python", "-c", PROBE],
                       input=json.dumps(sorted(wanted)), capture_output=True,
                       text=True, timeout=300)
    try:
        res = json.loads(p.stdout.strip().splitlines()[-1])
    except Exception:
        return [{"ident": "lib-symbols::probe", "status": "error",
                 "backend": "resolver", "note": p.stderr[-400:]}]
    out = []
    dt = time.time() - t0
    ok = [d for d, e in res.items() if e is None]
    if ok:
        out.append({"ident": f"lib-symbols::{len(ok)} symbols exist",
                    "kind": "lib_symbol_exists", "backend": "resolver",
                    "status": "discharged", "obligations": len(ok),
                    "time": dt, "detail": sorted(ok)[:40]})
    for d, e in sorted(res.items()):
        if e is None:
            continue
        file, func, line = wanted[d]
        out.append({
            "ident": f"{func}::lib_symbol_exists[{d}]", "function": func,
            "file": file, "kind": "lib_symbol_exists", "backend": "resolver",
            "status": "refuted", "line": line, "time": 0.0,
            "note": f"{d} does not exist in the installed library: {e}",
            "detail": e,
            "replay": {"module": "replay.custom", "func": "lib_symbol",
                       "symbol": d}})
    return out


def register(pid):
    from pyvc.extra import extra

    @extra(pid)
    def _f(tier, seed, pid=pid):
        return lib_symbol_obligations(pid)


for _p in ("C01", "C02", "C03", "C04", "C05", "C07", "C08", "C09", "C10",
           "C15", "C16", "C17", "C18", "C19"):
    register(_p)
