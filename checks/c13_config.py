"""C13: the interrupt invariant is asserted after every simple statement of
the functions under contract (signals are delivered between statements: the
handler pickles whatever state the interrupted statement left behind).  The
obligation is never assumed afterwards: it may fail at one statement and
hold again at the next."""
import ast

import z3

from pyvc.extra import config
from pyvc.values import bz

SIMPLE = (ast.Assign, ast.AugAssign, ast.AnnAssign, ast.Expr, ast.Delete)


@config("C13")
def _cfg(V, con):
    inv = con.extra.get("stmt_invariant")
    if not inv:
        V.stmt_hook = None
        return
    V.extra_requires = list(con.extra.get("c13_requires", []))

    def hook(I, st, env):
        if not isinstance(st, SIMPLE):
            return
        if isinstance(st, ast.Expr) and isinstance(st.value, ast.Constant):
            return                      # docstring
        src = I.src.lines[st.lineno - 1].strip()
        if src.startswith("logger."):
            return                      # erased statement
        from pyvc.values import Unsupported, SpecError
        rp = {"module": "replay.c13_signal", "func": "signal_replay",
              "target_func": con.func, "line": st.lineno,
              "end_line": st.end_lineno, "statement": src}
        broken = False
        parts = []
        for j, e in enumerate(inv):
            if broken:
                goal = z3.BoolVal(False)
            else:
                try:
                    goal = bz(I.truth(I.eval_spec(e, env)))
                except (Unsupported, SpecError):
                    # e.g. the live set is None: the clause is not
                    # satisfied (and later clauses are about the live set)
                    goal = z3.BoolVal(False)
                    broken = True
            parts.append(goal)
        # one obligation per statement; the solver driver proves the
        # clauses one by one and stops at the first one it refutes
        I.oblige(f"interrupt_inv@{st.lineno}", z3.And(*parts),
                 "interrupt_inv", st.lineno, assume=False, replay=rp)
    V.stmt_hook = hook
