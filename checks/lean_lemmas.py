"""The lemma library (lemmas/Lib.lean) as an obligation group: every lemma
instance the SMT side assumes (`lemma:*` in the evidence) must be proved in
Lean.  quick: stamp check (sha256 of the source recorded by the last
successful compile; compiles if stale); thorough: forced recompile."""
import os
import re
import subprocess
import time

from pyvc.extra import extra

HERE = os.path.dirname(os.path.dirname(os.path.abspath(__file__)))

USES = {
    "C02": ["prod_pos_rec", "sum_congr_range", "rec_unique",
            "rect_closed_form", "shrink_t", "shrink_logt", "trap_shift",
            "weight_shift", "exp_rules", "sum_nonneg_ico", "sum_pos_ico"],
    "C04": ["unique_complement_enum", "disjoint_increasing_cover"],
    "C03": ["unique_complement_enum", "disjoint_increasing_cover",
            "sum_congr_range", "sum_split_ico", "sum_last_ico",
            "sum_mul_ico", "sum_div_ico", "sum_single_ico", "sum_empty_ico",
            "exp_rules"],
    "C16": ["ess_bounds", "ess_scale", "weights_sum_one", "exp_rules",
            "sum_congr_range", "sum_nonneg_ico", "sum_pos_ico"],
}


def lean_obligations(pid, tier):
    t0 = time.time()
    src = open(os.path.join(HERE, "lemmas", "Lib.lean")).read()
    stated = set(re.findall(r"^theorem\s+(\w+)", src, re.M))
    need = USES.get(pid, [])
    missing = [n for n in need if n not in stated]
    args = ["sh", os.path.join(HERE, "tools", "lean_check.sh")]
    if tier == "thorough":
        args.append("--force")
    p = subprocess.run(args, capture_output=True, text=True, timeout=1800)
    ok = p.returncode == 0 and not missing
    res = {"ident": f"lean::lemma-library[{','.join(need)}]",
           "kind": "lemma", "backend": "lean4+mathlib",
           "obligations": max(1, len(need)),
           "time": time.time() - t0,
           "detail": (p.stdout + p.stderr).strip()[-300:]}
    if ok:
        res["status"] = "discharged"
    elif missing:
        res["status"] = "error"
        res["note"] = f"lemmas not stated in Lib.lean: {missing}"
    else:
        # a failure of the code-independent library is a checker problem,
        # never a property violation of /repo
        res["status"] = "error"
        res["note"] = "lean did not accept lemmas/Lib.lean: " + \
            res["detail"]
    return [res]


for _p in USES:
    def _mk(pid):
        @extra(pid)
        def _f(tier, seed, pid=pid):
            return lean_obligations(pid, tier)
    _mk(_p)
