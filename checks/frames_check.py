"""Frame obligations discharged by syntactic frame inference (back end
'frame-inference'): for contracts marked frame_check, every attribute of the
declared shape that the method may write (transitively through self.m()
calls, MRO-resolved) must be covered by the contract's `modifies`."""
import time

from pyvc import contracts as C
from pyvc.frames import FrameInfer
from pyvc.types import parse_type


def shape_info(shape_name):
    sh = C.SHAPES[shape_name]
    attr_classes, immutable = {}, set()
    for a, ty in sh.attrs.items():
        p = parse_type(ty)
        if p[0] == "Obj":
            cls = C.SHAPES[p[1]].cls
            attr_classes[a] = cls
        if p[0] in ("Int", "Real", "Bool", "Str", "Nat") or (
                p[0] == "Opt" and parse_type(p[1])[0] in
                ("Int", "Real", "Bool", "Str")):
            immutable.add(a)
    return sh, attr_classes, immutable


def frame_obligations(pid):
    C.load_all()
    out = []
    for con in C.for_property(pid):
        if not con.extra.get("frame_check"):
            continue
        t0 = time.time()
        shape_name = con.self_shape or con.cls
        sh, attr_classes, immutable = shape_info(shape_name)
        F = FrameInfer(attr_classes, immutable)
        cls, meth = con.func.split(".")
        writes, unknown = F.may_write(cls, meth)
        declared = {m.split(".")[1] for m in con.modifies
                    if m.startswith("self.")}
        bad = sorted((writes & set(sh.attrs)) - declared)
        ident = f"{con.func}::frame"
        res = {"ident": ident, "function": con.func, "file": con.file,
               "kind": "frame", "backend": "frame-inference",
               "time": time.time() - t0,
               "detail": {"inferred_may_write": sorted(writes),
                          "declared_modifies": sorted(declared),
                          "shape_attrs_outside_modifies": bad,
                          "unknown": sorted(unknown)}}
        if unknown:
            res["status"] = "unknown"
            res["note"] = "; ".join(sorted(unknown))
        elif bad:
            res["status"] = "refuted"
            res["note"] = (f"{con.func} may write self.{', self.'.join(bad)}"
                           f" which its contract's frame excludes")
        else:
            res["status"] = "discharged"
        out.append(res)
    return out


def noread_obligations(pid):
    """`read frame`: a contract marked no_read=[attrs] promises that the
    method (transitively through self.m() calls, super() calls and
    property getters) never reads those attributes; a caller may then hand
    it an object whose attribute holds a stale value."""
    C.load_all()
    out = []
    for con in C.for_property(pid):
        attrs = con.extra.get("no_read")
        if not attrs:
            continue
        t0 = time.time()
        F = FrameInfer()
        cls, meth = con.func.split(".")
        shape_cls = C.SHAPES[con.self_shape].cls if con.self_shape and \
            con.self_shape in C.SHAPES else cls
        # the dynamic class may be a subclass of the declaring one
        reads, unknown = F.may_read(
            shape_cls if shape_cls in F.ci.classes and
            cls in F.ci.mro(shape_cls) else cls, meth, attrs)
        tol = set(con.extra.get("no_read_tolerate", ()))
        unknown = {u for u in unknown if not any(t in u for t in tol)}
        res = {"ident": f"{con.key[1]}::no_read", "function": con.func,
               "file": con.file, "kind": "frame",
               "backend": "frame-inference", "time": time.time() - t0,
               "detail": {"attributes": sorted(attrs),
                          "inferred_may_read": sorted(reads),
                          "unknown": sorted(unknown)}}
        if reads:
            res["status"] = "refuted"
            res["note"] = (f"{con.func} may read self."
                           f"{', self.'.join(sorted(reads))} although its "
                           f"contract says it never does")
        elif unknown:
            res["status"] = "unknown"
            res["note"] = "; ".join(sorted(unknown))
        else:
            res["status"] = "discharged"
        out.append(res)
    return out


def nonneg_obligations(pid):
    """`value frame`: for contracts that promise attr >= 0 on the strength
    of `nonneg_frame=[attr]`: every write to self.attr anywhere in the class
    hierarchy is `= <non-negative literal>` or `+= <non-negative literal>`
    (so the attribute, once non-negative, stays so)."""
    import ast
    from pyvc.front import ClassIndex
    C.load_all()
    out = []
    ci = ClassIndex.get()
    for con in C.for_property(pid):
        for attr in con.extra.get("nonneg_frame", []):
            t0 = time.time()
            cls = con.func.split(".")[0]
            shape_cls = C.SHAPES[con.self_shape or cls].cls
            bad = []
            for cname in ci.mro(shape_cls):
                info = ci.classes[cname]
                for fn in list(info["methods"].values()) + \
                        list(info["properties"].values()) + \
                        list(info["setters"].values()):
                    for node in ast.walk(fn):
                        tgt = val = None
                        aug = False
                        if isinstance(node, ast.Assign):
                            for t in node.targets:
                                if isinstance(t, ast.Attribute) and \
                                        isinstance(t.value, ast.Name) and \
                                        t.value.id == "self" and \
                                        t.attr == attr:
                                    tgt, val = t, node.value
                        elif isinstance(node, ast.AugAssign):
                            t = node.target
                            if isinstance(t, ast.Attribute) and isinstance(
                                    t.value, ast.Name) and \
                                    t.value.id == "self" and t.attr == attr:
                                tgt, val, aug = t, node.value, True
                                if not isinstance(node.op, ast.Add):
                                    bad.append(f"{cname}.{fn.name}:"
                                               f"{node.lineno}")
                                    continue
                        if tgt is None:
                            continue
                        ok = isinstance(val, ast.Constant) and isinstance(
                            val.value, (int, float)) and val.value >= 0
                        if not ok:
                            bad.append(f"{cname}.{fn.name}:{node.lineno}")
            res = {"ident": f"{con.func}::nonneg_frame[{attr}]",
                   "function": con.func, "file": con.file,
                   "kind": "value_frame", "backend": "frame-inference",
                   "time": time.time() - t0,
                   "detail": {"attr": attr, "offending_writes": bad}}
            if bad:
                res["status"] = "refuted"
                res["note"] = (f"self.{attr} is written by something other "
                               f"than `= c` / `+= c` (c >= 0): {bad}")
            else:
                res["status"] = "discharged"
            out.append(res)
    return out


def register(pid):
    from pyvc.extra import extra

    @extra(pid)
    def _f(tier, seed, pid=pid):
        return frame_obligations(pid) + nonneg_obligations(pid) + \
            noread_obligations(pid)


for _p in ("C01", "C13", "C15", "C05", "C12"):
    register(_p)
