"""Frame obligations discharged by syntactic frame inference (back end
'frame-inference'): for contracts marked frame_check, every attribute of the
declared shape that the method may write (transitively through self.m()
calls, MRO-resolved) must be covered by the contract's `modifies`."""
import time

from pyvc import contracts as C
from pyvc.frames import FrameInfer
from pyvc.types import parse_type


def shape_info(shape_name):
    sh = C.SHAPES[shape_name]
    attr_classes, immutable = {}, set()
    for a, ty in sh.attrs.items():
        p = parse_type(ty)
        if p[0] == "Obj":
            cls = C.SHAPES[p[1]].cls
            attr_classes[a] = cls
        if p[0] in ("Int", "Real", "Bool", "Str", "Nat") or (
                p[0] == "Opt" and parse_type(p[1])[0] in
                ("Int", "Real", "Bool", "Str")):
            immutable.add(a)
    return sh, attr_classes, immutable


def frame_obligations(pid):
    C.load_all()
    out = []
    for con in C.for_property(pid):
        if not con.extra.get("frame_check"):
            continue
        t0 = time.time()
        shape_name = con.self_shape or con.cls
        sh, attr_classes, immutable = shape_info(shape_name)
        F = FrameInfer(attr_classes, immutable)
        cls, meth = con.func.split(".")
        writes, unknown = F.may_write(cls, meth)
        declared = {m.split(".")[1] for m in con.modifies
                    if m.startswith("self.")}
        bad = sorted((writes & set(sh.attrs)) - declared)
        ident = f"{con.func}::frame"
        res = {"ident": ident, "function": con.func, "file": con.file,
               "kind": "frame", "backend": "frame-inference",
               "time": time.time() - t0,
               "detail": {"inferred_may_write": sorted(writes),
                          "declared_modifies": sorted(declared),
                          "shape_attrs_outside_modifies": bad,
                          "unknown": sorted(unknown)}}
        if unknown:
            res["status"] = "unknown"
            res["note"] = "; ".join(sorted(unknown))
        elif bad:
            res["status"] = "refuted"
            res["note"] = (f"{con.func} may write self.{', self.'.join(bad)}"
                           f" which its contract's frame excludes")
        else:
            res["status"] = "discharged"
        out.append(res)
    return out


def register(pid):
    from pyvc.extra import extra

    @extra(pid)
    def _f(tier, seed, pid=pid):
        return frame_obligations(pid)


for _p in ("C01", "C13", "C15", "C05"):
    register(_p)
