"""C20 / C12 resolver obligations (back end 'resolver'): see
pyvc/resolve.py for the rules."""
import time

from pyvc.extra import extra
from pyvc.resolve import Resolver

TYPE_MAP = {
    ("ImportanceNestedSampler", "proposal"): "ImportanceFlowProposal",
    ("ImportanceNestedSampler", "model"): "Model",
    ("NestedSampler", "model"): "Model",
    ("ImportanceNestedSampler", "_ordered_samples"): "OrderedSamples",
    ("ImportanceNestedSampler", "training_samples"): "OrderedSamples",
    ("ImportanceNestedSampler", "iid_samples"): "OrderedSamples",
    ("FlowProposal", "flow"): "FlowModel",
    ("ImportanceFlowProposal", "flow"): "ImportanceFlowModel",
    ("FlowProposal", "model"): "Model",
    ("ImportanceFlowProposal", "model"): "Model",
}
CLASSES = ["ImportanceNestedSampler", "NestedSampler", "BaseNestedSampler",
           "OrderedSamples", "FlowProposal", "ImportanceFlowProposal",
           "FlowModel", "ImportanceFlowModel", "_INSIntegralState",
           "_NSIntegralState", "Model", "FlowSampler", "RejectionProposal",
           "AnalyticProposal", "AugmentedFlowProposal", "Proposal"]
OPTION_OF = {"train_final_flow": "train_final_flow",
             "adjust_final_samples": "bootstrap",
             "plot_extra_state": "plot_extra_state",
             "draw_final_samples": "redraw_samples"}


def resolver_obligations(pid):
    t0 = time.time()
    R = Resolver(TYPE_MAP)
    out = []
    total = 0
    skipped = []
    for cls in CLASSES:
        if cls not in R.ci.classes:
            continue
        fails, stats, dynamic = R.check_class(cls)
        if dynamic:
            skipped.append(cls)
        n = stats["reads"] + stats["calls"] + stats["recv"]
        total += n - len(fails)
        seen = set()
        for kind, meth, line, msg, detail in fails:
            ident = f"{cls}.{meth}::{kind}[{detail}]"
            if ident in seen:
                continue
            seen.add(ident)
            out.append({
                "ident": ident, "function": f"{cls}.{meth}",
                "file": R.ci.classes[cls]["file"], "kind": kind,
                "backend": "resolver", "status": "refuted", "line": line,
                "time": 0.0, "note": msg, "detail": msg,
                "replay": {"module": "replay.custom",
                           "func": "resolver_probe", "cls": cls,
                           "method": meth, "kind": kind, "detail": detail,
                           "option": OPTION_OF.get(meth)}})
    out.insert(0, {
        "ident": f"resolver::{total} attribute reads / calls resolve",
        "kind": "well_formed", "backend": "resolver", "status": "discharged",
        "obligations": total, "time": time.time() - t0,
        "detail": {"classes": CLASSES,
                   "skipped_dynamic_classes": skipped,
                   "unresolved_receivers (no obligation)": R.unresolved}})
    return out


for _p in ("C20",):
    def _mk(pid):
        @extra(pid)
        def _f(tier, seed, pid=pid):
            return resolver_obligations(pid)
    _mk(_p)
