"""C12: pickle-frame obligations (back end 'pickle-frame').

The state that survives a checkpoint is what `__getstate__` returns.  For
each class the function is abstractly interpreted (the shapes nessai uses:
`d = self.__dict__` + `{k: d[k] for k in d.keys() - exclude}`, or
`self.__dict__.copy()` followed by `del state[k]` / `state[k] = e`, optionally
returned in a tuple that `__setstate__` unpacks) into
   dropped     attributes not written to the pickle,
   overridden  attributes written with a value other than the live one,
   extras      objects pickled next to the dict (tuple form).
Obligations:
  kept[C.a]      every attribute the property names is pickled unchanged;
  restored[C.a]  every dropped attribute is assigned again on the resume
                 path (syntactic may-write of the resume entry points,
                 pyvc/frames.py) before sampling continues;
  setstate[C]    __setstate__ restores exactly the extras __getstate__
                 returns;
  counter[C]     the pickled evaluation counters are the model's values at
                 pickling time (so that resume adds them: cumulative).
"""
import ast
import time

from pyvc.extra import extra
from pyvc.front import ClassIndex
from pyvc.frames import FrameInfer

# attributes the property statement names (observational identity)
KEPT = {
    "NestedSampler": [
        "iteration", "live_points", "nested_samples", "state",
        "insertion_indices", "history", "logLmin", "logLmax", "condition",
        "accepted", "rejected", "block_iteration", "block_acceptance",
        "acceptance_history", "training_time", "finalised",
        "_flow_proposal", "_uninformed_proposal", "sampling_time",
        "last_updated", "uninformed_sampling",
    ],
    "ImportanceNestedSampler": [
        "iteration", "history", "finalised", "training_time",
        "log_likelihood_threshold", "sample_counts",
    ],
    "OrderedSamples": [
        "samples", "live_points_indices", "nested_samples_indices", "state",
        "log_likelihood_threshold",
    ],
    "FlowProposal": [
        "x", "samples", "indices", "training_count", "_reparameterisation",
        "acceptance", "r", "population_acceptance",
    ],
    "ImportanceFlowProposal": ["n_proposals", "_weights", "level_count"],
    "FlowModel": ["weights_file"],
    "ImportanceFlowModel": ["weights_files"],
}
# resume entry points whose (transitive) writes re-establish dropped state
RESTORERS = {
    "NestedSampler": [("NestedSampler", "resume_from_pickled_sampler"),
                      ("BaseNestedSampler", "resume_from_pickled_sampler"),
                      ("NestedSampler", "initialise")],
    "ImportanceNestedSampler": [
        ("ImportanceNestedSampler", "resume_from_pickled_sampler"),
        ("BaseNestedSampler", "resume_from_pickled_sampler"),
        ("ImportanceNestedSampler", "__setstate__")],
    "OrderedSamples": [
        ("ImportanceNestedSampler", "resume_from_pickled_sampler")],
    "FlowProposal": [("FlowProposal", "resume"), ("Proposal", "resume"),
                     ("FlowProposal", "initialise")],
    "ImportanceFlowProposal": [("ImportanceFlowProposal", "resume"),
                               ("Proposal", "resume"),
                               ("ImportanceFlowProposal", "initialise"),
                               ("ImportanceFlowProposal", "__setstate__")],
    "FlowModel": [("FlowModel", "initialise"), ("FlowModel", "__init__")],
    "ImportanceFlowModel": [("ImportanceFlowModel", "resume"),
                            ("ImportanceFlowModel", "load_all_weights"),
                            ("ImportanceFlowModel", "initialise"),
                            ("FlowModel", "__init__")],
}
# transient attributes that are deliberately reset (not state): a dropped
# attribute listed here needs no restorer
TRANSIENT = {"_draw_func", "_populate_dist", "_optimiser", "pool"}


def analyse_getstate(fn):
    dropped, overridden, extras = set(), {}, []
    copy_all = False
    exclude_sets = {}
    for node in ast.walk(fn):
        if isinstance(node, ast.Assign) and len(node.targets) == 1:
            t, v = node.targets[0], node.value
            if isinstance(t, ast.Name) and isinstance(v, ast.Set):
                try:
                    exclude_sets[t.id] = set(ast.literal_eval(v))
                except Exception:
                    pass
            if isinstance(t, ast.Name) and isinstance(v, ast.DictComp):
                # {k: d[k] for k in d.keys() - exclude}
                it = v.generators[0].iter
                if isinstance(it, ast.BinOp) and isinstance(it.op, ast.Sub) \
                        and isinstance(it.right, ast.Name):
                    dropped |= exclude_sets.get(it.right.id, set())
                copy_all = True
            if isinstance(t, ast.Name) and isinstance(v, ast.Call) and \
                    isinstance(v.func, ast.Attribute) and \
                    v.func.attr == "copy":
                copy_all = True
            if isinstance(t, ast.Subscript) and isinstance(
                    t.slice, ast.Constant) and isinstance(t.value, ast.Name):
                overridden[t.slice.value] = ast.unparse(v)
        if isinstance(node, ast.Delete):
            for t in node.targets:
                if isinstance(t, ast.Subscript) and isinstance(
                        t.slice, ast.Constant):
                    dropped.add(t.slice.value)
        if isinstance(node, ast.Return) and isinstance(node.value,
                                                       ast.Tuple):
            for e in node.value.elts[1:]:
                if isinstance(e, ast.Attribute) and isinstance(
                        e.value, ast.Name) and e.value.id == "self":
                    extras.append(e.attr)
    return {"dropped": dropped, "overridden": overridden, "extras": extras,
            "copy_all": copy_all}


def setstate_attrs(fn):
    """[(attr, index into the pickled tuple)] for `self.attr = state[i]`"""
    out = []
    for node in ast.walk(fn):
        if isinstance(node, ast.Assign):
            for t in node.targets:
                if isinstance(t, ast.Attribute) and isinstance(
                        t.value, ast.Name) and t.value.id == "self":
                    idx = None
                    v = node.value
                    if isinstance(v, ast.Subscript) and isinstance(
                            v.slice, ast.Constant):
                        idx = v.slice.value
                    out.append((t.attr, idx))
    return out


def pickle_frame_obligations(pid):
    t0 = time.time()
    ci = ClassIndex.get()
    F = FrameInfer()
    out = []
    ok = 0

    def fail(ident, cls, note, detail=None):
        out.append({"ident": ident, "function": f"{cls}.__getstate__",
                    "file": ci.classes[cls]["file"], "kind": "pickle_frame",
                    "backend": "pickle-frame", "status": "refuted",
                    "time": 0.0, "note": note, "detail": detail or note})

    for cls in KEPT:
        if cls not in ci.classes:
            continue
        d, fn, kind = ci.find_method(cls, "__getstate__")
        if fn is None:
            fail(f"{cls}::getstate_exists", cls, "no __getstate__ found")
            continue
        st = analyse_getstate(fn)
        if not st["copy_all"]:
            out.append({"ident": f"{cls}::getstate_shape",
                        "backend": "pickle-frame", "status": "unknown",
                        "note": f"{d}.__getstate__ is not in a recognised "
                        f"shape"})
            continue
        # extras are restored by __setstate__
        if st["extras"]:
            d2, fn2, _ = ci.find_method(cls, "__setstate__")
            got = setstate_attrs(fn2) if fn2 is not None else []
            want = [(a, i + 1) for i, a in enumerate(st["extras"])]
            if got != want:
                fail(f"{cls}::setstate", cls,
                     f"__getstate__ returns (state, "
                     f"{', '.join(st['extras'])}) but __setstate__ "
                     f"restores {got} (expected {want})")
            else:
                ok += 1
        from pyvc.resolve import Resolver
        defined, _dyn = Resolver().defined_attrs(cls)
        for a in KEPT[cls]:
            if a not in defined:
                out.append({"ident": f"{cls}::kept[{a}]",
                            "backend": "pickle-frame", "status": "error",
                            "note": f"contract names {cls}.{a}, which the "
                            f"class never defines"})
                continue
            saved_extra = a in st["extras"]
            if a in st["dropped"] and not saved_extra:
                fail(f"{cls}::kept[{a}]", cls,
                     f"{cls}.{a} is excluded from the pickled state")
            elif a in st["overridden"]:
                fail(f"{cls}::kept[{a}]", cls,
                     f"{cls}.{a} is pickled as `{st['overridden'][a]}`, "
                     f"not its live value")
            else:
                ok += 1
        # dropped attributes are re-established on resume
        writes = set()
        for rc, rm in RESTORERS.get(cls, []):
            if rc in ci.classes:
                w, _u = F.may_write(rc, rm)
                writes |= w
                # assignments on the resumed object held in a local
                # (sampler.model = model; obj.proposal = ...)
                _d, rfn, _k = ci.find_method(rc, rm)
                if rfn is not None:
                    for node in ast.walk(rfn):
                        if isinstance(node, ast.Assign):
                            for t in node.targets:
                                for tt in ast.walk(t):
                                    if isinstance(tt, ast.Attribute) and \
                                            isinstance(tt.ctx, ast.Store):
                                        writes.add(tt.attr)
        for a in sorted(st["dropped"]):
            if a in TRANSIENT or a in st["extras"]:
                ok += 1
                continue
            alias = {"_flow_config": "flow_config"}.get(a, a)
            if a in writes or alias in writes:
                ok += 1
            else:
                fail(f"{cls}::restored[{a}]", cls,
                     f"{cls}.{a} is dropped by __getstate__ and not "
                     f"assigned by the resume path "
                     f"{RESTORERS.get(cls, [])}")
        # counters
        if cls in ("NestedSampler", "ImportanceNestedSampler"):
            want = {
                "_previous_likelihood_evaluations":
                    "d['model'].likelihood_evaluations",
                "_previous_likelihood_evaluation_time":
                    "d['model'].likelihood_evaluation_time.total_seconds()",
            }
            for k, v in want.items():
                got = st["overridden"].get(k)
                # (the INS version guards on a missing model: two writes)
                # EVERY value assigned to state[k] must be exactly the
                # model's counter (or the literal 0 of the importance
                # sampler's missing-model branch): a value that adds the
                # previously restored count double counts on a second resume
                vals = []
                for node in ast.walk(fn):
                    if isinstance(node, ast.Assign):
                        for t in node.targets:
                            if isinstance(t, ast.Subscript) and isinstance(
                                    t.slice, ast.Constant) and \
                                    t.slice.value == k:
                                vals.append(ast.unparse(node.value))
                norm = [x.replace("'", '"').replace(" ", "") for x in vals]
                want_v = v.replace("'", '"').replace(" ", "")
                got = vals
                if norm and want_v in norm and all(
                        x == want_v or x == "0" for x in norm):
                    ok += 1
                else:
                    fail(f"{cls}::counter[{k}]", cls,
                         f"pickled {k} is `{got}`, expected `{v}`")
    out.insert(0, {"ident": f"pickle-frame::{ok} state obligations hold",
                   "kind": "pickle_frame", "backend": "pickle-frame",
                   "status": "discharged", "obligations": ok,
                   "time": time.time() - t0,
                   "detail": {c: sorted(KEPT[c]) for c in KEPT}})
    return out


@extra("C12")
def _f(tier, seed):
    return pickle_frame_obligations("C12")
