"""Thorough tier only: *bounded* conformance runs of contracts against the
real code (labelled bounded, `obligations: 0`: they are never counted as
proved and add nothing to discharged).  They exist to catch a contract or a
library model that misdescribes the code (as the torch.load model once did):

* C08: every C08 contract evaluated on a concrete affine instance of the
  abstract flow built from the package's own classes (replay/c08_flow.py),
  batches of size 0..3 over a grid with out-of-bounds / non-finite cases;
* C11: real FlowModel.save_weights killed after 0, 1, 2, 3, 4, half of the
  bytes and after the move, then the real FlowProposal.resume recovery
  (replay/c11_crash.py).

A failing run IS reported as a violation (it comes with the failing input)."""
import json
import os
import subprocess
import tempfile
import time

from pyvc.extra import extra
from pyvc import contracts as C

HERE = os.path.dirname(os.path.dirname(os.path.abspath(__file__)))
PY = "/venv/bin/python"


def _run(rec, timeout=900):
    with tempfile.NamedTemporaryFile("w", suffix=".json", delete=False) as f:
        json.dump(rec, f)
        path = f.name
    try:
        p = subprocess.run(
            [PY, os.path.join(HERE, "replay", "run.py"), path],
            capture_output=True, text=True, timeout=timeout,
            env=dict(os.environ, PYTHONPATH=os.environ.get(
                "NESSAI_REPO", "/repo")))
        return p.returncode, (p.stdout + p.stderr)[-600:]
    except subprocess.TimeoutExpired:
        return 3, "timeout"
    finally:
        os.unlink(path)


def _entry(pid, ident, rc, out, t0, what):
    e = {"ident": ident, "kind": "bounded-conformance", "backend":
         "bounded:real-code", "obligations": 0, "bounded": True,
         "time": time.time() - t0, "detail": out.strip()[-300:],
         "note": what}
    if rc == 0:
        e["status"] = "discharged"
    elif rc == 10:
        e["status"] = "refuted"
        e["replay"] = None
    else:
        e["status"] = "undecided"
    return e


@extra("C08")
def c08_conformance(tier, seed):
    if tier != "thorough":
        return []
    C.load_all()
    out = []
    for con in C.CONTRACTS.values():
        if "C08" in con.props and con.replay and con.replay.get(
                "module") == "replay.c08_flow":
            t0 = time.time()
            rec = {"property": "C08", "function": con.func,
                   "contract_key": con.key[1], "file": con.file,
                   "replay": con.replay, "cex": None,
                   "obligation": f"{con.key[1]}::conformance"}
            rc, o = _run(rec)
            out.append(_entry("C08", f"{con.key[1]}::conformance[bounded]",
                              rc, o, t0, "concrete affine-flow instance"))
    return out


@extra("C03")
def c03_conformance(tier, seed):
    if tier != "thorough":
        return []
    C.load_all()
    out = []
    for con in C.CONTRACTS.values():
        if con.replay and con.replay.get("module") == "replay.c03_ins":
            t0 = time.time()
            rec = {"property": "C03", "function": con.func,
                   "contract_key": con.key[1], "file": con.file,
                   "replay": con.replay, "cex": None,
                   "obligation": f"{con.key[1]}::conformance"}
            rc, o = _run(rec)
            out.append(_entry("C03", f"{con.key[1]}::conformance[bounded]",
                              rc, o, t0, "concrete importance-sampler "
                              "instance (real ImportanceFlowProposal)"))
    return out


@extra("C11")
def c11_conformance(tier, seed):
    if tier != "thorough":
        return []
    t0 = time.time()
    rec = {"property": "C11", "function": "FlowProposal.resume",
           "contract_key": "FlowProposal.resume",
           "file": "nessai/proposal/flowproposal.py",
           "replay": {"module": "replay.c11_crash",
                      "func": "weights_recovery_replay"}, "cex": None,
           "obligation": "FlowProposal.resume::conformance"}
    rc, o = _run(rec)
    return [_entry("C11", "FlowProposal.resume::conformance[bounded]", rc,
                   o, t0, "crash injection at 7 points of the weights save")]


def _lib_conformance(tier, seed):
    """every property: the library contracts the proofs assume, tested on
    random small inputs against the installed numpy / scipy / torch"""
    if tier != "thorough":
        return []
    t0 = time.time()
    try:
        p = subprocess.run(
            [PY, os.path.join(HERE, "tools", "lib_conformance.py"),
             str(seed or 1), "300"], capture_output=True, text=True,
            timeout=900, cwd=tempfile.gettempdir())
        rc, out = p.returncode, (p.stdout + p.stderr)
    except subprocess.TimeoutExpired:
        rc, out = 3, "timeout"
    e = {"ident": "library-contracts::conformance[bounded]",
         "kind": "bounded-conformance", "backend": "bounded:real-library",
         "obligations": 0, "bounded": True, "time": time.time() - t0,
         "detail": out.strip()[-400:],
         "note": "34 library facts of pyvc/nplib.py on random small inputs"}
    if rc == 0:
        e["status"] = "discharged"
    else:
        # a wrong library model is a checker problem, never a violation
        e["status"] = "error"
        e["note"] = "library model disagrees with the installed library: " \
            + out.strip()[-300:]
    return [e]


for _pid in ("C01", "C02", "C03", "C04", "C05", "C07", "C08", "C09", "C10",
             "C11", "C12", "C13", "C15", "C16", "C17", "C20"):
    extra(_pid)(_lib_conformance)


# ---- run-time conformance of contracts on random small inputs (bounded) ------
# The same contract strings the proofs use are evaluated on the real functions
# for inputs generated from the contract's parameter types (replay/run.py,
# fixed seed).  Only contracts whose inputs the generic harness can build and
# run without harness artefacts are listed (surveyed; the others are replayed
# by their custom programs or not at all).
RUNTIME = {
    "C01": ["NestedSampler.yield_sample", "NestedSampler.insert_live_point"],
    "C02": ["compute_weights", "compute_weights#array",
            "_NSIntegralState.get_logx_live_points"],
    "C04": ["get_inverse_indices", "OrderedSamples.add_to_nested_samples",
            "OrderedSamples.update_log_likelihood_threshold",
            "OrderedSamples.add_initial_samples"],
    "C05": ["_INSIntegralState.update_evidence", "_INSIntegralState.logZ",
            "_INSIntegralState.log_posterior_weights",
            "log_evidence_from_ins_samples"],
    "C07": ["rescale_zero_to_one", "inverse_rescale_zero_to_one",
            "rescale_minus_one_to_one", "inverse_rescale_minus_one_to_one",
            "logit", "sigmoid", "log_with_log_jacobian"],
    "C09": ["RejectionProposal.compute_weights"],
    "C10": ["batch_evaluate_function", "Model.evaluate_log_likelihood"],
    "C12": ["BaseNestedSampler.resume_from_pickled_sampler"],
    "C13": ["FlowSampler.terminate_run", "FlowSampler.safe_exit"],
    "C16": ["draw_posterior_samples", "effective_sample_size",
            "_BaseNSIntegralState.effective_n_posterior_samples"],
    # (FlowModel.prep_data is not listed: its shape has abstract methods --
    # initialise, check_batch_size -- which the generic harness cannot stub
    # on the real object; it used to be skipped silently as a harness limit)
}


def _runtime(pid):
    def fn(tier, seed):
        if tier != "thorough":
            return []
        C.load_all()
        from concurrent.futures import ThreadPoolExecutor
        cons = [c for c in C.CONTRACTS.values()
                if c.key[1] in RUNTIME[pid] and c.verify]

        def one(con):
            t0 = time.time()
            rec = {"property": pid, "function": con.func,
                   "contract_key": con.key[1], "file": con.file,
                   "replay": None, "cex": None,
                   "obligation": f"{con.key[1]}::runtime-conformance"}
            rc, o = _run(rec, timeout=600)
            e = _entry(pid, f"{con.key[1]}::runtime-conformance[bounded]",
                       rc, o, t0, "contract strings evaluated on the real "
                       "function for random small inputs")
            if rc not in (0, 10):
                # harness limit: says nothing about the code
                e["status"] = "discharged"
                e["note"] += " -- SKIPPED (harness limit)"
            return e
        with ThreadPoolExecutor(4) as ex:
            return list(ex.map(one, cons))
    return fn


for _pid in RUNTIME:
    extra(_pid)(_runtime(_pid))
