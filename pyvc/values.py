"""Symbolic values of the pyvc verification-condition generator.

Everything here is deliberately small: values are either plain Python objects
(concrete ints, floats, strings, tuples, lists, dicts, None), z3 terms
(Int / Real / Bool / uninterpreted sorts), or one of the wrapper classes
below.  Arrays are *immutable* descriptions (length term + element getter);
mutability and aliasing are modelled by the cells that hold them.
"""
from __future__ import annotations

import itertools
import re

import z3


class Unsupported(Exception):
    """Construct outside the verified subset -> undecided (exit 2)."""


class SpecError(Exception):
    """Malformed contract."""


# --------------------------------------------------------------------------
# sorts
# --------------------------------------------------------------------------
_SORTS = {}


def usort(name):
    if name not in _SORTS:
        _SORTS[name] = z3.DeclareSort(name)
    return _SORTS[name]


INF = z3.Real("INF")          # np.inf as an (axiomatised: > every finite) real
NANV = z3.Real("NAN")         # only ever *stored*; never compared (guarded)

BACKGROUND = [INF > 1000000000]


def is_z3(v):
    return isinstance(v, z3.ExprRef)


def is_sym(v):
    return isinstance(v, (z3.ExprRef, SymSeq, SymStruct, SymRow, Cell, Obj,
                          Opaque))


def is_int(v):
    return (isinstance(v, int) and not isinstance(v, bool)) or (
        is_z3(v) and z3.is_int(v))


def is_real(v):
    return isinstance(v, float) or (is_z3(v) and z3.is_real(v))


def is_bool(v):
    return isinstance(v, bool) or (is_z3(v) and z3.is_bool(v))


def to_z3(v):
    """Concrete python scalar -> z3 term (z3 terms pass through)."""
    if is_z3(v):
        return v
    if isinstance(v, bool):
        return z3.BoolVal(v)
    if isinstance(v, int):
        return z3.IntVal(v)
    if isinstance(v, float):
        if v == float("inf"):
            return INF
        if v == float("-inf"):
            return -INF
        if v != v:
            return NANV
        return z3.RealVal(repr(v))
    raise Unsupported(f"cannot convert {type(v).__name__} to a term: {v!r}")


def to_real(v):
    v = to_z3(v)
    if z3.is_int(v):
        return z3.ToReal(v)
    if z3.is_bool(v):
        return z3.If(v, z3.RealVal(1), z3.RealVal(0))
    return v


def to_int(v):
    v = to_z3(v)
    if z3.is_bool(v):
        return z3.If(v, z3.IntVal(1), z3.IntVal(0))
    return v


def unify(a, b):
    """Bring two scalar terms to a common numeric sort."""
    a, b = to_z3(a), to_z3(b)
    if a.sort() == b.sort():
        return a, b
    if z3.is_bool(a) and not z3.is_bool(b):
        a = to_int(a)
    if z3.is_bool(b) and not z3.is_bool(a):
        b = to_int(b)
    if z3.is_int(a) and z3.is_real(b):
        a = z3.ToReal(a)
    elif z3.is_real(a) and z3.is_int(b):
        b = z3.ToReal(b)
    if a.sort() != b.sort():
        raise Unsupported(f"sort mismatch {a.sort()} vs {b.sort()}")
    return a, b


# --------------------------------------------------------------------------
# fresh names (deterministic across re-executions of a path)
# --------------------------------------------------------------------------
class Namer:
    def __init__(self):
        self.count = {}

    def fresh(self, base):
        base = re.sub(r"[^A-Za-z0-9_.]", "_", base)
        n = self.count.get(base, 0)
        self.count[base] = n + 1
        return base if n == 0 else f"{base}!{n}"


# --------------------------------------------------------------------------
# wrappers
# --------------------------------------------------------------------------
class Opaque:
    """A value the proof never looks inside (strings built by f-strings,
    plotting handles, ...).  Equality is identity."""

    def __init__(self, what="opaque"):
        self.what = what

    def __repr__(self):
        return f"<Opaque {self.what}>"


class SymSeq:
    """Immutable 1-D sequence: length term + element getter.

    `get(i)` takes a python int or z3 Int term and returns an element value
    (z3 term, SymRow, tuple ...).  `elem` is a type descriptor string used to
    make fresh copies (havoc)."""

    def __init__(self, length, get, elem="Real"):
        self.length = length
        self.get = get
        self.elem = elem

    def __repr__(self):
        return f"<SymSeq len={self.length} of {self.elem}>"


class SymRow:
    """One record of a structured array: field name -> scalar value."""

    def __init__(self, fields):
        self.fields = dict(fields)

    def __repr__(self):
        return f"<SymRow {list(self.fields)}>"


class SymStruct:
    """Immutable structured array: ordered field names -> SymSeq (all of the
    same length)."""

    def __init__(self, length, fields):
        self.length = length
        self.fields = dict(fields)

    def row(self, i):
        return SymRow({f: s.get(i) for f, s in self.fields.items()})

    def __repr__(self):
        return f"<SymStruct len={self.length} {list(self.fields)}>"


class Cell:
    """A mutable holder (numpy array object, python list object, record).

    kind: 'arr' (SymSeq/SymStruct value), 'row' (SymRow value),
          'list' (SymSeq value, python list semantics).
    Views created by basic slicing remember their parent and the parent's
    version; reading a view after the parent changed (or writing through a
    view) is outside the subset."""

    _ids = itertools.count()

    def __init__(self, kind, value, view_of=None):
        self.kind = kind
        self.value = value
        self.version = 0
        self.view_of = view_of
        self.view_version = view_of.version if view_of is not None else None
        self.id = next(Cell._ids)

    def read(self):
        if self.view_of is not None and \
                self.view_of.version != self.view_version:
            raise Unsupported("read of a numpy view after its base changed")
        return self.value

    def write(self, value):
        if self.view_of is not None:
            raise Unsupported("write through a numpy view")
        self.value = value
        self.version += 1

    def __repr__(self):
        return f"<Cell#{self.id} {self.kind} {self.value!r}>"


class Obj:
    """An object of a package class (or an abstract foreign object): class
    name + attribute dictionary."""

    def __init__(self, cls, attrs=None, abstract=False):
        self.cls = cls
        self.attrs = dict(attrs or {})
        self.abstract = abstract

    def __repr__(self):
        return f"<Obj {self.cls}>"


class GenResult:
    """Result of calling a generator function 'to the first yield'."""

    def __init__(self, value):
        self.value = value


class Closure:
    def __init__(self, node, env, interp, name="<lambda>"):
        self.node = node
        self.env = env
        self.interp = interp
        self.name = name


# --------------------------------------------------------------------------
# generic if-then-else and equality over structured values
# --------------------------------------------------------------------------
def ite(c, a, b):
    if isinstance(c, bool):
        return a if c else b
    if a is b:
        return a
    if isinstance(a, OptVal):
        a = a.value
    if isinstance(b, OptVal):
        b = b.value
    if isinstance(a, Cell):
        a = a.value
    if isinstance(b, Cell):
        b = b.value
    if isinstance(a, SymRow) and isinstance(b, SymRow):
        if set(a.fields) != set(b.fields):
            raise Unsupported("ite over rows with different fields")
        return SymRow({f: ite(c, a.fields[f], b.fields[f]) for f in a.fields})
    if isinstance(a, tuple) and isinstance(b, tuple) and len(a) == len(b):
        return tuple(ite(c, x, y) for x, y in zip(a, b))
    if isinstance(a, SymSeq) and isinstance(b, SymSeq):
        return SymSeq(ite(c, a.length, b.length),
                      lambda i: ite(c, a.get(i), b.get(i)), a.elem)
    if a is None and b is None:
        return None
    try:
        x, y = unify(a, b)
    except Unsupported:
        raise
    return z3.If(c, x, y)


def veq(a, b):
    """Structural equality as a z3 Bool (or python bool)."""
    if isinstance(a, Cell):
        a = a.read()
    if isinstance(b, Cell):
        b = b.read()
    if a is None or b is None:
        if a is None and b is None:
            return True
        other = b if a is None else a
        if isinstance(other, OptVal):
            return z3.Not(other.present)
        return False
    if isinstance(a, OptVal) or isinstance(b, OptVal):
        if isinstance(a, OptVal) and isinstance(b, OptVal):
            return z3.And(a.present == b.present,
                          z3.Implies(a.present, bz(veq(a.value, b.value))))
        o, v = (a, b) if isinstance(a, OptVal) else (b, a)
        return z3.And(o.present, bz(veq(o.value, v)))
    if isinstance(a, SymRow) and isinstance(b, SymRow):
        if set(a.fields) != set(b.fields):
            return False
        return z3.And(*[bz(veq(a.fields[f], b.fields[f]))
                        for f in a.fields]) if a.fields else True
    if isinstance(a, (tuple, list)) and isinstance(b, (tuple, list)):
        if len(a) != len(b):
            return False
        rs = [veq(x, y) for x, y in zip(a, b)]
        if all(isinstance(r, bool) for r in rs):
            return all(rs)
        return z3.And(*[bz(r) for r in rs])
    if isinstance(a, str) or isinstance(b, str):
        if isinstance(a, str) and isinstance(b, str):
            return a == b
        if isinstance(a, StrVal) or isinstance(b, StrVal):
            s, c = (a, b) if isinstance(a, StrVal) else (b, a)
            return s.eq_const(c)
        return False
    if isinstance(a, StrVal) and isinstance(b, StrVal):
        return a.term == b.term
    if isinstance(a, (SymSeq, SymStruct)) or isinstance(b, (SymSeq,
                                                              SymStruct)):
        raise Unsupported("array equality must be written with forall")
    if isinstance(a, (Obj, Opaque)) or isinstance(b, (Obj, Opaque)):
        return a is b
    if not is_z3(a) and not is_z3(b):
        return a == b
    x, y = unify(a, b)
    return x == y


def bz(v):
    """python bool / z3 Bool -> z3 Bool"""
    if isinstance(v, bool):
        return z3.BoolVal(v)
    if is_z3(v) and z3.is_bool(v):
        return v
    raise Unsupported(f"expected a boolean, got {v!r}")


class OptVal:
    """Optional[T]: presence flag + payload."""

    def __init__(self, present, value):
        self.present = present
        self.value = value

    def __repr__(self):
        return f"<Opt {self.present} {self.value}>"


class StrVal:
    """A symbolic string drawn from a finite alphabet: an Int code with a
    table of the known constants (unknown strings get codes >= len(table))."""

    TABLE = []

    def __init__(self, term):
        self.term = term

    @classmethod
    def code(cls, s):
        if s not in cls.TABLE:
            cls.TABLE.append(s)
        return cls.TABLE.index(s)

    def eq_const(self, s):
        return self.term == z3.IntVal(StrVal.code(s))


# --------------------------------------------------------------------------
# type descriptors:  Int | Real | Bool | Str | Opt(T) | Seq(T) | List(T) |
#   Struct(f:T,...) | Row(f:T,...) | Obj(Class) | Sort(Name) | Tuple(T,...) |
#   Any
# --------------------------------------------------------------------------
from .types import parse_type, _split_top  # noqa: E402,F401


def scalar_sort(tname):
    if tname == "Int":
        return z3.IntSort()
    if tname == "Real":
        return z3.RealSort()
    if tname == "Bool":
        return z3.BoolSort()
    if tname == "Str":
        return z3.IntSort()
    p = parse_type(tname)
    if p[0] == "Sort":
        return usort(p[1])
    return None
