"""Resolver: static well-formedness obligations over the package's classes.

For every method of the classes under analysis:
  * attr_defined   every `self.X` read resolves: X is assigned somewhere in
                   the MRO (`self.X = ...`, aug-assign, class body, property,
                   method, `__slots__`), is a key written into the dict that
                   `__getstate__` returns (those become attributes on
                   unpickling), or is assigned from outside by package code
                   (`obj.X = ...` anywhere in the package);
  * call_binds     every call of a package callable whose definition can be
                   resolved (self.m(...), self.<typed attr>.m(...),
                   ClassName(...), module-level functions) binds to its
                   signature: positional count, keyword names, required
                   parameters;
  * recv_attr      every `self.<typed attr>.X` read / call resolves in the
                   receiver's class.
Soundness rules (never alarm on code that works): reads guarded by
hasattr / getattr(default) / try-except AttributeError are exempt; classes
using __getattr__ / setattr dynamically are skipped and named; receivers
whose class cannot be determined generate no obligation (counted)."""
from __future__ import annotations

import ast

from .front import ClassIndex, Source


class Resolver:
    def __init__(self, type_map=None):
        self.ci = ClassIndex.get()
        self.type_map = dict(type_map or {})      # (cls, attr) -> class name
        self.ext_assigned = self._external_assignments()
        self.unresolved = 0
        self._infer_types()

    # ------------------------------------------------------------------
    def _external_assignments(self):
        """attribute names assigned on any non-self object anywhere in the
        package (obj.X = ...): they may define X on instances of any class"""
        out = set()
        seen = set()
        for info in self.ci.classes.values():
            f = info["file"]
            if f in seen:
                continue
            seen.add(f)
            src = Source.get(f)
            for node in ast.walk(src.tree):
                tg = []
                if isinstance(node, ast.Assign):
                    tg = node.targets
                elif isinstance(node, (ast.AugAssign, ast.AnnAssign)):
                    tg = [node.target]
                for t in tg:
                    for tt in ast.walk(t):
                        if isinstance(tt, ast.Attribute) and isinstance(
                                tt.ctx, ast.Store) and not (
                                isinstance(tt.value, ast.Name) and
                                tt.value.id == "self"):
                            out.add(tt.attr)
                if isinstance(node, ast.Call) and isinstance(
                        node.func, ast.Name) and node.func.id == "setattr" \
                        and len(node.args) >= 2 and isinstance(
                        node.args[1], ast.Constant):
                    out.add(node.args[1].value)
        return out

    def _infer_types(self):
        """self.x = ClassName(...)  /  property -> ClassName annotations"""
        for cname, info in self.ci.classes.items():
            for fn in list(info["methods"].values()):
                for node in ast.walk(fn):
                    if isinstance(node, ast.Assign) and isinstance(
                            node.value, ast.Call):
                        f = node.value.func
                        callee = f.id if isinstance(f, ast.Name) else None
                        if callee in self.ci.classes:
                            for t in node.targets:
                                if isinstance(t, ast.Attribute) and \
                                        isinstance(t.value, ast.Name) and \
                                        t.value.id == "self":
                                    self.type_map.setdefault(
                                        (cname, t.attr), callee)
            for pname, fn in info["properties"].items():
                r = fn.returns
                if isinstance(r, ast.Name) and r.id in self.ci.classes:
                    self.type_map.setdefault((cname, pname), r.id)

    def attr_type(self, cls, attr):
        for c in self.ci.mro(cls):
            if (c, attr) in self.type_map:
                return self.type_map[(c, attr)]
        return None

    # ------------------------------------------------------------------
    def defined_attrs(self, cls):
        out = set()
        dynamic = False
        for c in self.ci.mro(cls):
            info = self.ci.classes[c]
            out |= info["self_attrs"] | info["class_attrs"]
            out |= set(info["methods"]) | set(info["properties"]) | \
                set(info["setters"])
            if "__getattr__" in info["methods"] or \
                    "__getattribute__" in info["methods"]:
                dynamic = True
            for fn in info["methods"].values():
                for node in ast.walk(fn):
                    # state["X"] = ... in __getstate__ ; setattr(self, "X")
                    if fn.name == "__getstate__" and isinstance(
                            node, ast.Assign):
                        for t in node.targets:
                            if isinstance(t, ast.Subscript) and isinstance(
                                    t.slice, ast.Constant) and isinstance(
                                    t.slice.value, str):
                                out.add(t.slice.value)
                    if isinstance(node, ast.Call) and isinstance(
                            node.func, ast.Name) and \
                            node.func.id == "setattr" and node.args and \
                            isinstance(node.args[0], ast.Name) and \
                            node.args[0].id == "self":
                        if len(node.args) > 1 and isinstance(
                                node.args[1], ast.Constant):
                            out.add(node.args[1].value)
                        else:
                            dynamic = True
            for st in info["node"].body:
                if isinstance(st, ast.Assign) and any(
                        isinstance(t, ast.Name) and t.id == "__slots__"
                        for t in st.targets):
                    try:
                        out |= set(ast.literal_eval(st.value))
                    except Exception:
                        pass
            # base classes outside the package (ABC, torch.nn.Module...)
            for b in info["bases"]:
                if b not in self.ci.classes and b not in ("ABC", "object"):
                    dynamic = True
        return out, dynamic

    # ------------------------------------------------------------------
    @staticmethod
    def _guarded(fn):
        """line spans in which AttributeError is caught; attribute names
        tested with hasattr / fetched with getattr(default)"""
        spans, names = [], set()
        for node in ast.walk(fn):
            if isinstance(node, ast.Try):
                for h in node.handlers:
                    tys = []
                    if h.type is None:
                        tys = [None]
                    elif isinstance(h.type, ast.Tuple):
                        tys = [getattr(e, "id", None) for e in h.type.elts]
                    else:
                        tys = [getattr(h.type, "id", None)]
                    if None in tys or "AttributeError" in tys or \
                            "Exception" in tys:
                        spans.append((node.body[0].lineno,
                                      node.body[-1].end_lineno))
            if isinstance(node, ast.Call) and isinstance(
                    node.func, ast.Name) and node.func.id in (
                    "hasattr", "getattr") and len(node.args) >= 2 and \
                    isinstance(node.args[1], ast.Constant):
                names.add(node.args[1].value)
        return spans, names

    # ------------------------------------------------------------------
    def check_signature(self, fn, call, skip_first, what):
        """Does `call` bind to FunctionDef `fn`?  Returns None or a reason."""
        a = fn.args
        params = [p.arg for p in a.posonlyargs + a.args]
        if skip_first and params:
            params = params[1:]
        n_def = len(a.defaults)
        allp = [p.arg for p in a.posonlyargs + a.args]
        with_default = set(allp[len(allp) - n_def:]) if n_def else set()
        kwonly = [p.arg for p in a.kwonlyargs]
        kwonly_req = [p.arg for p, d in zip(a.kwonlyargs, a.kw_defaults)
                      if d is None]
        star_pos = any(isinstance(x, ast.Starred) for x in call.args)
        star_kw = any(k.arg is None for k in call.keywords)
        npos = len([x for x in call.args if not isinstance(x, ast.Starred)])
        if npos > len(params) and a.vararg is None:
            return (f"{what}: {npos} positional argument(s) for "
                    f"{len(params)} parameter(s)")
        given = set(params[:npos])
        for k in call.keywords:
            if k.arg is None:
                continue
            if k.arg not in params and k.arg not in kwonly and \
                    a.kwarg is None:
                return f"{what}: unexpected keyword argument '{k.arg}'"
            if k.arg in given:
                return f"{what}: multiple values for argument '{k.arg}'"
            given.add(k.arg)
        if not star_pos and not star_kw:
            for p in params:
                if p not in given and p not in with_default:
                    return f"{what}: missing required argument '{p}'"
            for p in kwonly_req:
                if p not in given:
                    return f"{what}: missing keyword-only argument '{p}'"
        return None

    # ------------------------------------------------------------------
    def check_class(self, cls, only_methods=None):
        """-> list of (kind, method, lineno, message, detail)"""
        out = []
        defined, dynamic = self.defined_attrs(cls)
        info = self.ci.classes[cls]
        fns = list(info["methods"].items()) + \
            list(info["properties"].items())
        stats = {"reads": 0, "calls": 0, "recv": 0}
        for mname, fn in fns:
            if only_methods and mname not in only_methods:
                continue
            spans, gnames = self._guarded(fn)
            is_static = mname in info["static"]
            if is_static:
                continue

            def exempt(node, name):
                if name in gnames:
                    return True
                return any(lo <= node.lineno <= hi for lo, hi in spans)

            for node in ast.walk(fn):
                # ---- self.X reads ------------------------------------
                if isinstance(node, ast.Attribute) and isinstance(
                        node.value, ast.Name) and node.value.id == "self" \
                        and isinstance(node.ctx, ast.Load):
                    stats["reads"] += 1
                    x = node.attr
                    if x.startswith("__") or dynamic:
                        continue
                    if x in defined or x in self.ext_assigned or \
                            exempt(node, x):
                        continue
                    out.append(("attr_defined", mname, node.lineno,
                                f"self.{x} is read in {cls}.{mname} but "
                                f"never defined for {cls}", x))
                # ---- self.<typed>.X ----------------------------------
                if isinstance(node, ast.Attribute) and isinstance(
                        node.value, ast.Attribute) and isinstance(
                        node.value.value, ast.Name) and \
                        node.value.value.id == "self" and isinstance(
                        node.ctx, ast.Load):
                    t = self.attr_type(cls, node.value.attr)
                    if t is None:
                        self.unresolved += 1
                    else:
                        stats["recv"] += 1
                        d2, dyn2 = self.defined_attrs(t)
                        x = node.attr
                        if not dyn2 and x not in d2 and \
                                x not in self.ext_assigned and \
                                not exempt(node, x):
                            out.append((
                                "recv_attr", mname, node.lineno,
                                f"self.{node.value.attr}.{x} in "
                                f"{cls}.{mname}: {t} has no attribute "
                                f"'{x}'", f"{node.value.attr}.{x}"))
                # ---- calls -------------------------------------------
                if isinstance(node, ast.Call):
                    f = node.func
                    target = None
                    what = None
                    skip = True
                    if isinstance(f, ast.Attribute) and isinstance(
                            f.value, ast.Name) and f.value.id == "self":
                        d, fn2, kind = self.ci.find_method(cls, f.attr)
                        if kind == "method":
                            target, what = fn2, f"{d}.{f.attr}"
                            skip = f.attr not in \
                                self.ci.classes[d]["static"]
                    elif isinstance(f, ast.Attribute) and isinstance(
                            f.value, ast.Attribute) and isinstance(
                            f.value.value, ast.Name) and \
                            f.value.value.id == "self":
                        t = self.attr_type(cls, f.value.attr)
                        if t is not None:
                            d, fn2, kind = self.ci.find_method(t, f.attr)
                            if kind == "method":
                                target, what = fn2, f"{d}.{f.attr}"
                                skip = f.attr not in \
                                    self.ci.classes[d]["static"]
                    elif isinstance(f, ast.Name) and \
                            f.id in self.ci.classes:
                        d, fn2, kind = self.ci.find_method(f.id, "__init__")
                        if kind == "method":
                            target, what = fn2, f"{f.id}.__init__"
                    if target is not None:
                        stats["calls"] += 1
                        why = self.check_signature(target, node, skip, what)
                        if why is not None:
                            out.append(("call_binds", mname, node.lineno,
                                        f"{cls}.{mname}: {why}", what))
        return out, stats, dynamic
