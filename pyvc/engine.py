"""pyvc symbolic executor / verification-condition generator.

Interprets the `ast.FunctionDef` read from /repo against sidecar contracts:
  * paths are enumerated by re-execution with a decision list,
  * loops are cut by invariants from the sidecar,
  * calls to package functions use the callee's contract (never its body,
    unless the contract is marked inline),
  * numpy / builtins go through the library models in pyvc.nplib,
  * every proof duty becomes an `Obl` (hypotheses = path condition, goal).
"""
from __future__ import annotations

import ast
import copy as _copy
import time

import z3

from . import contracts as C
from .front import Source, ClassIndex
from .values import (Unsupported, SpecError, SymSeq, SymStruct, SymRow, Cell,
                     Obj, Opaque, GenResult, Closure, OptVal, StrVal, Namer,
                     ite, veq, bz, to_z3, to_real, to_int, unify, is_z3,
                     is_int, is_bool, parse_type, scalar_sort, usort, INF,
                     NANV, BACKGROUND)


# --------------------------------------------------------------------------
class PathEnd(Exception):
    pass


class ReturnEx(Exception):
    def __init__(self, value):
        self.value = value


class BreakEx(Exception):
    pass


class ContinueEx(Exception):
    pass


class RaiseEx(Exception):
    def __init__(self, exc, lineno):
        self.exc = exc
        self.lineno = lineno


class Obl:
    __slots__ = ("name", "kind", "func", "lineno", "hyps", "goal", "path",
                 "status", "time", "model", "note", "solver", "interp",
                 "ncalls", "replay")

    def __init__(self, name, kind, func, lineno, hyps, goal, path):
        self.name = name
        self.kind = kind
        self.func = func
        self.lineno = lineno
        self.hyps = hyps
        self.goal = goal
        self.path = path
        self.status = None
        self.time = 0.0
        self.model = None
        self.note = ""
        self.solver = ""
        self.interp = None
        self.ncalls = 0
        self.replay = None

    def ident(self):
        return f"{self.func}::{self.name}"


DROP_ROOTS = {"logger", "logging", "warnings", "plt", "pbar", "tqdm", "sns"}


def _root_name(node):
    while isinstance(node, (ast.Attribute, ast.Call, ast.Subscript)):
        node = node.func if isinstance(node, ast.Call) else node.value
    return node.id if isinstance(node, ast.Name) else None


class Stats:
    def __init__(self):
        self.paths = 0
        self.dropped = {}
        self.lib_used = set()
        self.contracts_used = set()
        self.trusted_used = set()
        self.inlined = set()
        self.covers = {}
        self.feas_checks = 0


# --------------------------------------------------------------------------
class Interp:
    """One path of one function."""

    def __init__(self, verifier, contract, decisions):
        self.V = verifier
        self.contract = contract
        self.src = Source.get(contract.file)
        self.decisions = list(decisions)
        self.dptr = 0
        self.new_forks = []           # indices where the alternative is open
        self.pc = list(BACKGROUND)
        self.obls = []
        self.namer = Namer()
        self.spec = False             # evaluating a contract expression
        self.old_env = None
        self.result = None
        self.cur_line = 0
        self.stats = verifier.stats
        self.func_stack = [contract.func]
        self.src_stack = [self.src]
        self.hole = None
        self.touched = set()
        self.ghost = {}
        self.call_log = []
        self.entry_old = None
        self.ghost_vals = {}
        self.final_env = None
        self.ghost_funcs = {}
        self.try_depth = 0

    # ---------------------------------------------------------- utilities
    def fresh_const(self, base, sort):
        return z3.Const(self.namer.fresh(base), sort)

    def assume(self, f):
        if isinstance(f, bool):
            if not f:
                raise PathEnd()
            return
        self.pc.append(f)

    def oblige(self, name, goal, kind="assert", lineno=None, assume=True,
               replay=None):
        if self.spec and kind in ("safety", "lib_requires"):
            # contract expressions are total (out-of-range reads of an
            # uninterpreted array are unspecified values, not errors)
            return
        if isinstance(goal, bool):
            goal = z3.BoolVal(goal)
        if not _has_quant(goal):
            # ground goal: resolve index-normalisation if-then-else terms
            # under the path's length facts (keeps proofs insensitive to
            # solver heuristics)
            goal = self.ctx_simplify(z3.BoolVal(True), goal)
        self.sum_lemmas(goal)
        o = Obl(name, kind, self.func_stack[0], lineno or self.cur_line,
                list(self.pc), goal, tuple(self.decisions[:self.dptr]))
        o.interp = self
        o.ncalls = len(self.call_log)
        o.replay = replay
        self.obls.append(o)
        # after stating a duty we may rely on it further down the path
        # (not for point-wise invariants such as C13's interrupt invariant,
        # which may legitimately fail at one statement and hold at the next)
        if assume:
            self.pc.append(goal)

    def fail(self, name):
        """A definite run-time error on this path."""
        if self.spec:
            raise Unsupported(f"undefined value in a contract expression "
                              f"({name})")
        self.oblige(name, False, "safety")
        raise PathEnd()

    def check_not_vacuous(self, where, n_before=None):
        """Vacuity guard: assuming a callee's postcondition (or a loop
        invariant) must not make the path condition contradictory -- a
        contradiction there would discharge everything downstream for
        free.  Reported as a checker error (exit 3), never as a pass."""
        if self.ghost.get("vacuous"):
            return
        # quantifier-free part only: the contradictions this guards against
        # (an `assume False`, clashing scalar facts) live there, and it
        # costs milliseconds
        s = z3.Solver()
        s.set("timeout", 400)
        for f in self.pc:
            if not _has_quant(f):
                s.add(f)
        if s.check() == z3.unsat:
            self.ghost["vacuous"] = True
            if n_before is not None:
                # already infeasible before the call: an unreachable branch,
                # not a contradictory contract
                s0 = z3.Solver()
                s0.set("timeout", 400)
                for f in self.pc[:n_before]:
                    if not _has_quant(f):
                        s0.add(f)
                if s0.check() == z3.unsat:
                    return
            self.V.vacuity_alarms.append(
                f"{self.func_stack[0]}: path condition contradictory "
                f"{where} (line {self.cur_line})")

    def sum_lemmas(self, goal):
        """Finite-sum congruence (Lean: Finset.sum_congr), instantiated for
        every pair of sum terms one of which occurs in the goal:
          lo=lo' & hi=hi' & (forall lo<=k<hi. a[k]=b[k])
             ==> SUMA(a,lo,hi) = SUMA(b,lo',hi')"""
        lib = self.V.lib
        gs = _sum_terms([goal])
        if not gs:
            return
        hs = _sum_terms(self.pc)
        done = self.ghost.setdefault("sum_congr_done", set())
        allt = {**hs, **gs}
        for ida, a in gs.items():
            for idb, b in allt.items():
                if ida == idb:
                    continue
                key = (min(ida, idb), max(ida, idb))
                if key in done:
                    continue
                done.add(key)
                la, loa, hia = a.children()
                lb, lob, hib = b.children()
                k = z3.Int(self.namer.fresh("q_sc"))
                ante = z3.And(loa == lob, hia == hib, z3.ForAll(
                    [k], z3.Implies(z3.And(loa <= k, k < hia),
                                    lib.lam_at(la, k) == lib.lam_at(lb, k))))
                self.pc.append(z3.Implies(ante, a == b))
                self.stats.lib_used.add("lemma:sum_congr")

    def feasible(self, cond):
        """Cheap over-approximate feasibility: quantifier-free part of the
        path condition only; unknown counts as feasible."""
        self.stats.feas_checks += 1
        s = z3.Solver()
        s.set("timeout", 1500)
        for f in self.pc:
            if not _has_quant(f):
                s.add(f)
        s.add(cond)
        return s.check() != z3.unsat

    def fork(self, cond):
        """Decide a symbolic boolean on this path."""
        if isinstance(cond, bool):
            return cond
        cond = z3.simplify(cond)
        if z3.is_true(cond):
            return True
        if z3.is_false(cond):
            return False
        if self.spec:
            raise Unsupported("fork inside a contract expression")
        # feasibility first: a one-sided fork never consumes a recorded
        # decision (otherwise the decision list of a re-execution would be
        # applied to the wrong program points and paths would be lost)
        t_ok, f_ok = self.feasible2(cond)
        if t_ok and f_ok:
            if self.dptr < len(self.decisions):
                d = self.decisions[self.dptr]
                self.dptr += 1
                self.add_pc(cond if d else z3.Not(cond))
                return d
            self.decisions.append(True)
            self.new_forks.append(len(self.decisions) - 1)
            self.dptr += 1
            self.add_pc(cond)
            return True
        if t_ok:
            self.add_pc(cond)
            return True
        if f_ok:
            self.add_pc(z3.Not(cond))
            return False
        raise PathEnd()

    def feasible2(self, cond):
        """(cond feasible, not cond feasible) over the quantifier-free part
        of the path condition; cached across re-executions (z3 terms are
        hash-consed, names are deterministic)."""
        qf = [f for f in self.pc if not _has_quant(f)]
        key = (tuple(f.get_id() for f in qf), cond.get_id())
        cache = self.V.feas_cache
        if key in cache:
            return cache[key][:2]
        self.stats.feas_checks += 1
        s = z3.Solver()
        s.set("timeout", 1500)
        for f in qf:
            s.add(f)
        s.push()
        s.add(cond)
        t_ok = s.check() != z3.unsat
        s.pop()
        s.add(z3.Not(cond))
        f_ok = s.check() != z3.unsat
        # the keyed terms are stored with the entry: a live AST keeps its id,
        # so an id in a key can never be re-used by a different term
        cache[key] = (t_ok, f_ok, qf, cond)
        return t_ok, f_ok

    def add_pc_checked(self, f):
        self.add_pc(f)

    def add_pc(self, f):
        """append a decided condition, flattening conjunctions so that
        Optional narrowing can find the presence literals"""
        f = z3.simplify(f)
        self.pc.append(f)
        if z3.is_and(f):
            for c in f.children():
                self.pc.append(c)
        elif z3.is_not(f) and z3.is_or(f.arg(0)):
            for c in f.arg(0).children():
                self.pc.append(z3.simplify(z3.Not(c)))

    # ------------------------------------------------------ fresh by type
    def fresh(self, ty, name):
        p = parse_type(ty)
        k = p[0]
        if k in ("Int", "Real", "Bool"):
            return self.fresh_const(name, scalar_sort(k))
        if k == "Nat":
            v = self.fresh_const(name, z3.IntSort())
            self.assume(v >= 0)
            return v
        if k == "Str":
            return StrVal(self.fresh_const(name, z3.IntSort()))
        if k == "Sort":
            return self.fresh_const(name, usort(p[1]))
        if k == "Any":
            return Opaque(name)
        if k == "EmptyDict":
            return {}
        if k == "Dict":
            return {f: self.fresh(fty, f"{name}.{f}")
                    for f, fty in parse_type("Row(" + p[1] + ")")[1]}
        if k == "None":
            return None
        if k == "Opt":
            return OptVal(self.fresh_const(name + "?", z3.BoolSort()),
                          self.fresh(p[1], name + ".v"))
        if k == "Seq" or k == "List":
            seq = self.fresh_seq(p[1], name)
            return Cell("arr" if k == "Seq" else "list", seq)
        if k == "Struct":
            n = self.fresh_const(name + ".len", z3.IntSort())
            self.assume(n >= 0)
            fields = {}
            for f, fty in p[1]:
                fields[f] = self.fresh_seq(fty, f"{name}.{f}", length=n)
            return Cell("arr", SymStruct(n, fields))
        if k == "Row":
            return Cell("row", SymRow({f: self.fresh(fty, f"{name}.{f}")
                                       for f, fty in p[1]}))
        if k == "Tuple":
            return tuple(self.fresh(t, f"{name}.{i}")
                         for i, t in enumerate(p[1]))
        if k == "Obj":
            return self.fresh_obj(p[1], name)
        if k == "PyConst":
            import ast as _ast
            return _ast.literal_eval(p[1])
        if k == "PyList":
            ety, n = [x.strip() for x in p[1].rsplit(",", 1)]
            return [self.fresh(ety, f"{name}[{i}]") for i in range(int(n))]
        if k == "Path":
            return self.V.lib.PathVal(name)
        if k == "Pickler":
            return self.V.lib.PicklerVal()
        if k == "Func":
            from .nplib import FuncVal
            f1 = z3.Function(self.namer.fresh(name + ".f1"), usort(p[1]),
                             z3.RealSort())
            return FuncVal(f1, name)
        if k == "Pool":
            from .nplib import PoolVal
            return PoolVal()
        if k == "Fn":
            # a reference to a package function: Fn(path/to/file.py:name)
            f_, q_ = p[1].split(":")
            return PkgFunc(f_.strip(), q_.strip())
        if k == "DType":
            from .nplib import DTypeVal
            return DTypeVal(parse_type("Row(" + p[1] + ")")[1])
        if k == "IDict":
            # dict with int keys inserted in the order -1, 0, 1, ...:
            # the values in insertion order (position p <-> key p - 1)
            seq = self.fresh_seq(p[1], name)
            return Cell("idict", seq)
        if k == "Tbl":
            # 2-D table: rows -> abstract row values of sort p[1]
            seq = self.fresh_seq(f"Sort({p[1]})", name)
            return Cell("arr", seq)
        raise SpecError(f"unknown type descriptor {ty!r}")

    def fresh_ghost_func(self, name, sig):
        dom, rng = sig.split("->")
        srt = {"Int": z3.IntSort(), "Bool": z3.BoolSort(),
               "Real": z3.RealSort()}
        f = z3.Function(self.namer.fresh(name),
                        *[srt[d.strip()] for d in dom.split(",")],
                        srt[rng.strip()])
        return LibFunc(name, lambda I, *a, f=f: f(*[to_int(x) for x in a]))

    def fresh_seq(self, elem, name, length=None):
        if length is None:
            length = self.fresh_const(name + ".len", z3.IntSort())
            self.assume(length >= 0)
        p = parse_type(elem)
        srt = scalar_sort(elem)
        if srt is not None:
            f = z3.Function(self.namer.fresh(name), z3.IntSort(), srt)
            if elem == "Str":
                return SymSeq(length, lambda i, f=f: StrVal(f(to_int(i))),
                              elem)
            return SymSeq(length, lambda i, f=f: f(to_int(i)), elem)
        if p[0] == "Row":
            fs = {}
            for fn_, fty in p[1]:
                s = scalar_sort(fty)
                if s is None:
                    raise SpecError(f"row field type {fty}")
                fs[fn_] = z3.Function(self.namer.fresh(f"{name}.{fn_}"),
                                      z3.IntSort(), s)
            return SymSeq(length,
                          lambda i, fs=fs: SymRow({k_: f(to_int(i))
                                                   for k_, f in fs.items()}),
                          elem)
        if p[0] == "Tuple":
            subs = [self.fresh_seq(t, f"{name}.{j}", length)
                    for j, t in enumerate(p[1])]
            return SymSeq(length, lambda i, subs=subs:
                          tuple(s.get(i) for s in subs), elem)
        raise SpecError(f"unsupported element type {elem!r}")

    def fresh_obj(self, shape_name, name):
        sh = C.SHAPES.get(shape_name)
        if sh is None:
            raise SpecError(f"no shape {shape_name!r}")
        o = Obj(sh.cls, abstract=False)
        o.shape = shape_name
        for a, ty in sh.attrs.items():
            o.attrs[a] = self.fresh(ty, f"{name}.{a}")
        return o

    # ----------------------------------------------------------- snapshot
    def snapshot(self, roots):
        memo = {}

        def cp(v):
            if isinstance(v, Cell):
                if id(v) in memo:
                    return memo[id(v)]
                val = v.value
                if isinstance(val, (SymRow,)):
                    val = SymRow(val.fields)
                c = Cell.__new__(Cell)
                c.kind, c.value, c.version = v.kind, val, v.version
                c.view_of, c.view_version, c.id = None, None, v.id
                memo[id(v)] = c
                return c
            if isinstance(v, Obj):
                if id(v) in memo:
                    return memo[id(v)]
                o = Obj(v.cls, abstract=v.abstract)
                if hasattr(v, "shape"):
                    o.shape = v.shape
                memo[id(v)] = o
                for a, x in v.attrs.items():
                    o.attrs[a] = cp(x)
                return o
            if isinstance(v, OptVal):
                return OptVal(v.present, cp(v.value))
            if isinstance(v, tuple):
                return tuple(cp(x) for x in v)
            if isinstance(v, list):
                return [cp(x) for x in v]
            if isinstance(v, dict):
                return {k_: cp(x) for k_, x in v.items()}
            return v

        return {k_: cp(v) for k_, v in roots.items()}

    # ------------------------------------------------------------- truth
    def truth(self, v):
        """Python truthiness as bool / z3 Bool."""
        if isinstance(v, Cell):
            val = v.read()
            if v.kind == "list":
                return self._gt0(val.length)
            if v.kind == "row":
                raise Unsupported("truth value of a record")
            if isinstance(val, (SymSeq, SymStruct)):
                raise Unsupported("truth value of an array")
        if v is None:
            return False
        if isinstance(v, (bool, int, float, str, tuple, list, dict)):
            return bool(v)
        if isinstance(v, OptVal):
            return z3.And(v.present, bz(self.truth(v.value)))
        if isinstance(v, StrVal):
            return v.term != z3.IntVal(StrVal.code(""))
        if is_z3(v):
            if z3.is_bool(v):
                return v
            if z3.is_int(v):
                return v != 0
            if z3.is_real(v):
                return v != 0
            return True
        if isinstance(v, (Obj, Opaque, Closure, self.V.lib.FuncVal,
                          self.V.lib.PoolVal, PkgFunc, BoundMethod,
                          self.V.lib.PathVal, self.V.lib.PicklerVal,
                          self.V.lib.LoadedVal)):
            return True
        raise Unsupported(f"truth value of {v!r}")

    @staticmethod
    def _gt0(n):
        return n > 0 if not is_z3(n) else n > 0

    def decide(self, v):
        t = self.truth(v)
        if self.spec:
            return t
        return self.fork(t)

    # ============================================================ statements
    def exec_block(self, stmts, env):
        for st in stmts:
            self.exec_stmt(st, env)

    def exec_stmt(self, st, env):
        self.cur_line = getattr(st, "lineno", self.cur_line)
        self.cur_env = env
        if len(self.func_stack) == 1 and self.contract.hints and \
                not isinstance(st, (ast.If, ast.For, ast.While, ast.With,
                                    ast.Try, ast.FunctionDef)):
            # proof hints (lemma instances) anchored before a statement of
            # the verified function: ("before_stmt", <substring of the
            # statement's source>, <lemma expression over the locals>)
            src = None
            for anchor, pat, hexpr in self.contract.hints:
                if anchor == "assert_before_stmt":
                    # a contract clause attached to a program point: must
                    # hold whenever control reaches the matching statement
                    if src is None:
                        src = ast.unparse(st)
                    if pat in src:
                        saved_old = self.old_env
                        self.old_env = getattr(self, "entry_old", saved_old)
                        try:
                            g = self.eval_spec(hexpr, env)
                        finally:
                            self.old_env = saved_old
                        self.oblige(f"at[{pat}]@{self.cur_line}", g,
                                    "stmt_assert")
                    continue
                if anchor != "before_stmt":
                    continue
                if src is None:
                    src = ast.unparse(st)
                if pat in src:
                    saved_old = self.old_env
                    self.old_env = getattr(self, "entry_old", saved_old)
                    try:
                        h = self.eval_spec(hexpr, env)
                    finally:
                        self.old_env = saved_old
                    if h is not None and not isinstance(h, bool):
                        self.sum_lemmas(bz(h))
                        self.assume(bz(h))
        m = getattr(self, "s_" + type(st).__name__, None)
        if m is None:
            raise Unsupported(f"statement {type(st).__name__} at line "
                              f"{self.cur_line}")
        m(st, env)
        hook = self.V.stmt_hook
        if hook is not None and len(self.func_stack) == 1:
            hook(self, st, env)

    def _drop(self, what):
        self.stats.dropped[what] = self.stats.dropped.get(what, 0) + 1

    def s_Expr(self, st, env):
        v = st.value
        if isinstance(v, ast.Constant):
            if isinstance(v.value, str):
                self._drop("docstring")
            return
        if isinstance(v, ast.Call):
            root = _root_name(v.func)
            if root in DROP_ROOTS:
                self._drop(f"{root}.* call")
                return
        if isinstance(v, (ast.Yield,)):
            val = self.eval(v.value, env) if v.value is not None else None
            raise ReturnEx(val)
        self.eval(v, env)

    def s_Pass(self, st, env):
        pass

    def s_Assert(self, st, env):
        t = self.decide(self.eval(st.test, env))
        if t is False:
            self.oblige(f"assert@{st.lineno}", False, "assert")
            raise PathEnd()

    def s_Return(self, st, env):
        raise ReturnEx(self.eval(st.value, env) if st.value is not None
                       else None)

    def s_Break(self, st, env):
        raise BreakEx()

    def s_Continue(self, st, env):
        raise ContinueEx()

    def s_Raise(self, st, env):
        name = "Exception"
        if st.exc is not None:
            e = st.exc
            if isinstance(e, ast.Call):
                e = e.func
            if isinstance(e, ast.Name):
                name = e.id
            elif isinstance(e, ast.Attribute):
                name = e.attr
        raise RaiseEx(name, st.lineno)

    def s_Global(self, st, env):
        pass

    def s_Import(self, st, env):
        for a in st.names:
            env[a.asname or a.name.split(".")[0]] = ModuleRef(
                a.name if a.asname else a.name.split(".")[0])

    def s_ImportFrom(self, st, env):
        if st.level:
            raise Unsupported("relative import inside a function")
        for a in st.names:
            env[a.asname or a.name] = self.V.lib.resolve_dotted(
                self, f"{st.module}.{a.name}")

    def s_Delete(self, st, env):
        for t in st.targets:
            if isinstance(t, ast.Name):
                env.pop(t.id, None)
            elif isinstance(t, ast.Subscript):
                base = self.eval(t.value, env)
                key = self.eval(t.slice, env)
                if isinstance(base, dict) and isinstance(key, (str, int)):
                    if key not in base:
                        self.fail(f"del_missing_key_{key}@{self.cur_line}")
                    del base[key]
                else:
                    raise Unsupported("del of a symbolic subscript")
            else:
                raise Unsupported("del of non-name")

    def s_Assign(self, st, env):
        v = self.eval(st.value, env)
        for t in st.targets:
            self.assign(t, v, env)

    def s_AnnAssign(self, st, env):
        if st.value is not None:
            self.assign(st.target, self.eval(st.value, env), env)

    def s_AugAssign(self, st, env):
        # numpy in-place semantics == rebinding for our immutable values
        load = _copy.copy(st.target)
        load.ctx = ast.Load()
        cur = self.eval(load, env)
        rhs = self.eval(st.value, env)
        if isinstance(cur, Cell) and cur.kind == "arr" and not (
                cur.view_of is not None and
                isinstance(st.target, ast.Subscript)):
            # (a[k] op= v on a view a[k] of a: the in-place update of the
            # view followed by the store of the view onto itself is the
            # store of the new value: the assign path below)
            new = self.binop(st.op, cur, rhs)
            cur.write(self.unwrap(new))
            return
        if isinstance(cur, Cell) and cur.kind == "list" and isinstance(
                st.op, ast.Add):
            self.V.lib.list_extend(self, cur, rhs)
            return
        self.assign(st.target, self.binop(st.op, cur, rhs), env)

    def s_If(self, st, env):
        if self.decide(self.eval(st.test, env)):
            self.exec_block(st.body, env)
        else:
            self.exec_block(st.orelse, env)

    def s_With(self, st, env):
        for item in st.items:
            ce = item.context_expr
            root = _root_name(ce) if isinstance(ce, ast.Call) else None
            if root in DROP_ROOTS:
                self._drop(f"with {root}(...)")
                if item.optional_vars is not None and isinstance(
                        item.optional_vars, ast.Name):
                    env[item.optional_vars.id] = Opaque(root)
                continue
            v = self.eval(ce, env)
            entered = self.V.lib.ctx_enter(self, v)
            if item.optional_vars is not None:
                self.assign(item.optional_vars, entered, env)
            env.setdefault("__ctx__", []).append(v)
        try:
            self.exec_block(st.body, env)
        finally:
            pass
        for item in st.items:
            ce = item.context_expr
            root = _root_name(ce) if isinstance(ce, ast.Call) else None
            if root in DROP_ROOTS:
                continue
            v = env["__ctx__"].pop()
            self.V.lib.ctx_exit(self, v)

    def s_Try(self, st, env):
        # Only the shapes used in the verified functions: the body is run;
        # a RaiseEx whose class is named by a handler transfers control.
        try:
            self.try_depth += 1
            try:
                self.exec_block(st.body, env)
            finally:
                self.try_depth -= 1
        except RaiseEx as r:
            for h in st.handlers:
                names = []
                if h.type is None:
                    names = [None]
                elif isinstance(h.type, ast.Tuple):
                    names = [getattr(e, "id", getattr(e, "attr", None))
                             for e in h.type.elts]
                else:
                    names = [getattr(h.type, "id",
                                     getattr(h.type, "attr", None))]
                if None in names or r.exc in names or "Exception" in names \
                        or "BaseException" in names:
                    if h.name:
                        env[h.name] = Opaque(f"exc:{r.exc}")
                    self.exec_block(h.body, env)
                    break
            else:
                self.exec_block(st.finalbody, env)
                raise
        else:
            self.exec_block(st.orelse, env)
        self.exec_block(st.finalbody, env)

    def s_FunctionDef(self, st, env):
        env[st.name] = Closure(st, env, self, st.name)

    # ------------------------------------------------------------- loops
    def _loop_spec(self, st):
        k = self.V.loop_ordinal(st)
        spec = self.contract.loops.get(k) if len(self.func_stack) == 1 else \
            self.inline_loops[-1].get(k) if getattr(
                self, "inline_loops", None) else None
        return k, spec

    def s_While(self, st, env):
        k, spec = self._loop_spec(st)
        if spec is None:
            raise Unsupported(f"loop #{k} at line {st.lineno} of "
                              f"{self.func_stack[-1]} has no invariant")
        self.run_loop(st, env, k, spec, None)

    def s_For(self, st, env):
        it = self.eval(st.iter, env)
        conc = self.V.lib.concrete_iter(self, it)
        if conc is not None:
            # finite, concrete: complete unrolling
            broke = False
            for item in conc:
                self.assign(st.target, item, env)
                try:
                    self.exec_block(st.body, env)
                except BreakEx:
                    broke = True
                    break
                except ContinueEx:
                    continue
            if not broke:
                self.exec_block(st.orelse, env)
            return
        k, spec = self._loop_spec(st)
        if spec is None:
            raise Unsupported(f"for-loop #{k} at line {st.lineno} of "
                              f"{self.func_stack[-1]} has no invariant")
        self.run_loop(st, env, k, spec, it)

    def run_loop(self, st, env, k, spec, iterable):
        """Cut a loop with its invariant.
        spec: {'inv': [...], 'modifies': [...], 'index': 'k' (for-loops),
               'variant': expr (optional)}"""
        tag = f"loop{k}@{st.lineno}"
        if spec.get("unroll_first"):
            # generator 'run to the first yield': the first iteration must
            # leave the function (yield/return/raise) or the loop (break)
            if iterable is not None:
                raise Unsupported("unroll_first on a for-loop")
            if not self.decide(self.eval(st.test, env)):
                self.exec_block(st.orelse, env)
                return
            try:
                self.exec_block(st.body, env)
            except BreakEx:
                return
            except ContinueEx:
                pass
            raise Unsupported(f"{tag}: first iteration falls through "
                              f"(unroll_first needs yield/return/break)")
        idx_name = spec.get("index", "_k")
        seq = None
        if iterable is not None:
            seq = self.V.lib.as_seq(self, iterable)
            env[idx_name] = 0
        # 1. invariant holds on entry
        for j, e in enumerate(spec.get("inv", [])):
            self.oblige(f"{tag}:inv_entry[{j}]", self.eval_spec(e, env),
                        "loop_inv_entry", st.lineno)
        # 2. havoc what the loop may change
        assigned = _assigned_names(st.body)
        if iterable is not None:
            assigned |= _target_names(st.target)
        frame_before = self.frame_marks(env)
        declared = spec.get("declare", {})
        for name in sorted(assigned):
            if name in declared:
                # a local whose value has no structure to copy (e.g. None
                # before the loop): fresh value of the declared type
                env[name] = self.fresh(declared[name], f"{name}@L{k}")
            elif name in env:
                env[name] = self.havoc_like(env[name], f"{name}@L{k}")
        for path in spec.get("modifies", []):
            self.havoc_path(path, env, f"L{k}")
        if iterable is not None:
            kv = self.fresh_const(f"{idx_name}@L{k}", z3.IntSort())
            env[idx_name] = kv
            self.assume(kv >= 0)
            self.assume(kv <= seq.length)
        for e in spec.get("inv", []):
            self.assume(bz(self.eval_spec(e, env)))
        marks = self.frame_marks(env)
        # 3. guard
        if iterable is None:
            enter = self.decide(self.eval(st.test, env))
        else:
            enter = self.fork(kv < seq.length)
        if enter:
            for j, e in enumerate(spec.get("body_pre", [])):
                self.oblige(f"{tag}:body_pre[{j}]", self.eval_spec(e, env),
                            "loop_body_pre", st.lineno)
            variant0 = None
            if spec.get("variant"):
                variant0 = self.eval_spec(spec["variant"], env)
            if iterable is not None:
                self.assign(st.target, seq.get(kv), env)
            try:
                self.exec_block(st.body, env)
            except BreakEx:
                # a break path never returns to the loop head, so the loop
                # frame (used only to havoc at the head) does not bind it
                return            # continue after the loop with this state
            except ContinueEx:
                pass
            if iterable is not None:
                env[idx_name] = kv + 1
            self.check_loop_frame(spec, marks, env, tag)
            for j, e in enumerate(spec.get("continue_pre", [])):
                self.oblige(f"{tag}:continue_pre[{j}]",
                            self.eval_spec(e, env), "loop_continue_pre",
                            st.lineno)
            for j, e in enumerate(spec.get("inv", [])):
                self.oblige(f"{tag}:inv_preserved[{j}]",
                            self.eval_spec(e, env), "loop_inv", st.lineno)
            if variant0 is not None:
                v1 = self.eval_spec(spec["variant"], env)
                self.oblige(f"{tag}:variant_decreases",
                            z3.And(v1 < variant0, variant0 >= 0)
                            if is_z3(v1) or is_z3(variant0)
                            else (v1 < variant0 and variant0 >= 0),
                            "variant", st.lineno)
            self.V.note_cover(f"{self.func_stack[0]}:{tag}:body_end")
            raise PathEnd()
        # loop exit by the guard
        for j, e in enumerate(spec.get("exit_post", [])):
            self.oblige(f"{tag}:exit_post[{j}]", self.eval_spec(e, env),
                        "loop_exit_post", st.lineno)
        if iterable is not None:
            env[idx_name] = seq.length
            self.assume(kv == seq.length)
        self.exec_block(st.orelse, env)

    def frame_marks(self, env):
        """Record versions of every cell/attr reachable from the roots, to
        check loop frames."""
        marks = {}
        seen = set()

        def go(path, v):
            if isinstance(v, OptVal):
                v = v.value
            if isinstance(v, Cell):
                marks[path] = ("cell", v, v.version)
            elif isinstance(v, Obj):
                if id(v) in seen:
                    return
                seen.add(id(v))
                for a, x in v.attrs.items():
                    go(f"{path}.{a}", x)
                    if not isinstance(x, (Cell, Obj)):
                        marks[f"{path}.{a}"] = ("val", v, x)
        for n, v in env.items():
            if isinstance(v, (Cell, Obj)):
                go(n, v)
        return marks

    def check_loop_frame(self, spec, marks, env, tag):
        allowed = set(spec.get("modifies", []))
        for path, m in marks.items():
            if any(path == a or path.startswith(a + ".") for a in allowed):
                continue
            root = path.split(".")[0]
            if root not in ("self",) and "." not in path and \
                    root in _EMPTY:
                continue
            changed = False
            if m[0] == "cell":
                cur = self.lookup_path(path, env, missing_ok=True)
                if isinstance(cur, OptVal):
                    cur = cur.value
                changed = cur is not m[1] or m[1].version != m[2]
            else:
                obj, old = m[1], m[2]
                a = path.rsplit(".", 1)[1]
                cur = obj.attrs.get(a)
                changed = cur is not old
                if changed and is_z3(cur) and is_z3(old) or (
                        changed and not isinstance(cur, (Cell, Obj))
                        and not isinstance(old, (Cell, Obj))):
                    try:
                        self.oblige(f"{tag}:frame[{path}]", veq(cur, old),
                                    "frame")
                        continue
                    except Unsupported:
                        pass
            if changed and ("." in path):
                self.oblige(f"{tag}:frame[{path}]", False, "frame")
            elif tag == "fn" and "." not in path and m[0] == "cell" and \
                    m[1].version != m[2]:
                # an array / list PARAMETER written in place (rebinding the
                # local name does not count: the caller's object is what the
                # mark holds) although the contract's frame excludes it
                self.oblige(f"{tag}:frame[{path}]", False, "frame")

    def havoc_like(self, v, name):
        if isinstance(v, Cell):
            # a local array/list/row modified in the loop: fresh contents
            val = v.read()
            c = Cell(v.kind, self._havoc_value(val, name))
            return c
        return self._havoc_value(v, name)

    def _havoc_value(self, v, name):
        if isinstance(v, Cell):
            return Cell(v.kind, self._havoc_value(v.read(), name))
        if isinstance(v, bool):
            return self.fresh_const(name, z3.BoolSort())
        if isinstance(v, int):
            return self.fresh_const(name, z3.IntSort())
        if isinstance(v, float):
            return self.fresh_const(name, z3.RealSort())
        if is_z3(v):
            return self.fresh_const(name, v.sort())
        if isinstance(v, SymSeq):
            return self.fresh_seq(v.elem, name)
        if isinstance(v, SymStruct):
            n = self.fresh_const(name + ".len", z3.IntSort())
            self.assume(n >= 0)
            return SymStruct(n, {f: self.fresh_seq(s.elem, f"{name}.{f}", n)
                                 for f, s in v.fields.items()})
        if isinstance(v, SymRow):
            return SymRow({f: self._havoc_value(x, f"{name}.{f}")
                           for f, x in v.fields.items()})
        if isinstance(v, OptVal):
            return OptVal(self.fresh_const(name + "?", z3.BoolSort()),
                          self._havoc_value(v.value, name + ".v"))
        if isinstance(v, StrVal):
            return StrVal(self.fresh_const(name, z3.IntSort()))
        if isinstance(v, tuple):
            return tuple(self._havoc_value(x, f"{name}.{i}")
                         for i, x in enumerate(v))
        if v is None or isinstance(v, (Opaque, Obj, Closure, str)):
            # cannot invent a typed value: require a declared type
            raise Unsupported(f"loop-modified variable {name} has no "
                              f"havoc-able type ({v!r}); declare it")
        raise Unsupported(f"cannot havoc {v!r}")

    def attr_type(self, obj, attr):
        sh = C.SHAPES.get(getattr(obj, "shape", None) or obj.cls)
        if sh and attr in sh.attrs:
            return sh.attrs[attr]
        return None

    def havoc_path(self, path, env, tag, binding=None):
        """path: 'self.a.b' or 'param' — replace by a fresh value of the
        declared type (attrs) / same structure (cells)."""
        parts = path.split(".")
        roots = binding if binding is not None else env
        if parts[0] not in roots:
            raise SpecError(f"modifies path root {parts[0]!r} unbound")
        cur = roots[parts[0]]
        if len(parts) == 1:
            if isinstance(cur, Cell):
                cur.write(self._havoc_value(cur.value, f"{path}@{tag}"))
                return
            if isinstance(cur, Obj):
                for a in list(cur.attrs):
                    self.havoc_path(f"{path}.{a}", env, tag, binding)
                return
            raise SpecError(f"cannot havoc non-heap root {path}")
        for p in parts[1:-1]:
            cur = self.unopt(cur)
            if not isinstance(cur, Obj):
                raise SpecError(f"modifies path {path}: {p} not an object")
            cur = cur.attrs[p]
        cur = self.unopt(cur)
        if not isinstance(cur, Obj):
            raise SpecError(f"modifies path {path}: not an object")
        a = parts[-1]
        ty = self.attr_type(cur, a)
        name = self.namer.fresh(f"{path}@{tag}")
        if ty is not None:
            old = cur.attrs.get(a)
            new = self.fresh(ty, name)
            cur.attrs[a] = new
        else:
            old = cur.attrs.get(a)
            if isinstance(old, Cell):
                cur.attrs[a] = Cell(old.kind,
                                    self._havoc_value(old.value, name))
            else:
                cur.attrs[a] = self._havoc_value(old, name)

    @staticmethod
    def unopt(v):
        return v

    def lookup_path(self, path, env, missing_ok=False):
        parts = path.split(".")
        cur = env.get(parts[0])
        for p in parts[1:]:
            if isinstance(cur, OptVal):
                cur = cur.value            # an optional object: look inside
            if isinstance(cur, Obj):
                cur = cur.attrs.get(p)
            else:
                if missing_ok:
                    return None
                raise SpecError(f"path {path}")
        return cur

    # =========================================================== assignment
    def assign(self, target, value, env):
        if isinstance(target, ast.Name):
            env[target.id] = value
            return
        if isinstance(target, (ast.Tuple, ast.List)):
            vals = self.V.lib.unpack(self, value, len(target.elts))
            for t, v in zip(target.elts, vals):
                self.assign(t, v, env)
            return
        if isinstance(target, ast.Attribute):
            obj = self.eval(target.value, env)
            if isinstance(obj, OptVal) and isinstance(obj.value, Obj):
                # storing into an optional object: it must be present
                self.oblige(f"store_not_None@{self.cur_line}", obj.present,
                            "safety")
                obj = obj.value
            if isinstance(obj, Obj):
                # property setter?
                ci = ClassIndex.get()
                for cname in ci.mro(obj.cls):
                    if target.attr in ci.classes[cname]["setters"]:
                        self.call_setter(obj, cname, target.attr, value)
                        return
                obj.attrs[target.attr] = value
                self.touched.add((id(obj), target.attr))
                return
            raise Unsupported(f"attribute store on {obj!r}")
        if isinstance(target, ast.Subscript):
            base = self.eval(target.value, env)
            self.V.lib.store_subscript(self, base, target.slice, value, env)
            return
        if isinstance(target, ast.Starred):
            raise Unsupported("starred assignment")
        raise Unsupported(f"assignment target {type(target).__name__}")

    # ========================================================== expressions
    def eval(self, node, env):
        m = getattr(self, "e_" + type(node).__name__, None)
        if m is None:
            raise Unsupported(f"expression {type(node).__name__} at line "
                              f"{getattr(node, 'lineno', self.cur_line)}")
        return m(node, env)

    def e_Constant(self, node, env):
        return node.value

    def e_Name(self, node, env):
        n = node.id
        if n in env:
            v = env[n]
            if isinstance(v, OptVal) and not self.spec:
                # narrowed by an earlier `is None` test on this path?
                for f in self.pc[-40:]:
                    if f.eq(v.present):
                        return v.value
                    if z3.is_not(f) and f.arg(0).eq(v.present):
                        return None
            return v
        if self.spec and n == "result":
            return self.result
        if self.spec and n in self.ghost_funcs:
            return self.ghost_funcs[n]
        if self.spec and n in self.V.lib.SPEC_CONSTS:
            return self.V.lib.SPEC_CONSTS[n]
        if n in ("True", "False", "None"):
            return {"True": True, "False": False, "None": None}[n]
        return self.V.lib.global_name(self, n)

    def e_JoinedStr(self, node, env):
        parts = []
        for v in node.values:
            if isinstance(v, ast.Constant):
                parts.append(v.value)
            else:
                x = self.eval(v.value, env)
                if isinstance(x, (str, int)) and not isinstance(x, bool):
                    parts.append(str(x))
                else:
                    return Opaque("fstring")
        return "".join(parts)

    def e_Tuple(self, node, env):
        out = []
        for e in node.elts:
            if isinstance(e, ast.Starred):
                out.extend(self.V.lib.concrete_iter(
                    self, self.eval(e.value, env), must=True))
            else:
                out.append(self.eval(e, env))
        return tuple(out)

    def e_List(self, node, env):
        out = []
        for e in node.elts:
            if isinstance(e, ast.Starred):
                out.extend(self.V.lib.concrete_iter(
                    self, self.eval(e.value, env), must=True))
            else:
                out.append(self.eval(e, env))
        return out

    def e_Set(self, node, env):
        return set(self.eval(e, env) for e in node.elts)

    def e_Dict(self, node, env):
        d = {}
        for k_, v in zip(node.keys, node.values):
            if k_ is None:
                d.update(self.eval(v, env))
            else:
                d[self.eval(k_, env)] = self.eval(v, env)
        return d

    def e_Lambda(self, node, env):
        return Closure(node, env, self)

    def e_IfExp(self, node, env):
        t = self.truth(self.eval(node.test, env))
        if isinstance(t, bool):
            return self.eval(node.body if t else node.orelse, env)
        if self.spec:
            return ite(t, self.eval(node.body, env),
                       self.eval(node.orelse, env))
        if self.fork(t):
            return self.eval(node.body, env)
        return self.eval(node.orelse, env)

    def e_BoolOp(self, node, env):
        if self.spec:
            vals = []
            is_and = isinstance(node.op, ast.And)
            for v in node.values:
                t = self.truth(self.eval(v, env))
                if isinstance(t, bool):
                    if is_and and not t:
                        return False      # short-circuit
                    if (not is_and) and t:
                        return True
                    continue
                vals.append(t)
            if not vals:
                return is_and
            return z3.And(*vals) if is_and else z3.Or(*vals)
        v = None
        for sub in node.values:
            v = self.eval(sub, env)
            t = self.truth(v)
            if not isinstance(t, bool):
                t = self.fork(t)
            if isinstance(node.op, ast.And) and not t:
                return v if not is_z3(v) or not z3.is_bool(v) else False
            if isinstance(node.op, ast.Or) and t:
                return v if not is_z3(v) or not z3.is_bool(v) else True
        return v

    def e_UnaryOp(self, node, env):
        v = self.eval(node.operand, env)
        if isinstance(node.op, ast.Not):
            t = self.truth(v)
            return (not t) if isinstance(t, bool) else z3.Not(t)
        r = self.V.lib.unop(self, node.op, v)
        if isinstance(r, (SymSeq, SymStruct)):
            return Cell("arr", r)
        return r

    def e_BinOp(self, node, env):
        a = self.eval(node.left, env)
        b = self.eval(node.right, env)
        return self.binop(node.op, a, b)

    def binop(self, op, a, b):
        r = self.V.lib.binop(self, op, a, b)
        if isinstance(r, (SymSeq, SymStruct)):
            return Cell("arr", r)     # a fresh numpy array object
        return r

    def e_Compare(self, node, env):
        left = self.eval(node.left, env)
        res = None
        for op, rn in zip(node.ops, node.comparators):
            right = self.eval(rn, env)
            c = self.V.lib.compare(self, op, left, right)
            if isinstance(c, SymSeq):
                c = Cell("arr", c)
            res = c if res is None else self.V.lib.and_(self, res, c)
            left = right
        return res

    def e_Attribute(self, node, env):
        base = self.eval(node.value, env)
        return self.getattr(base, node.attr, node)

    def e_Subscript(self, node, env):
        base = self.eval(node.value, env)
        return self.V.lib.load_subscript(self, base, node.slice, env)

    def e_Slice(self, node, env):
        return slice(self.eval(node.lower, env) if node.lower else None,
                     self.eval(node.upper, env) if node.upper else None,
                     self.eval(node.step, env) if node.step else None)

    def e_Starred(self, node, env):
        raise Unsupported("starred expression")

    def e_ListComp(self, node, env):
        return self.V.lib.comprehension(self, node, env)

    def e_GeneratorExp(self, node, env):
        return self.V.lib.comprehension(self, node, env)

    def e_DictComp(self, node, env):
        return self.V.lib.dict_comprehension(self, node, env)

    def e_SetComp(self, node, env):
        return set(self.V.lib.comprehension(self, node, env))

    def e_NamedExpr(self, node, env):
        v = self.eval(node.value, env)
        env[node.target.id] = v
        return v

    def e_Yield(self, node, env):
        raise ReturnEx(self.eval(node.value, env) if node.value else None)

    # ----------------------------------------------------------- attributes
    def getattr(self, base, attr, node=None):
        if isinstance(base, Obj):
            if attr == "__dict__":
                return base.attrs          # the live attribute dictionary
            if attr in base.attrs:
                return base.attrs[attr]
            ci = ClassIndex.get()
            dcls, fn, kind = ci.find_method(base.cls, attr)
            if kind == "property":
                return self.call_property(base, dcls, attr)
            if kind == "method":
                return BoundMethod(base, attr)
            sh = C.SHAPES.get(getattr(base, "shape", None) or base.cls)
            if sh and attr in sh.methods:
                return BoundMethod(base, attr)
            for cname in ci.mro(base.cls):
                if attr in ci.classes[cname]["class_attrs"]:
                    return self.V.lib.class_attr(self, cname, attr)
            raise Unsupported(f"attribute {base.cls}.{attr} is not in the "
                              f"declared shape (line {self.cur_line})")
        return self.V.lib.getattr(self, base, attr)

    # --------------------------------------------------------------- calls
    def e_Call(self, node, env):
        fn = node.func
        # special forms --------------------------------------------------
        if isinstance(fn, ast.Name):
            if self.spec and fn.id in ("forall", "exists"):
                return self.quantifier(fn.id, node, env)
            if self.spec and fn.id == "forall2":
                # forall2(i, n1, k, n2, body): 0<=i<n1, 0<=k<n2
                n1 = to_int(self.eval(node.args[1], env))
                n2 = to_int(self.eval(node.args[3], env))
                bi = z3.Int(self.namer.fresh("q_" + node.args[0].id))
                bk = z3.Int(self.namer.fresh("q_" + node.args[2].id))
                env2 = dict(env)
                env2[node.args[0].id] = bi
                env2[node.args[2].id] = bk
                body = bz(self.truth(self.eval(node.args[4], env2)))
                rng2 = z3.And(0 <= bi, bi < n1, 0 <= bk, bk < n2)
                # resolve index-normalisation terms under the range, as
                # `forall` does (otherwise the e-matching patterns contain
                # if-then-else index terms that never occur in ground terms)
                body = self.ctx_simplify(rng2, body)
                return z3.ForAll([bi, bk], z3.Implies(rng2, body))
            if self.spec and fn.id == "Sum":
                # Sum(k, lo, hi, body): sum over lo <= k < hi
                lo = self.eval(node.args[1], env)
                hi = self.eval(node.args[2], env)
                name = node.args[0].id

                def body(kv, node=node, env=env, name=name):
                    env2 = dict(env)
                    env2[name] = kv
                    return self.eval(node.args[3], env2)
                return self.V.lib.sum_term(self, lo, hi, body)
            if self.spec and fn.id == "old":
                return self.eval_old(node.args[0], env)
            if self.spec and fn.id == "implies":
                a = self.truth(self.eval(node.args[0], env))
                if a is False or (is_z3(a) and z3.is_false(z3.simplify(a))):
                    return True      # short-circuit: b may be undefined
                b = bz(self.truth(self.eval(node.args[1], env)))
                return z3.Implies(bz(a), b)
            if self.spec and fn.id == "iff":
                a = bz(self.truth(self.eval(node.args[0], env)))
                b = bz(self.truth(self.eval(node.args[1], env)))
                return a == b
            if self.spec and fn.id == "let":
                # let(name, value, body)
                name = node.args[0].id
                env2 = dict(env)
                env2[name] = self.eval(node.args[1], env)
                return self.eval(node.args[2], env2)
            if self.spec and fn.id == "ghost":
                name = node.args[0].value
                if name not in self.ghost_vals:
                    raise SpecError(f"ghost {name!r} was never bound on "
                                    f"this path")
                return self.ghost_vals[name]
            if self.spec and fn.id == "final":
                name = node.args[0].value
                if isinstance(self.final_env, _FreshFinals) and \
                        len(node.args) > 1 and \
                        not dict.__contains__(self.final_env, name):
                    # a callee's local at a call site: an unknown value of
                    # the declared type
                    self.final_env[name] = self.fresh(
                        node.args[1].value,
                        f"{self.final_env.tag}.{name}@{self.cur_line}")
                if self.final_env is None or name not in self.final_env:
                    if len(node.args) > 1:
                        # not bound on this path: an arbitrary value of the
                        # declared type (only ever read under a guard that
                        # is false on such paths)
                        return self.fresh(node.args[1].value,
                                          f"unbound_{name}")
                    raise SpecError(f"final({name!r}): no such local at "
                                    f"return")
                return self.final_env[name]
            if fn.id == "super" and not node.args:
                return SuperRef(env.get("self"), self.cls_stack_top())
            if fn.id == "super" and len(node.args) == 2 and \
                    isinstance(node.args[0], ast.Name) and \
                    isinstance(node.args[1], ast.Name):
                # super(Class, obj_or_cls): the next class after Class in
                # the MRO of the receiver
                return SuperRef(env.get(node.args[1].id), node.args[0].id)
        callee = self.eval(fn, env)
        args, kwargs = self.eval_args(node, env)
        return self.call(callee, args, kwargs, node)

    def cls_stack_top(self):
        f = self.func_stack[-1]
        return f.split(".")[0] if "." in f else None

    def eval_args(self, node, env):
        args = []
        for a in node.args:
            if isinstance(a, ast.Starred):
                args.extend(self.V.lib.concrete_iter(
                    self, self.eval(a.value, env), must=True))
            else:
                args.append(self.eval(a, env))
        kwargs = {}
        for kw in node.keywords:
            if kw.arg is None:
                d = self.eval(kw.value, env)
                if not isinstance(d, dict):
                    raise Unsupported("**kwargs of a non-concrete dict")
                kwargs.update(d)
            else:
                kwargs[kw.arg] = self.eval(kw.value, env)
        return args, kwargs

    def call(self, callee, args, kwargs, node=None):
        if isinstance(callee, BoundMethod):
            return self.call_method(callee.obj, callee.name, args, kwargs)
        if isinstance(callee, SuperMethod):
            return self.call_method(callee.obj, callee.name, args, kwargs,
                                    after=callee.after)
        if isinstance(callee, Closure):
            return self.call_closure(callee, args, kwargs)
        if isinstance(callee, PkgFunc):
            return self.call_pkg(callee, args, kwargs)
        if isinstance(callee, LibFunc):
            self.stats.lib_used.add(callee.name)
            return callee.fn(self, *args, **kwargs)
        if isinstance(callee, ClassRef):
            return self.V.lib.construct(self, callee, args, kwargs)
        if isinstance(callee, self.V.lib.FuncVal):
            return callee.apply(self, args[0])
        if isinstance(callee, Obj):
            return self.call_method(callee, "__call__", args, kwargs)
        if isinstance(callee, Opaque):
            # call of an uninspected foreign callable (user callback,
            # timedelta method, ...): result uninspected; the arguments may
            # be read by it (listed as an assumption: it does not mutate
            # modelled state)
            self.stats.lib_used.add(f"opaque-call:{callee.what}")
            return Opaque(f"{callee.what}()")
        if isinstance(callee, OptVal):
            self.oblige(f"call_not_None@{self.cur_line}", callee.present,
                        "safety")
            return self.call(callee.value, args, kwargs, node)
        raise Unsupported(f"call of {callee!r} at line {self.cur_line}")

    def call_closure(self, clo, args, kwargs):
        node = clo.node
        env = dict(clo.env)
        self.bind_params(node.args, args, kwargs, env, clo.name)
        if isinstance(node, ast.Lambda):
            return self.eval(node.body, env)
        try:
            self.exec_block(node.body, env)
        except ReturnEx as r:
            return r.value
        return None

    def bind_params(self, a, args, kwargs, env, fname, skip_self=False):
        pos = [p.arg for p in a.posonlyargs + a.args]
        if skip_self:
            pos = pos[1:]
        defaults = a.defaults
        ndef = len(defaults)
        allpos = [p.arg for p in a.posonlyargs + a.args]
        dmap = {}
        for name, d in zip(allpos[len(allpos) - ndef:], defaults):
            dmap[name] = d
        kwargs = dict(kwargs)
        args = list(args)
        if len(args) > len(pos) and a.vararg is None:
            raise Unsupported(f"too many positional arguments for {fname}")
        for i, name in enumerate(pos):
            if i < len(args):
                env[name] = args[i]
                if name in kwargs:
                    raise Unsupported(f"{fname}: multiple values for {name}")
            elif name in kwargs:
                env[name] = kwargs.pop(name)
            elif name in dmap:
                env[name] = self.eval(dmap[name], env)
            else:
                raise Unsupported(f"{fname}: missing argument {name}")
        if a.vararg is not None:
            env[a.vararg.arg] = tuple(args[len(pos):])
        for p, d in zip(a.kwonlyargs, a.kw_defaults):
            if p.arg in kwargs:
                env[p.arg] = kwargs.pop(p.arg)
            elif d is not None:
                env[p.arg] = self.eval(d, env)
            else:
                raise Unsupported(f"{fname}: missing kw-only {p.arg}")
        if a.kwarg is not None:
            env[a.kwarg.arg] = kwargs
        elif kwargs:
            raise Unsupported(f"{fname}: unexpected keyword(s) "
                              f"{sorted(kwargs)}")

    # ------------------------------------------------- package callables
    def call_method(self, obj, name, args, kwargs, after=None):
        if self._opaque_callee(f"{obj.cls}.{name}") or \
                self._opaque_callee(name):
            return Opaque(f"{obj.cls}.{name}()")
        ci = ClassIndex.get()
        dcls, fn, kind = ci.find_method(obj.cls, name, after=after)
        sh = C.SHAPES.get(getattr(obj, "shape", None) or obj.cls)
        if fn is None:
            if sh and name in sh.methods:
                con = sh.methods[name]
                return self.apply_contract(con, None, obj, args, kwargs)
            raise Unsupported(f"no method {obj.cls}.{name}")
        static = name in ci.classes[dcls].get("static", ())
        if sh and name in sh.methods:
            con = sh.methods[name]
            return self.apply_contract(con, fn, None if static else obj,
                                       args, kwargs)
        info = ci.classes[dcls]
        if static:
            obj = None          # a @staticmethod: no receiver is bound
        con = C.CONTRACTS.get((info["file"], f"{dcls}.{name}"))
        # a contract family (variant name) uses the callee's contract of
        # the same family when it has one
        vn = self.contract.variant_name
        if vn:
            con = C.CONTRACTS.get(
                (info["file"], f"{dcls}.{name}#{vn.split('-')[0]}"), con)
            con = C.CONTRACTS.get((info["file"], f"{dcls}.{name}#{vn}"), con)
        if con is None:
            raise Unsupported(f"call to {dcls}.{name} (line {self.cur_line})"
                              f": no contract")
        if con.inline:
            return self.inline_call(con, fn, obj, args, kwargs)
        con = self._match_const_variant(con, info["file"],
                                        f"{dcls}.{name}", fn, obj, args,
                                        kwargs)
        return self.apply_contract(con, fn, obj, args, kwargs)

    def _match_const_variant(self, con, file, qual, fn, obj, args, kwargs):
        """Contracts may fix a parameter to a constant (("const", v)); when
        the call's actual (concrete) argument differs, use the variant of
        the callee's contract whose constants match the call."""
        def consts(c):
            return {p: t[1] for p, t in c.params.items()
                    if isinstance(t, tuple) and t and t[0] == "const"}
        if not consts(con):
            return con
        env = {}
        try:
            if obj is not None:
                env[(fn.args.posonlyargs + fn.args.args)[0].arg] = obj
            self.bind_params(fn.args, args, kwargs, env, qual,
                             skip_self=obj is not None)
        except Unsupported:
            return con

        def fits(c):
            for p, v in consts(c).items():
                a = env.get(p)
                if isinstance(a, (bool, int, float, str)) or a is None:
                    if a != v:
                        return False
            return True
        if fits(con):
            return con
        for key, c in C.CONTRACTS.items():
            if key[0] == file and key[1].startswith(qual + "#") and \
                    consts(c) and fits(c):
                return c
        return con

    def call_property(self, obj, dcls, name):
        ci = ClassIndex.get()
        info = ci.classes[dcls]
        con = C.CONTRACTS.get((info["file"], f"{dcls}.{name}"))
        fn = info["properties"][name]
        if con is None or con.inline:
            # properties are inlined by default (tiny, pure)
            return self.inline_call(con, fn, obj, [], {},
                                    qual=f"{dcls}.{name}", file=info["file"])
        return self.apply_contract(con, fn, obj, [], {})

    def call_setter(self, obj, dcls, name, value):
        ci = ClassIndex.get()
        info = ci.classes[dcls]
        fn = info["setters"][name]
        self.inline_call(None, fn, obj, [value], {},
                         qual=f"{dcls}.{name}.setter", file=info["file"])

    def _opaque_callee(self, name):
        """callees the verified function's contract declares irrelevant to
        the property (statistics for logging / history): the call is not
        modelled; its result is an uninspected value.  ASSUMED (reported):
        it terminates normally and does not mutate modelled state."""
        top = self.contract
        # (also inside callees that are inlined: their bodies are executed
        # as part of the verified function)
        if name in top.extra.get("opaque_callees", ()):
            self.stats.lib_used.add(f"opaque-callee:{name}")
            return True
        return False

    def call_pkg(self, pf, args, kwargs):
        if self._opaque_callee(pf.qual):
            return Opaque(f"{pf.qual}()")
        con = C.CONTRACTS.get((pf.file, pf.qual))
        # arrays of abstract points (uninterpreted sort per row) select the
        # callee's "abstract-points" contract variant when it has one
        if any(isinstance(self.unwrap(a), SymSeq) and
               str(self.unwrap(a).elem).startswith("Sort(")
               for a in list(args) + list(kwargs.values())):
            con = C.CONTRACTS.get(
                (pf.file, pf.qual + "#abstract-points"), con)
        vn = self.contract.variant_name
        if vn:
            con = C.CONTRACTS.get(
                (pf.file, f"{pf.qual}#{vn.split('-')[0]}"), con)
            con = C.CONTRACTS.get((pf.file, f"{pf.qual}#{vn}"), con)
        src = Source.get(pf.file)
        fn, _ = src.find(pf.qual)
        if fn is None:
            raise Unsupported(f"{pf.file}:{pf.qual} not found")
        if con is None:
            raise Unsupported(f"call to {pf.qual} (line {self.cur_line}): "
                              f"no contract")
        if con.inline:
            return self.inline_call(con, fn, None, args, kwargs)
        return self.apply_contract(con, fn, None, args, kwargs)

    def inline_call(self, con, fn, obj, args, kwargs, qual=None, file=None):
        qual = qual or con.func
        file = file or con.file
        self.stats.inlined.add(qual)
        if len(self.func_stack) > 12:
            raise Unsupported("inline depth")
        env = {}
        if obj is not None:
            env[(fn.args.posonlyargs + fn.args.args)[0].arg] = obj
        self.bind_params(fn.args, args, kwargs, env, qual,
                         skip_self=obj is not None)
        env["__module__"] = file
        self.func_stack.append(qual)
        self.src_stack.append(Source.get(file))
        saved_line = self.cur_line
        self.V.register_loops(fn)
        if not hasattr(self, "inline_loops"):
            self.inline_loops = []
        self.inline_loops.append(con.loops if con is not None else {})
        try:
            self.exec_block(fn.body, env)
            ret = None
        except ReturnEx as r:
            ret = r.value
        finally:
            self.func_stack.pop()
            self.src_stack.pop()
            self.inline_loops.pop()
            self.cur_line = saved_line
        if con is not None and con.generator:
            return GenResult(ret)
        if _is_generator(fn):
            return GenResult(ret)
        return ret

    def apply_contract(self, con, fn, obj, args, kwargs):
        """Modular call: check requires, havoc modifies, assume ensures."""
        self.stats.contracts_used.add(con.func)
        if con.trusted:
            self.stats.trusted_used.add(con.func)
        env = {}
        if fn is not None:
            if obj is not None:
                env[(fn.args.posonlyargs + fn.args.args)[0].arg] = obj
            self.bind_params(fn.args, args, kwargs, env, con.func,
                             skip_self=obj is not None)
        else:
            if obj is not None:
                env["self"] = obj
            names = list(con.params)
            for n, v in zip(names, args):
                env[n] = v
            env.update(kwargs)
        env["__module__"] = con.file
        site = f"call:{con.func}@{self.cur_line}"
        # abstract spaces: a sequence of points of one uninterpreted sort
        # (data space, latent space, ...) handed to a parameter declared
        # over another is a definite error (e.g. the transform applied in
        # the wrong direction)
        for pname, pty in con.params.items():
            try:
                pp = parse_type(pty)
            except Exception:
                continue
            if pp[0] == "Opt":
                pp = parse_type(pp[1])
            if pp[0] == "Seq" and parse_type(pp[1])[0] == "Sort":
                want = parse_type(pp[1])[1]
                v = env.get(pname)
                if isinstance(v, OptVal):
                    v = v.value
                v = self.unwrap(v) if v is not None else None
                el = getattr(v, "elem", None)
                if isinstance(el, str) and el.startswith("Sort(") and \
                        parse_type(el)[1] != want and not self.spec:
                    self.fail(f"{site}:arg_space[{pname}: {el} given, "
                              f"{pp[1]} expected]")
        saved = (self.spec, self.old_env, self.result)
        try:
            for name, e in con.let.items():
                env[name] = self.eval_spec(e, env)
            for j, e in enumerate(con.requires):
                self.oblige(f"{site}:requires[{j}]", self.eval_spec(e, env),
                            "call_requires")
            top = self.contract
            allowed_up = set(top.raises) | set(top.extra.get("may_raise",
                                                             {}))
            for exc, cond in con.raises.items():
                if cond is None:
                    continue
                c = bz(self.eval_spec(cond, env))
                if self.try_depth > 0 or exc in allowed_up:
                    # the caller handles / propagates it: a real branch
                    self.spec = False
                    if self.fork(c):
                        raise RaiseEx(exc, self.cur_line)
                    continue
                self.oblige(f"{site}:no_{exc}", z3.Not(c), "call_noraise")
            old = self.snapshot(env)
            n_pc_before = len(self.pc)
            for path in con.modifies:
                self.havoc_path(path, env, f"{con.func}@{self.cur_line}",
                                binding=env)
            res = None
            if con.extra.get("returns_param"):
                # the callee returns (the object bound to) one of its own
                # parameters
                res = env[con.extra["returns_param"]]
            elif con.returns is not None:
                rty = con.returns
                if isinstance(rty, str) and rty.startswith("ParamTuple("):
                    # the callee returns a tuple of (the objects bound to)
                    # its own parameters
                    res = tuple(env[n.strip()] for n in
                                rty[len("ParamTuple("):-1].split(","))
                    rty = None
                elif isinstance(rty, str) and rty.startswith("StructOf("):
                    # an array of the structured dtype bound to a parameter
                    dv = env.get(rty[len("StructOf("):-1])
                    if not hasattr(dv, "fields"):
                        raise Unsupported(f"{rty}: the argument is not a "
                                          f"structured dtype value")
                    rty = "Struct(" + ",".join(
                        f"{n}:{t}" for n, t in dv.fields) + ")"
                if rty is not None:
                    res = self.fresh(rty, self.namer.fresh(
                        f"ret.{con.func}@{self.cur_line}"))
            self.old_env, self.result = old, res
            saved_fin, saved_gv = self.final_env, self.ghost_vals
            # the callee's final locals / ghosts are existentials here
            self.final_env = _FreshFinals(self, con.func)
            self.ghost_vals = _FreshFinals(self, con.func + ".ghost")
            saved_gf = dict(self.ghost_funcs)
            for gname, sig in con.extra.get("ghost_funcs", {}).items():
                gf = self.fresh_ghost_func(f"{con.func}.{gname}", sig)
                self.ghost_funcs[gname] = gf
                self.ghost[f"call:{con.func}.{gname}"] = gf
            for e in con.ensures:
                self.assume(bz(self.eval_spec(e, env, keep=True)))
            self.ghost_funcs = saved_gf
            self.final_env, self.ghost_vals = saved_fin, saved_gv
            if len(self.func_stack) == 1:
                for anchor, callee, hexpr in self.contract.hints:
                    if anchor == "after_call" and callee == con.func:
                        henv = dict(env)
                        henv["result"] = res
                        self.result = res
                        h = self.eval_spec(hexpr, henv)
                        if h is not None and not isinstance(h, bool):
                            self.assume(bz(h))
            if len(self.func_stack) == 1:
                for gname, callees in self.contract.extra.get(
                        "bind_call_results", {}).items():
                    if con.func in callees:
                        self.ghost_vals[gname] = res
            self.check_not_vacuous(f"after {site}", n_pc_before)
            self.call_log.append({
                "callee": con.func, "line": self.cur_line, "result": res,
                "post": {p: self.snapshot({"v": self.lookup_path(
                    p, env, missing_ok=True)})["v"] for p in con.modifies}})
        finally:
            self.spec, self.old_env, self.result = saved
        if con.generator:
            return GenResult(res)
        return res

    # ------------------------------------------------------- spec helpers
    def eval_spec(self, expr, env, keep=False):
        """Evaluate a contract expression string to a z3 Bool / value."""
        node = self.V.parse_spec(expr)
        saved = self.spec
        self.spec = True
        try:
            env2 = env
            v = self.eval(node, env2)
            if isinstance(v, Cell) or not (is_z3(v) or isinstance(v, bool)):
                return v
            return v
        finally:
            self.spec = saved

    def eval_old(self, node, env):
        if self.old_env is None:
            raise SpecError("old() outside a postcondition")
        env2 = dict(env)
        env2.update(self.old_env)
        saved = self.old_env
        try:
            return self.eval(node, env2)
        finally:
            self.old_env = saved

    def quantifier(self, kind, node, env):
        # forall(i, lo, hi, body) | forall((i, j), lo, hi, body): all in
        # [lo, hi)
        var = node.args[0]
        names = [var.id] if isinstance(var, ast.Name) else \
            [e.id for e in var.elts]
        lo = to_int(self.eval(node.args[1], env))
        hi = to_int(self.eval(node.args[2], env))
        env2 = dict(env)
        bvs = []
        for n in names:
            bv = z3.Int(self.namer.fresh(f"q_{n}"))
            env2[n] = bv
            bvs.append(bv)
        body = bz(self.truth(self.eval(node.args[3], env2)))
        rng = z3.And(*[z3.And(lo <= bv, bv < hi) for bv in bvs])
        body = self.ctx_simplify(rng, body)
        pats = []
        if len(node.args) > 4:
            # explicit e-matching trigger(s): forall(i, lo, hi, body, t1, ..)
            for pn in node.args[4:]:
                t = self.V.lib.as_term(self, self.eval(pn, env2))
                pats.append(self.ctx_simplify(rng, t, force=True))
        if kind == "forall":
            if pats:
                return z3.ForAll(bvs, z3.Implies(rng, body), patterns=pats)
            return z3.ForAll(bvs, z3.Implies(rng, body))
        return z3.Exists(bvs, z3.And(rng, body))

    def ctx_simplify(self, ctx, body, force=False):
        """Resolve, under the assumption `ctx` (+ the quantifier-free length
        facts of the path), the index-normalisation if-then-else *terms*
        that slicing introduces: If(c, a, b) becomes a when ctx => c and b
        when ctx => not c.  Semantics-preserving under ctx, which is how the
        result is used (the quantifier's range guard)."""
        if (_term_size(body) < 10 and not force) or \
                "If(" not in str(body):
            return body
        try:
            sol = z3.Solver()
            sol.set("timeout", 300)
            sol.add(ctx)
            for f in self.pc[:120]:
                if not _has_quant(f) and _term_size(f, 40) < 30:
                    sol.add(f)
            cache = {}

            def implied(c):
                sol.push()
                sol.add(z3.Not(c))
                r = sol.check()
                sol.pop()
                return r == z3.unsat

            def find_ites(t, out, seen):
                k = t.get_id()
                if k in seen:
                    return
                seen.add(k)
                if z3.is_quantifier(t) or z3.is_var(t) or not z3.is_app(t):
                    return
                if t.decl().kind() == z3.Z3_OP_ITE and not z3.is_bool(t):
                    out.append(t)
                for c in t.children():
                    find_ites(c, out, seen)

            cur = body
            for _round in range(6):
                ites = []
                find_ites(cur, ites, set())
                pairs = []
                for t in ites:
                    c = t.arg(0)
                    if c.get_id() not in cache:
                        # (the term is kept with the entry so that its id
                        # cannot be re-used by a later, different condition)
                        cache[c.get_id()] = (True if implied(c) else (
                            False if implied(z3.Not(c)) else None), c)
                    d = cache[c.get_id()][0]
                    if d is True:
                        pairs.append((t, t.arg(1)))
                    elif d is False:
                        pairs.append((t, t.arg(2)))
                if not pairs:
                    break
                cur = z3.simplify(z3.substitute(cur, *pairs))
            return cur
        except z3.Z3Exception:
            return body

    def unwrap(self, v):
        return v.read() if isinstance(v, Cell) else v


_EMPTY = frozenset()


class _FreshFinals(dict):
    """final('x') / ghost('x') of a *callee* at a call site: an unknown
    value (existential), one per name per call."""

    def __init__(self, interp, tag):
        super().__init__()
        self.interp, self.tag = interp, tag

    def __contains__(self, k):
        return True

    def __missing__(self, k):
        v = self.interp.fresh_const(f"{self.tag}.{k}@{self.interp.cur_line}",
                                    z3.IntSort())
        self[k] = v
        return v


class BoundMethod:
    def __init__(self, obj, name):
        self.obj = obj
        self.name = name


class SuperRef:
    def __init__(self, obj, after):
        self.obj = obj
        self.after = after


class SuperMethod:
    def __init__(self, obj, name, after):
        self.obj, self.name, self.after = obj, name, after


class PkgFunc:
    def __init__(self, file, qual):
        self.file = file
        self.qual = qual

    def __repr__(self):
        return f"<PkgFunc {self.file}:{self.qual}>"


class LibFunc:
    def __init__(self, name, fn):
        self.name = name
        self.fn = fn

    def __repr__(self):
        return f"<LibFunc {self.name}>"


class ClassRef:
    def __init__(self, name):
        self.name = name


class ModuleRef:
    def __init__(self, name):
        self.name = name

    def __repr__(self):
        return f"<Module {self.name}>"


def _sum_terms(fs):
    out = {}
    seen = set()
    stack = list(fs)
    while stack:
        t = stack.pop()
        if t.get_id() in seen:
            continue
        seen.add(t.get_id())
        if z3.is_quantifier(t):
            stack.append(t.body())
            continue
        if z3.is_app(t):
            if t.decl().name() == "SUMA" and not _has_var(t):
                out[t.get_id()] = t
            stack.extend(t.children())
    return out


def _has_var(t):
    """does t contain a de Bruijn variable that is not bound inside t?"""
    memo = {}

    def go(u, depth):
        key = (u.get_id(), depth)
        if key in memo:
            return memo[key]
        if z3.is_var(u):
            r = z3.get_var_index(u) >= depth
        elif z3.is_quantifier(u):
            r = go(u.body(), depth + u.num_vars())
        else:
            r = any(go(c, depth) for c in u.children())
        memo[key] = r
        return r
    return go(t, 0)


def _term_size(t, limit=400):
    n = 0
    seen = set()
    stack = [t]
    while stack and n < limit:
        u = stack.pop()
        if u.get_id() in seen:
            continue
        seen.add(u.get_id())
        n += 1
        if z3.is_quantifier(u):
            stack.append(u.body())
        else:
            stack.extend(u.children())
    return n


def _has_quant(f):
    seen = set()
    stack = [f]
    while stack:
        t = stack.pop()
        if t.get_id() in seen:
            continue
        seen.add(t.get_id())
        if z3.is_quantifier(t):
            return True
        stack.extend(t.children())
    return False


def _assigned_names(body):
    out = set()
    for st in body:
        for node in ast.walk(st):
            if isinstance(node, (ast.FunctionDef, ast.Lambda)):
                continue
            if isinstance(node, ast.Name) and isinstance(node.ctx,
                                                         (ast.Store,
                                                          ast.Del)):
                out.add(node.id)
    return out


def _target_names(t):
    return {n.id for n in ast.walk(t) if isinstance(n, ast.Name)}


def _count_loops(body):
    n = 0
    for st in body:
        for node in ast.walk(st):
            if isinstance(node, (ast.While, ast.For)):
                n += 1
    return n


def _is_generator(fn):
    for node in ast.walk(fn):
        if isinstance(node, (ast.Yield, ast.YieldFrom)):
            return True
    return False
