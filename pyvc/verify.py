"""Driver: enumerate paths of a function under contract, collect obligations,
discharge them with z3 (cvc5 as second solver in the thorough tier)."""
from __future__ import annotations

import ast
import os
import subprocess
import tempfile
import time
import traceback

import z3

from . import contracts as C
from . import engine as E
from . import nplib
from .front import Source, ClassIndex
from .values import Unsupported, SpecError, Cell, Obj, bz, is_z3

MAX_PATHS = int(os.environ.get("PYVC_MAX_PATHS", "4000"))


class FuncResult:
    def __init__(self, contract):
        self.contract = contract
        self.obls = []
        self.paths = 0
        self.undecided = []       # reasons (Unsupported etc.)
        self.errors = []
        self.sha = None
        self.span = None
        self.vacuity = None
        self.time_gen = 0.0
        self.time_solve = 0.0
        self.stats = None


class Verifier:
    def __init__(self, tier="quick"):
        self.tier = tier
        self.lib = nplib
        self.stats = E.Stats()
        self.stmt_hook = None
        self.fs_model = None
        self.module_globals = {}
        self.global_model = None
        self.log_domain = False
        self.vacuity_alarms = []
        self.extra_requires = []
        self.mid_write_hook = None
        self.feas_cache = {}
        self._spec_cache = {}
        self._loop_ord = {}
        self.covers = set()
        self.timeout_ms = 10000 if tier == "quick" else 60000

    # ------------------------------------------------------------------
    def parse_spec(self, expr):
        if expr not in self._spec_cache:
            try:
                self._spec_cache[expr] = ast.parse(expr.strip(),
                                                   mode="eval").body
            except SyntaxError as e:
                raise SpecError(f"contract expression {expr!r}: {e}")
        return self._spec_cache[expr]

    def register_loops(self, fn):
        if id(fn) in self._loop_ord:
            return
        self._loop_ord[id(fn)] = True
        k = 0

        class V(ast.NodeVisitor):
            def generic_visit(v, node):
                nonlocal k
                if isinstance(node, (ast.While, ast.For)):
                    self._loop_ord[id(node)] = k
                    k += 1
                if isinstance(node, (ast.FunctionDef, ast.Lambda)) and \
                        node is not fn:
                    return
                ast.NodeVisitor.generic_visit(v, node)
        V().visit(fn)

    def loop_ordinal(self, node):
        return self._loop_ord[id(node)]

    def new_version(self, I):
        """the content being written by the call under verification"""
        if "new_version" not in I.ghost:
            v = I.fresh_const("NEWVER", z3.IntSort())
            I.ghost["new_version"] = v
        return I.ghost["new_version"]

    def note_cover(self, name):
        self.covers.add(name)

    # ------------------------------------------------------------------
    def verify_function(self, con):
        res = FuncResult(con)
        self.log_domain = bool(con.extra.get("log_domain"))
        self.stats = E.Stats()
        res.stats = self.stats
        t0 = time.time()
        src = Source.get(con.file)
        fn, cls = src.find(con.func)
        if fn is None:
            res.undecided.append(f"contract target {con.file}:{con.func} "
                                 f"not found in the working tree")
            return res
        res.sha = src.sha(fn)
        res.span = (fn.lineno, fn.end_lineno)
        self.register_loops(fn)
        self._vacuity_pending = True
        self._vacuity = None
        worklist = [[]]
        seen_prefix = set()
        while worklist:
            dec = worklist.pop()
            if tuple(dec) in seen_prefix:
                continue
            seen_prefix.add(tuple(dec))
            if res.paths >= MAX_PATHS:
                res.undecided.append(f"path budget {MAX_PATHS} exhausted")
                break
            I = E.Interp(self, con, dec)
            res.paths += 1
            try:
                self.run_path(I, fn, con)
                if os.environ.get("PYVC_TRACE"):
                    print("PATH", dec, "returned at line", I.cur_line)
            except E.PathEnd:
                if os.environ.get("PYVC_TRACE"):
                    print("PATH", dec, "ended at line", I.cur_line,
                          I.obls[-1].name if I.obls else "")
            except Unsupported as e:
                res.undecided.append(f"outside subset: {e}")
            except SpecError as e:
                res.errors.append(f"contract error: {e}")
            except RecursionError:
                res.undecided.append("recursion limit")
            except Exception as e:  # checker crash
                if os.environ.get("PYVC_TRACE"):
                    traceback.print_exc()
                res.errors.append("checker crash: " + "".join(
                    traceback.format_exception_only(type(e), e)).strip()
                    + " @ " + traceback.format_exc().splitlines()[-3].strip())
            res.obls.extend(I.obls)
            for k in I.new_forks:
                worklist.append(I.decisions[:k] + [False])
            if res.errors:
                break
        res.time_gen = time.time() - t0
        res.vacuity = self._vacuity
        for a_ in self.vacuity_alarms:
            res.errors.append("vacuity: " + a_)
        self.vacuity_alarms = []
        if self._vacuity == "unsat":
            res.errors.append("vacuous contract: the preconditions are "
                              "contradictory")
        self.stats.paths = res.paths
        return res

    # ------------------------------------------------------------------
    def setup_env(self, I, fn, con):
        env = {"__module__": con.file}
        a = fn.args
        names = [p.arg for p in a.posonlyargs + a.args]
        is_method = con.cls is not None and names and names[0] in (
            "self", "cls")
        ci = ClassIndex.get()
        if con.cls and con.cls in ci.classes and \
                fn.name in ci.classes[con.cls]["static"]:
            is_method = False
        if is_method:
            shape = con.self_shape or con.cls
            env[names[0]] = I.fresh_obj(shape, "self")
            names = names[1:]
        ndef = len(a.defaults)
        allpos = [p.arg for p in a.posonlyargs + a.args]
        dmap = dict(zip(allpos[len(allpos) - ndef:], a.defaults))
        for n in names:
            if n in con.params:
                env[n] = self.mk_param(I, con.params[n], n)
            elif n in dmap:
                env[n] = I.eval(dmap[n], env)
            else:
                raise SpecError(f"{con.func}: parameter {n} has no declared "
                                f"type")
        for p, d in zip(a.kwonlyargs, a.kw_defaults):
            if p.arg in con.params:
                env[p.arg] = self.mk_param(I, con.params[p.arg], p.arg)
            elif d is not None:
                env[p.arg] = I.eval(d, env)
            else:
                raise SpecError(f"{con.func}: kw-only {p.arg} undeclared")
        if a.vararg is not None:
            v = con.params.get("*" + a.vararg.arg, ())
            env[a.vararg.arg] = tuple(
                self.mk_param(I, t, f"{a.vararg.arg}{i}")
                for i, t in enumerate(v))
        if a.kwarg is not None:
            kw = con.params.get("**" + a.kwarg.arg, {})
            env[a.kwarg.arg] = {k: self.mk_param(I, t, k)
                                for k, t in kw.items()}
        return env

    def mk_param(self, I, ty, name):
        if isinstance(ty, tuple) and ty and ty[0] == "const":
            return ty[1]
        return I.fresh(ty, name)

    def run_path(self, I, fn, con):
        env = self.setup_env(I, fn, con)
        if con.extra.get("global_model_is_self"):
            # assumption (fork start method): the worker's module-global
            # `_model` is the model object itself
            self.global_model = env.get("self")
        elif con.extra.get("global_model_shape"):
            self.global_model = I.fresh_obj(con.extra["global_model_shape"],
                                            "_model")
        for gname, gty in con.ghost.items():
            env[gname] = I.fresh(gty, gname)
        for name, e in con.let.items():
            env[name] = I.eval_spec(e, env)
        # `quick_requires`: configuration restrictions applied in the quick
        # tier only, to bound the number of paths of functions with many
        # independent option flags; the thorough tier proves the contract
        # without them (reported in the evidence as an assumption of the
        # quick run)
        qr = list(con.extra.get("quick_requires", [])) \
            if self.tier == "quick" else []
        if qr:
            self.stats.lib_used.add(
                f"quick-tier restriction of {con.func}: " + "; ".join(qr))
        for e in list(con.requires) + list(self.extra_requires) + qr:
            I.assume(bz(I.eval_spec(e, env)))
        for anchor, _callee, hexpr in con.hints:
            if anchor == "at_start":
                h = I.eval_spec(hexpr, env)
                if h is not None and not isinstance(h, bool):
                    I.sum_lemmas(bz(h))
                    I.assume(bz(h))
        I.pre_pc_len = len(I.pc)
        if self._vacuity_pending:
            self._vacuity_pending = False
            self._vacuity = check_vacuity(list(I.pc))
        old = I.snapshot(env)
        I.old_env = old
        I.entry_old = old
        marks = I.frame_marks(env)
        entry_env = dict(env)
        ret = None
        try:
            I.exec_block(fn.body, env)
        except E.ReturnEx as r:
            ret = r.value
        except E.RaiseEx as r:
            self.check_raise(I, con, r, entry_env)
            raise E.PathEnd()
        except (E.BreakEx, E.ContinueEx):
            raise Unsupported("break/continue outside loop")
        # normal return: postconditions
        I.result = ret
        I.final_env = env
        for gname, where in con.extra.get("bind_ghost", {}).items():
            I.ghost_funcs[gname] = self.resolve_ghost(I, where, con)
        I.cur_line = fn.end_lineno
        post_env = dict(entry_env)
        post_env["__module__"] = con.file
        # ghost updates on normal return: {"self.<ghost attr>": expr}.  The
        # real body cannot write a ghost attribute; the contract says what
        # the function's completion means for it (a definition, listed among
        # the assumptions)
        for gpath, gexpr in con.extra.get("ghost_set", {}).items():
            root, _, attr = gpath.partition(".")
            gobj = post_env.get(root)
            if gobj is None or not hasattr(gobj, "attrs") or "." in attr:
                raise Unsupported(f"ghost_set path {gpath}")
            gobj.attrs[attr] = I.eval_spec(gexpr, post_env)
            I.stats.lib_used.add(f"ghost-definition:{con.func}:{gpath}")
        for anchor, _callee, hexpr in con.hints:
            if anchor == "at_end":
                h = I.eval_spec(hexpr, post_env)
                if h is not None and not isinstance(h, bool):
                    I.sum_lemmas(bz(h))
                    I.assume(bz(h))
        for j, e in enumerate(con.ensures):
            for anchor, which, hexpr in con.hints:
                if anchor == "before_ensures" and which == j:
                    h = I.eval_spec(hexpr, post_env)
                    if h is not None and not isinstance(h, bool):
                        I.sum_lemmas(bz(h))
                        I.assume(bz(h))
            I.oblige(f"ensures[{j}]", I.eval_spec(e, post_env), "ensures",
                     fn.lineno)
        for exc, cond in con.raises.items():
            if cond is None:
                continue
            c = I.eval_old_expr(cond, post_env) if hasattr(
                I, "eval_old_expr") else None
            saved = I.old_env
            env2 = dict(post_env)
            env2.update(old)
            c = bz(I.truth(I.eval_spec(cond, env2)))
            I.oblige(f"raises_{exc}_iff", z3.Not(c), "raises", fn.lineno)
        I.check_loop_frame({"modifies": con.modifies}, marks, entry_env,
                           "fn")
        self.note_cover(f"{con.func}:return")

    def resolve_ghost(self, I, where, con):
        """'inserts[0].posold' / 'last_argsort.perm' / 'call:F.g' -> a spec
        callable over the library's ghost maps of this path."""
        import re
        if where.startswith("call:"):
            if where not in I.ghost:
                def _unbound(I2, *a, where=where):
                    raise SpecError(f"{con.func}: ghost {where} is not "
                                    f"bound on this path")
                return E.LibFunc(where, _unbound)
            return I.ghost[where]
        m = re.match(r"(\w+)(?:\[(\d+)\])?\.(\w+)$", where)
        key, idx, field = m.group(1), m.group(2), m.group(3)
        if key not in I.ghost or I.ghost[key] is None:
            def _unbound(I2, *a, where=where):
                # not bound on this path: only read under a guard that is
                # false here, so an arbitrary value will do
                return I2.fresh_const("unbound_ghost", z3.IntSort())
            return E.LibFunc(where, _unbound)
        g = I.ghost[key]
        if idx is not None:
            g = g[int(idx)]
        f = g[field]
        return E.LibFunc(where, lambda I2, *a, f=f: f(*a))

    def check_raise(self, I, con, r, entry_env):
        allowed = dict(con.raises)
        allowed.update(con.extra.get("may_raise", {}))
        if r.exc == "SystemExit" and con.extra.get("exit_code"):
            env3 = dict(entry_env)
            env3.update(I.old_env)
            want = I.eval_spec(con.extra["exit_code"], env3)
            from .values import veq
            I.oblige(f"exit_code@{r.lineno}",
                     bz(veq(I.ghost.get("exit_code"), want)), "raises",
                     r.lineno)
        if r.exc in allowed:
            cond = allowed[r.exc]
            if cond is None:
                self.note_cover(f"{con.func}:raise:{r.exc}")
                return
            env2 = dict(entry_env)
            env2.update(I.old_env)
            c = bz(I.truth(I.eval_spec(cond, env2)))
            I.oblige(f"raise_{r.exc}_only_if@{r.lineno}", c, "raises",
                     r.lineno)
            self.note_cover(f"{con.func}:raise:{r.exc}")
            return
        I.oblige(f"unexpected_raise_{r.exc}@{r.lineno}", False, "raises",
                 r.lineno)


# ----------------------------------------------------------------------
STAGES = []      # (seconds, verdict, mbqi, timeout_ms) of the last queries


def _solve(hyps, goal, timeout_ms, mbqi=None):
    t0 = time.time()
    r, s = _solve0(hyps, goal, timeout_ms, mbqi)
    STAGES.append((round(time.time() - t0, 2), str(r), mbqi, timeout_ms,
                   len(hyps)))
    del STAGES[:-12]
    return r, s


def _solve0(hyps, goal, timeout_ms, mbqi=None):
    s = z3.Solver()
    if mbqi is not None:
        s.set("smt.mbqi", mbqi)
    s.set("timeout", int(timeout_ms))
    for h in hyps:
        s.add(h)
    s.add(z3.Not(goal))
    return s.check(), s


def _small_model(o, s, g):
    """prefer a small (replayable) counterexample: bound the lengths"""
    try:
        m = s.model()
    except z3.Z3Exception:
        return None
    try:
        lens = _len_consts(list(o.hyps) + [g])
        ints = _int_consts(list(o.hyps) + [g])
        if lens or ints:
            for bound in (4, 12):
                s.push()
                s.set("timeout", 3000)
                for c in ints:          # small scalars too (sizes, counts)
                    s.add(c <= 2 * bound, c >= -2 * bound)
                for ln in lens:
                    s.add(ln <= bound)
                if s.check() == z3.sat:
                    m = s.model()
                    s.pop()
                    break
                s.pop()
    except z3.Z3Exception:
        pass
    return m


def _try_refute(o, g, timeout_ms, quick):
    """model search for a (probably false) obligation"""
    budget = min(timeout_ms, 5000 if quick else 20000)
    try:
        fs = _inst_real_axioms(list(o.hyps) + [z3.Not(g)])
        if not any(E._has_quant(f) for f in fs):
            s2 = z3.Solver()
            s2.set("timeout", budget)
            for f in fs:
                s2.add(f)
            r3 = s2.check()
            if r3 == z3.sat:
                o.status, o.solver = "refuted", "z3-ground-exp-instances"
                o.model = s2.model()
                return True
            if r3 == z3.unsat:
                o.status, o.solver = "discharged", "z3-ground-exp-instances"
                return True
    except z3.Z3Exception:
        pass
    for N in ((1, 2) if quick else (1, 2, 3)):
        try:
            m = bounded_refute(o, N, budget)
        except z3.Z3Exception:
            m = None
        if m is not None:
            o.status = "refuted"
            o.solver = f"z3-bounded-instantiation(N={N})"
            o.model = m
            return True
    return False


def discharge(obls, timeout_ms=10000, use_cvc5=False, refute=True):
    """Decide every obligation: unsat(hyps & !goal) = discharged.

    Staged portfolio (dropping hypotheses is sound for `unsat`):
      1. E-matching only (mbqi off) on the hypotheses pruned of the
         log-domain (nonlinear) facts when the goal does not mention them;
      2. E-matching only on the full query;
      3. a *quick* counterexample search (bounded instantiation) -- false
         obligations are recognised here instead of burning the MBQI budget;
      4. the default configuration with the full budget; cvc5 on unknown;
      5. the full counterexample search."""
    for o in obls:
        t0 = time.time()
        g = o.goal
        if z3.is_true(z3.simplify(g)):
            o.status, o.solver, o.time = "discharged", "trivial", 0.0
            continue
        if o.kind == "interrupt_inv" and z3.is_and(g):
            # conjunctive point-wise invariant: clause by clause, stopping
            # at the first refuted clause (each proved clause is sound on
            # its own; one refuted clause refutes the conjunction)
            verdicts = []
            for c in g.children():
                sub = E.Obl(o.name, "sub", o.func, o.lineno, o.hyps, c,
                            o.path)
                sub.interp, sub.ncalls = o.interp, o.ncalls
                discharge([sub], timeout_ms, use_cvc5, refute)
                verdicts.append(sub.status)
                if sub.status == "refuted":
                    o.status, o.solver, o.model = "refuted", sub.solver, \
                        sub.model
                    o.note = f"clause {len(verdicts) - 1} fails"
                    break
            else:
                if all(v == "discharged" for v in verdicts):
                    o.status, o.solver = "discharged", "z3"
                else:
                    o.status, o.solver = "unknown", "z3"
                    o.note = "clauses: " + ",".join(verdicts)
            o.time = time.time() - t0
            continue
        o.solver = "z3"
        o.status = None
        r, s = None, None
        # background axioms are conservative extensions: each one is
        # irrelevant (and an obstacle to model construction) when nothing
        # else mentions the symbols it is about
        keep = []
        others = [h for h in o.hyps if h.get_id() not in _bg_ids()]
        for h in o.hyps:
            if h.get_id() in _bg_ids():
                syms = _bg_syms(h)
                if _mentions(g, syms) or any(_mentions(q, syms)
                                             for q in others):
                    keep.append(h)
            else:
                keep.append(h)
        o.hyps = keep
        pruned = None
        if not _mentions(g, _LOGSYMS):
            pruned = [h for h in o.hyps if not _mentions(h, _LOGSYMS)]
            if len(pruned) == len(o.hyps):
                pruned = None
        if pruned is None and not _mentions(g, ("SUMA",)):
            # the goal talks about exponential images but not about sums:
            # try without the sum facts (definitional axioms with lambdas
            # are expensive for the quantifier engine)
            nosum = [h for h in o.hyps if not _mentions(h, ("SUMA",))]
            if len(nosum) != len(o.hyps):
                r, s = _solve(nosum, g, min(2000, timeout_ms), mbqi=False)
                if r != z3.unsat:
                    r = None
        if pruned is not None:
            # a short attempt on the full query first: when the pruned
            # facts are needed the pruned query only times out
            r, s = _solve(o.hyps, g, min(1500, timeout_ms), mbqi=False)
            if r != z3.unsat:
                r = None
            if r is None:
                r, s = _solve(pruned, g, min(8000, timeout_ms), mbqi=False)
                if r != z3.unsat:
                    r = None
        if r is None:
            r, s = _solve(o.hyps, g, min(6000, timeout_ms), mbqi=False)
            if r == z3.sat:
                o.status = "refuted"
                o.model = _small_model(o, s, g)
            elif r != z3.unsat:
                r = None
        if r is None and refute and _try_refute(o, g, timeout_ms, True):
            o.time = time.time() - t0
            continue
        if r is None and pruned is not None:
            r, s = _solve(pruned, g, min(3000, timeout_ms))
            if r != z3.unsat:
                r = None
        if r is None:
            r, s = _solve(o.hyps, g, timeout_ms)
        if r == z3.unsat:
            o.status = "discharged"
        elif r == z3.sat:
            o.status = "refuted"
            o.model = _small_model(o, s, g)
        else:
            o.status = "unknown"
            o.note = s.reason_unknown()
            if use_cvc5:
                r2 = cvc5_check(s.to_smt2(), timeout_ms)
                if r2 == "unsat":
                    o.status, o.solver = "discharged", "cvc5"
                elif r2 == "sat":
                    o.status, o.solver = "refuted", "cvc5"
            if o.status == "unknown" and refute:
                _try_refute(o, g, timeout_ms, False)
        o.time = time.time() - t0
    return obls


def check_vacuity(pc):
    """requires (+ type assumptions) must be satisfiable.  The global
    background axioms (exp facts) are sound facts of the reals and are left
    out: they only slow model construction down."""
    from .values import BACKGROUND
    bg = {f.get_id() for f in BACKGROUND if z3.is_quantifier(f)}
    pc = [f for f in pc if f.get_id() not in bg]
    s = z3.Solver()
    s.set("timeout", 4000)
    for f in pc:
        s.add(f)
    r = s.check()
    if r == z3.sat:
        return "sat"
    if r == z3.unsat:
        return "unsat"
    s = z3.Solver()
    s.set("timeout", 8000)
    for ln in _len_consts(pc):
        s.add(ln <= 2)
    for f in pc:
        s.add(_expand(f, 1, 2, {}))
    r = s.check()
    return "sat(bounded-instantiation)" if r == z3.sat else \
        ("unsat(bounded-instantiation: no witness with lengths<=2)"
         if r == z3.unsat else "unknown")


_LOGSYMS = ("EXPF", "LOGF", "SUMA")


def _bg_syms(ax, _c={}):
    """the uninterpreted function symbols a background axiom talks about"""
    k = ax.get_id()
    if k not in _c:
        names = set()
        seen, stack = set(), [ax]
        while stack:
            t = stack.pop()
            if t.get_id() in seen:
                continue
            seen.add(t.get_id())
            if z3.is_quantifier(t):
                stack.append(t.body())
                continue
            if z3.is_app(t):
                if t.decl().kind() == z3.Z3_OP_UNINTERPRETED and \
                        t.num_args() > 0:
                    names.add(t.decl().name())
                stack.extend(t.children())
        _c[k] = tuple(sorted(names))
    return _c[k]


def _bg_ids(_c={}):
    if "ids" not in _c:
        from .values import BACKGROUND
        _c["ids"] = {f.get_id() for f in BACKGROUND if z3.is_quantifier(f)}
    return _c["ids"]


def _mentions(f, names, _cache={}):
    k = (f.get_id(), tuple(names))
    if k in _cache:
        return _cache[k][0]
    seen = set()
    stack = [f]
    found = False
    while stack:
        t = stack.pop()
        if t.get_id() in seen:
            continue
        seen.add(t.get_id())
        if z3.is_quantifier(t):
            stack.append(t.body())
            continue
        if z3.is_app(t):
            if t.decl().name() in names:
                found = True
                break
            stack.extend(t.children())
    _cache[k] = (found, f)      # f kept alive: its id stays its own
    return found


def cvc5_check(smt2, timeout_ms):
    with tempfile.NamedTemporaryFile("w", suffix=".smt2", delete=False) as f:
        f.write("(set-logic ALL)\n" + smt2)
        path = f.name
    try:
        p = subprocess.run(["/usr/bin/cvc5", f"--tlimit={timeout_ms}", path],
                           capture_output=True, text=True,
                           timeout=timeout_ms / 1000 + 5)
        out = p.stdout.strip().splitlines()
        return out[0] if out else "unknown"
    except Exception:
        return "unknown"
    finally:
        os.unlink(path)


# ----------------------------------------------------------------------
# Counterexample search for obligations the solver leaves `unknown`
# (typically a *false* obligation whose quantified hypotheses prevent z3
# from building a model).  Every array length is bounded by N and every
# universally quantified hypothesis is instantiated over the finite index
# range, giving a quantifier-free query.  A model found this way is a model
# of the original VC when all quantifiers are range-guarded by lengths <= N
# (ours are); it is in any case replayed on the real code before it is
# reported with a failing input.  `unsat` here proves nothing and the
# obligation stays undecided.
def _expand(f, pol, N, cache):
    if z3.is_quantifier(f):
        univ = f.is_forall()
        if (univ and pol > 0) or ((not univ) and pol < 0):
            nv = f.num_vars()
            if not all(f.var_sort(i) == z3.IntSort() for i in range(nv)):
                return f
            body = f.body()
            import itertools
            vals = list(range(-1, N + 1))
            if nv > 2:
                vals = list(range(0, N))
            parts = []
            for combo in itertools.product(vals, repeat=nv):
                # de Bruijn: var 0 is the innermost = last declared
                subs = [z3.IntVal(c) for c in reversed(combo)]
                inst = z3.substitute_vars(body, *subs)
                parts.append(_expand(inst, pol, N, cache))
            return z3.And(*parts) if univ else z3.Or(*parts)
        return f
    if not z3.is_app(f) or not z3.is_bool(f):
        return f
    k = f.decl().kind()
    ch = f.children()
    if k == z3.Z3_OP_NOT:
        return z3.Not(_expand(ch[0], -pol, N, cache))
    if k == z3.Z3_OP_AND:
        return z3.And(*[_expand(c, pol, N, cache) for c in ch])
    if k == z3.Z3_OP_OR:
        return z3.Or(*[_expand(c, pol, N, cache) for c in ch])
    if k == z3.Z3_OP_IMPLIES:
        return z3.Implies(_expand(ch[0], -pol, N, cache),
                          _expand(ch[1], pol, N, cache))
    return f


def _int_consts(fs):
    out = {}
    seen = set()
    stack = list(fs)
    while stack:
        t = stack.pop()
        if t.get_id() in seen:
            continue
        seen.add(t.get_id())
        if z3.is_quantifier(t):
            stack.append(t.body())
            continue
        if z3.is_const(t) and t.decl().kind() == z3.Z3_OP_UNINTERPRETED \
                and z3.is_int(t):
            out[t.decl().name()] = t
        stack.extend(t.children())
    return list(out.values())


def _len_consts(fs):
    out = {}
    seen = set()
    stack = list(fs)
    while stack:
        t = stack.pop()
        if t.get_id() in seen:
            continue
        seen.add(t.get_id())
        if z3.is_quantifier(t):
            stack.append(t.body())
            continue
        if z3.is_const(t) and t.decl().kind() == z3.Z3_OP_UNINTERPRETED \
                and z3.is_int(t) and ".len" in t.decl().name():
            out[t.decl().name()] = t
        stack.extend(t.children())
    return list(out.values())


def _ground_apps(fs, name):
    out = {}
    seen = set()
    stack = list(fs)
    while stack:
        t = stack.pop()
        if t.get_id() in seen:
            continue
        seen.add(t.get_id())
        if z3.is_quantifier(t):
            continue
        if z3.is_app(t):
            if t.decl().name() == name:
                out[t.get_id()] = t
            stack.extend(t.children())
    return list(out.values())


def _inst_real_axioms(fs):
    """Replace the pointwise background axioms (forall t. P(EXPF(t), t)) by
    their instances at the ground EXPF terms of the query.  The axioms are
    pointwise, so any model of the instances extends to a model of the
    axioms."""
    from .values import BACKGROUND
    # only the exp axioms (one real bound variable, pattern EXPF(t)); other
    # background axioms (e.g. the flow bijection laws) stay as they are
    bg = {f.get_id(): f for f in BACKGROUND
          if z3.is_quantifier(f) and f.num_vars() == 1 and
          f.var_sort(0) == z3.RealSort()}
    rest = [f for f in fs if f.get_id() not in bg]
    if len(rest) == len(fs):
        return fs
    for _round in range(3):
        apps = _ground_apps(rest, "EXPF")
        new = []
        for ax in bg.values():
            for a in apps:
                new.append(z3.substitute_vars(ax.body(), a.arg(0)))
        before = len(_ground_apps(rest, "EXPF"))
        rest = [f for f in rest] + new
        if len(_ground_apps(rest, "EXPF")) == before:
            break
    return rest


def _finite_sums(fs, N):
    """SUMA(lam, lo, hi) -> explicit finite sum over 0..N+2 (valid when all
    sequence lengths are <= N, which bounded_refute imposes)."""
    apps = _ground_apps(fs, "SUMA")
    if not apps:
        return fs
    pairs = []
    for a in apps:
        lam, lo, hi = a.children()
        terms = []
        for k in range(0, N + 3):
            kv = z3.IntVal(k)
            terms.append(z3.If(z3.And(lo <= kv, kv < hi),
                               z3.Select(lam, kv), z3.RealVal(0)))
        pairs.append((a, z3.Sum(*terms) if len(terms) > 1 else terms[0]))
    out = [z3.simplify(z3.substitute(f, *pairs)) for f in fs]
    extra = []
    for a in apps:
        lam, lo, hi = a.children()
        extra.append(z3.And(lo >= 0, hi <= N + 3))
    return out + extra


def bounded_refute(o, N=3, timeout_ms=20000):
    from .values import BACKGROUND
    bgq = [f for f in BACKGROUND if z3.is_quantifier(f)]
    bgid = {f.get_id() for f in bgq}
    fs = [f for f in list(o.hyps) + [z3.Not(o.goal)]
          if f.get_id() not in bgid]
    fs = _finite_sums(fs, N)
    fs = _inst_real_axioms(fs + bgq)
    lens = _len_consts(fs)
    ex = [_expand(f, 1, N, {}) for f in fs]
    # first with every length pinned to one small value (fast), then <= N
    attempts = [[ln == v for ln in lens] for v in range(0, N + 1)] if lens \
        else []
    attempts.append([ln <= N for ln in lens])
    for k_, extra in enumerate(attempts):
        s = z3.Solver()
        s.set("timeout", timeout_ms if k_ == len(attempts) - 1
              else min(timeout_ms, 5000))
        for c in extra:
            s.add(c)
        for f in ex:
            s.add(f)
        if s.check() == z3.sat:
            return s.model()
    return None
