"""Turn a z3 model into concrete, JSON-able inputs for the replay harness."""
from __future__ import annotations

import z3

from .values import (SymSeq, SymStruct, SymRow, Cell, Obj, Opaque, OptVal,
                     StrVal, INF, NANV, is_z3)

MAXLEN = 64


def num(model, t):
    v = model.eval(t, model_completion=True)
    if z3.is_int_value(v):
        return v.as_long()
    if z3.is_rational_value(v):
        n, d = v.numerator_as_long(), v.denominator_as_long()
        inf = model.eval(INF, model_completion=True)
        try:
            fi = inf.numerator_as_long() / inf.denominator_as_long()
            fv = n / d
            nan = model.eval(NANV, model_completion=True)
            fn = nan.numerator_as_long() / nan.denominator_as_long()
            if fv == fn and fv != 0:
                return "nan"
            if fv == fi:
                return "inf"
            if fv == -fi:
                return "-inf"
        except Exception:
            pass
        return n / d if d != 1 else float(n)
    if z3.is_algebraic_value(v):
        a = v.approx(12)
        return a.numerator_as_long() / a.denominator_as_long()
    if z3.is_true(v):
        return True
    if z3.is_false(v):
        return False
    return str(v)


def conc(model, v, depth=0):
    if depth > 6:
        return "<deep>"
    if isinstance(v, Cell):
        return conc(model, v.value, depth)
    if v is None or isinstance(v, (bool, int, float, str)):
        return v
    if is_z3(v):
        return num(model, v)
    if isinstance(v, SymSeq):
        n = num(model, v.length) if is_z3(v.length) else v.length
        if not isinstance(n, int) or n < 0:
            return {"__len__": str(n)}
        if isinstance(v.elem, str) and v.elem == "Sort(QRow)":
            from .nplib import tbl_col
            rows = [v.get(i) for i in range(min(n, MAXLEN))]
            return {"__tbl__": [[num(model, tbl_col(r, j))
                                 for j in (0, 1, -1)] for r in rows]}
        out = [conc(model, v.get(i), depth + 1) for i in range(min(n, MAXLEN))]
        return out
    if isinstance(v, SymStruct):
        n = num(model, v.length) if is_z3(v.length) else v.length
        if not isinstance(n, int) or n < 0:
            return {"__len__": str(n)}
        return {"__struct__": {f: [conc(model, s.get(i), depth + 1)
                                   for i in range(min(n, MAXLEN))]
                               for f, s in v.fields.items()}, "__n__": n}
    if isinstance(v, SymRow):
        return {"__row__": {f: conc(model, x, depth + 1)
                            for f, x in v.fields.items()}}
    if isinstance(v, OptVal):
        if num(model, v.present):
            return conc(model, v.value, depth + 1)
        return None
    if isinstance(v, StrVal):
        k = num(model, v.term)
        if isinstance(k, int) and 0 <= k < len(StrVal.TABLE):
            return StrVal.TABLE[k]
        # an unknown string whose lower-case form is a known constant: a
        # differently capitalised spelling of that constant
        try:
            from .nplib import STR_LOWER
            lk = num(model, STR_LOWER(v.term))
            if isinstance(lk, int) and 0 <= lk < len(StrVal.TABLE):
                c = StrVal.TABLE[lk]
                for cand in (c.upper(), c.capitalize(), c.title()):
                    if cand != c and cand.lower() == c:
                        return cand
        except Exception:                               # noqa: BLE001
            pass
        return f"<str#{k}>"
    if isinstance(v, Obj):
        return {"__obj__": v.cls,
                "attrs": {a: conc(model, x, depth + 1)
                          for a, x in v.attrs.items()}}
    if isinstance(v, tuple):
        return {"__tuple__": [conc(model, x, depth + 1) for x in v]}
    if isinstance(v, list):
        return [conc(model, x, depth + 1) for x in v]
    if isinstance(v, dict):
        return {str(k): conc(model, x, depth + 1) for k, x in v.items()}
    if isinstance(v, Opaque):
        return f"<opaque {v.what}>"
    if type(v).__name__ == "FuncVal":
        dom = v.f1.domain(0)
        uni = model.get_universe(dom) or []
        return {"__func__": {str(u): num(model, v.f1(u)) for u in uni},
                "default": num(model, v.f1(z3.Const("__dflt", dom)))}
    if type(v).__name__ == "PoolVal":
        return {"__pool__": True}
    return f"<{type(v).__name__}>"
