"""Library contracts: the numpy / builtin / stdlib behaviour the proofs use.

Each entry is an *assumption about a dependency* (listed in the evidence by
name whenever a proof used it) and is conformance-tested against the real
library by standin/libconf.py (bounded, labelled as such)."""
from __future__ import annotations

import ast
import operator

import z3

from . import contracts as C
from .front import Source, ClassIndex, REPO
from .values import (Unsupported, SpecError, SymSeq, SymStruct, SymRow, Cell,
                     Obj, Opaque, GenResult, Closure, OptVal, StrVal, ite,
                     veq, bz, to_z3, to_real, to_int, unify, is_z3, is_int,
                     is_bool, parse_type, scalar_sort, usort, INF, NANV)
from . import engine as E

LIB = {}
SPEC_CONSTS = {"INF": INF, "NAN": NANV}


def lib(*names):
    def deco(fn):
        for n in names:
            LIB[n] = E.LibFunc(n, fn)
        return fn
    return deco


def _val(v):
    if isinstance(v, OptVal):
        # callers that can fail on None (subscript, len, iteration,
        # arithmetic, comparison) emit the not-None obligation themselves
        v = v.value
    return v.read() if isinstance(v, Cell) else v


def _is_arr(v):
    v = _val(v)
    return isinstance(v, (SymSeq, SymStruct))


def _scalar(v):
    return is_z3(v) or isinstance(v, (bool, int, float))


# --------------------------------------------------------------- arithmetic
_PYOPS = {ast.Add: operator.add, ast.Sub: operator.sub,
          ast.Mult: operator.mul, ast.Div: operator.truediv,
          ast.FloorDiv: operator.floordiv, ast.Mod: operator.mod,
          ast.Pow: operator.pow, ast.BitAnd: operator.and_,
          ast.BitOr: operator.or_, ast.BitXor: operator.xor}


def binop(I, op, a, b):
    a0, b0 = a, b
    if isinstance(a, OptVal):
        I.oblige(f"not_None@{I.cur_line}", a.present, "safety")
    if isinstance(b, OptVal):
        I.oblige(f"not_None@{I.cur_line}", b.present, "safety")
    a, b = _val(a), _val(b)
    ty = type(op)
    if isinstance(a, Opaque) or isinstance(b, Opaque):
        return Opaque("arith")
    conc = (bool, int, float, str, list, tuple)
    if isinstance(a, conc) and isinstance(b, conc):
        if ty in (ast.Div, ast.FloorDiv, ast.Mod) and b == 0:
            I.fail(f"div_by_zero@{I.cur_line}")
        r = _PYOPS[ty](a, b)
        return r
    if isinstance(a, set) and isinstance(b, set):
        return _PYOPS[ty](a, b)
    if isinstance(a, (list, tuple)) and isinstance(b, int) and ty is ast.Mult:
        return a * b
    if ty is ast.Add and isinstance(a0, Cell) and a0.kind == "list" and \
            isinstance(b, list):
        out = a
        for x in b:
            n0 = out.length
            out = SymSeq(_plus(n0, 1), (lambda i, out=out, n0=n0, x=x: ite(
                to_int(i) == to_int(n0), _coerce_elem(x, out.elem),
                out.get(i))), out.elem)
        return Cell("list", out)
    if isinstance(a, SymSeq) or isinstance(b, SymSeq):
        return seq_binop(I, op, a, b)
    if isinstance(a, (SymStruct, SymRow)) or isinstance(b, (SymStruct,
                                                             SymRow)):
        raise Unsupported("arithmetic on structured values")
    if not (_scalar(a) and _scalar(b)):
        raise Unsupported(f"binop {ty.__name__} on {a!r}, {b!r}")
    return scalar_binop(I, ty, a, b)


INT_QUOTIENTS = []


def scalar_binop(I, ty, a, b, elementwise=False):
    if ty in (ast.BitAnd, ast.BitOr, ast.BitXor):
        x, y = to_z3(a), to_z3(b)
        if z3.is_bool(x) and z3.is_bool(y):
            return {ast.BitAnd: z3.And, ast.BitOr: z3.Or,
                    ast.BitXor: z3.Xor}[ty](x, y)
        raise Unsupported("bitwise op on non-booleans")
    if ty is ast.Div:
        x, y = to_z3(a), to_z3(b)
        if (z3.is_int(y) or _is_toreal(y)) and not elementwise:
            I.oblige(f"div_by_zero@{I.cur_line}", y != 0, "safety")
        ints = (z3.is_int(x) or _is_toreal(x)) and \
            (z3.is_int(y) or _is_toreal(y))
        x, y = to_real(x), to_real(y)
        r = x / y
        if ints:
            # the quotient of two integers is an ordinary number, never the
            # NaN marker (remembered: used where such quotients are stored)
            INT_QUOTIENTS.append(r)
            del INT_QUOTIENTS[:-200]
        return r
    x, y = unify(a, b)
    if z3.is_bool(x):
        x, y = to_int(x), to_int(y)
    if ty is ast.Add:
        return x + y
    if ty is ast.Sub:
        return x - y
    if ty is ast.Mult:
        return x * y
    if ty is ast.FloorDiv:
        if z3.is_int(x):
            if not elementwise:
                I.oblige(f"div_by_zero@{I.cur_line}", y != 0, "safety")
            return z3.If(y > 0, x / y, (-x) / (-y))
        raise Unsupported("floor division of reals")
    if ty is ast.Mod:
        if z3.is_int(x):
            if not elementwise:
                I.oblige(f"mod_by_zero@{I.cur_line}", y != 0, "safety")
            return z3.If(y > 0, x % y, -((-x) % (-y)))
        # x % m on reals (python / numpy floor-mod): FMOD with its defining
        # facts for a positive modulus (background axiom below)
        return fmod_term(I, x, y)
    if ty is ast.Pow:
        if isinstance(b, int) and 0 <= b <= 4:
            r = to_z3(1) if z3.is_int(x) else z3.RealVal(1)
            for _ in range(b):
                r = r * x
            return r
        return uf("POW", z3.RealSort(), to_real(x), to_real(y))
    raise Unsupported(f"operator {ty.__name__}")


def _is_toreal(t):
    return z3.is_app(t) and t.decl().kind() == z3.Z3_OP_TO_REAL


def seq_binop(I, op, a, b):
    ty = type(op)
    if isinstance(a, SymSeq) and isinstance(b, SymSeq):
        I.oblige(f"broadcast_len@{I.cur_line}",
                 to_int(a.length) == to_int(b.length), "safety")
        return SymSeq(a.length,
                      lambda i: scalar_binop(I, ty, a.get(i), b.get(i), True),
                      _res_elem(ty, a.elem, b.elem))
    if isinstance(a, SymSeq):
        if not _scalar(b):
            raise Unsupported("array op non-scalar")
        out = SymSeq(a.length,
                     lambda i: scalar_binop(I, ty, a.get(i), b, True),
                     _res_elem(ty, a.elem, _elem_of(b)))
        if ty is ast.Sub and a.elem == "Real":
            out.sub_of = a         # (see seq_compare: IEEE fact)
        return out
    if not _scalar(a):
        raise Unsupported("array op non-scalar")
    return SymSeq(b.length, lambda i: scalar_binop(I, ty, a, b.get(i), True),
                  _res_elem(ty, _elem_of(a), b.elem))


def _elem_of(v):
    if isinstance(v, bool) or (is_z3(v) and z3.is_bool(v)):
        return "Bool"
    if isinstance(v, int) or (is_z3(v) and z3.is_int(v)):
        return "Int"
    return "Real"


def _res_elem(ty, ea, eb):
    if ty is ast.Div:
        return "Real"
    if ty in (ast.BitAnd, ast.BitOr, ast.BitXor):
        return "Bool"
    if ea == "Real" or eb == "Real":
        return "Real"
    return "Int"


def unop(I, op, v):
    v = _val(v)
    if isinstance(v, SymSeq):
        out = SymSeq(v.length, lambda i: unop(I, op, v.get(i)), v.elem)
        if isinstance(op, ast.Invert) and hasattr(v, "isin"):
            out.not_isin = v.isin
        return out
    if isinstance(op, ast.USub):
        if isinstance(v, (int, float)):
            return -v
        return -to_z3(v)
    if isinstance(op, ast.UAdd):
        return v
    if isinstance(op, ast.Invert):
        x = to_z3(v)
        if z3.is_bool(x):
            return z3.Not(x)
    raise Unsupported("unary operator")


def and_(I, a, b):
    if isinstance(a, bool) and isinstance(b, bool):
        return a and b
    return z3.And(bz(a), bz(b))


_CMP = {ast.Lt: operator.lt, ast.LtE: operator.le, ast.Gt: operator.gt,
        ast.GtE: operator.ge}


def compare(I, op, a, b):
    ty = type(op)
    if ty in (ast.In, ast.NotIn) and isinstance(b, Cell) and \
            b.kind == "idict":
        r = contains(I, b, a)
        return z3.Not(r) if ty is ast.NotIn else r
    if not isinstance(a, OptVal):
        a = _val(a)
    if not isinstance(b, OptVal):
        b = _val(b)
    if ty in (ast.Is, ast.IsNot):
        if (a is None) != (b is None) and isinstance(
                b if a is None else a,
                (SymSeq, SymStruct, SymRow, Obj, Cell, FuncVal)):
            r = False                  # a definite object is not None
        elif a is None or b is None:
            r = veq(a, b)
        elif isinstance(a, bool) or isinstance(b, bool):
            r = veq(a, b)
        else:
            r = a is b
        if ty is ast.IsNot:
            return (not r) if isinstance(r, bool) else z3.Not(r)
        return r
    if ty in (ast.Eq, ast.NotEq):
        if isinstance(a, SymSeq) or isinstance(b, SymSeq):
            return seq_compare(I, ty, a, b)
        r = veq(a, b)
        if ty is ast.NotEq:
            return (not r) if isinstance(r, bool) else z3.Not(r)
        return r
    if ty in (ast.In, ast.NotIn):
        r = contains(I, b, a)
        if ty is ast.NotIn:
            return (not r) if isinstance(r, bool) else z3.Not(r)
        return r
    if isinstance(a, OptVal):
        I.oblige(f"not_None@{I.cur_line}", a.present, "safety")
        a = _val(a)
    if isinstance(b, OptVal):
        I.oblige(f"not_None@{I.cur_line}", b.present, "safety")
        b = _val(b)
    if isinstance(a, SymSeq) or isinstance(b, SymSeq):
        return seq_compare(I, ty, a, b)
    if isinstance(a, (int, float)) and isinstance(b, (int, float)):
        return _CMP[ty](a, b)
    if a is None or b is None:
        if I.spec:
            return False     # unspecified; always guarded by `is None`
        I.fail(f"compare_None@{I.cur_line}")
    if not (_scalar(a) and _scalar(b)):
        raise Unsupported(f"comparison of {a!r} and {b!r}")
    x, y = unify(a, b)
    if z3.is_bool(x):
        x, y = to_int(x), to_int(y)
    if I.V.log_domain and z3.is_real(x) and not I.spec:
        # exp is strictly monotone: instance for this comparison
        ex, ey = EXPI(I, x), EXPI(I, y)
        I.assume((x < y) == (ex < ey))
        I.assume((x == y) == (ex == ey))
    return _CMP[ty](x, y)


def seq_compare(I, ty, a, b):
    logd = I.V.log_domain and not I.spec
    if logd:
        for s_ in (a, b):
            pass
        sa = a if isinstance(a, SymSeq) else None
        sb = b if isinstance(b, SymSeq) else None
        n_ = (sa or sb).length
        if (sa is None or sa.elem == "Real") and \
                (sb is None or sb.elem == "Real") and \
                ty in (ast.Lt, ast.LtE, ast.Gt, ast.GtE):
            def both(k):
                x_ = to_real(sa.get(k) if sa is not None else a)
                y_ = to_real(sb.get(k) if sb is not None else b)
                return z3.And((x_ < y_) == (EXPI(I, x_) < EXPI(I, y_)),
                              (x_ == y_) == (EXPI(I, x_) == EXPI(I, y_)))
            I.assume(forall_idx(I, n_, both))

    def cmp1(x, y):
        if ty is ast.Eq:
            return bz(veq(x, y))
        if ty is ast.NotEq:
            return z3.Not(bz(veq(x, y)))
        p, q = unify(x, y)
        return _CMP[ty](p, q)
    if isinstance(a, SymSeq) and ty is ast.Gt and \
            a.__dict__.get("sub_of") is not None and not I.spec:
        # IEEE fact the real-number model lacks: for floats p, q, u the
        # STRICT test (p - q) > u is False whenever p is -inf or NaN (then
        # p - q is -inf or NaN; nothing is below -inf and no comparison with
        # NaN is True).  (Not so for >=: -inf >= -inf.)  Acceptance masks of
        # the form (log_w - max) > log_u rely on it to keep zero-weight
        # points out.
        pseq = a.sub_of

        def fact(k):
            lhs = cmp1(a.get(k), b.get(k) if isinstance(b, SymSeq) else b)
            return z3.Implies(lhs, z3.And(to_real(pseq.get(k)) != -INF,
                                          to_real(pseq.get(k)) != NANV))
        I.assume(forall_idx(I, a.length, fact))
    if isinstance(a, SymSeq) and isinstance(b, SymSeq):
        I.oblige(f"broadcast_len@{I.cur_line}",
                 to_int(a.length) == to_int(b.length), "safety")
        return SymSeq(a.length, lambda i: cmp1(a.get(i), b.get(i)), "Bool")
    if isinstance(a, SymSeq):
        return SymSeq(a.length, lambda i: cmp1(a.get(i), b), "Bool")
    return SymSeq(b.length, lambda i: cmp1(a, b.get(i)), "Bool")


def contains(I, container, item):
    if isinstance(container, Cell) and container.kind == "idict":
        n = to_int(container.read().length)
        k = to_int(_val(item))
        return z3.And(-1 <= k, k < n - 1)
    container = _val(container)
    if isinstance(container, (list, tuple, set, frozenset)):
        if isinstance(item, (str, int, float, bool)) and all(
                isinstance(x, (str, int, float, bool)) for x in container):
            return item in container
        rs = [veq(x, item) for x in container]
        if all(isinstance(r, bool) for r in rs):
            return any(rs)
        return z3.Or(*[bz(r) for r in rs])
    if isinstance(container, dict):
        return contains(I, list(container.keys()), item)
    if isinstance(container, str) and isinstance(item, str):
        return item in container
    raise Unsupported(f"'in' on {container!r}")


# ------------------------------------------------------------------ slices
def norm_index(I, i, n, what="index"):
    """python index with negative wrap; obligation: in range."""
    if isinstance(i, int) and isinstance(n, int):
        if not -n <= i < n:
            I.fail(f"{what}_in_range@{I.cur_line}")
        return i + n if i < 0 else i
    i_, n_ = to_int(i), to_int(n)
    if isinstance(i, int) and i >= 0:
        I.oblige(f"{what}_in_range@{I.cur_line}", i_ < n_, "safety")
        return i
    if isinstance(i, int) and i < 0:
        I.oblige(f"{what}_in_range@{I.cur_line}", -n_ <= i_, "safety")
        return z3.simplify(i_ + n_)
    if I.spec:
        # contract expressions index mathematically (0-based, no negative
        # wrap-around): a[i] with a symbolic i is the i-th element
        return i_
    I.oblige(f"{what}_in_range@{I.cur_line}",
             z3.And(-n_ <= i_, i_ < n_), "safety")
    return z3.If(i_ < 0, i_ + n_, i_)


def norm_bound(b, n, default):
    """python slice bound normalisation for step 1."""
    if b is None:
        return default
    if isinstance(b, OptVal):
        raise Unsupported("optional slice bound")
    if isinstance(b, int) and isinstance(n, int):
        if b < 0:
            return max(b + n, 0)
        return min(b, n)
    b_, n_ = to_int(b), to_int(n)
    if isinstance(b, int) and b >= 0:
        if b == 0:
            return 0
        return z3.If(b_ < n_, b_, n_)
    if isinstance(b, int) and b < 0:
        return z3.If(b_ + n_ < 0, 0, z3.simplify(b_ + n_))
    return z3.If(b_ < 0, z3.If(b_ + n_ < 0, 0, b_ + n_),
                 z3.If(b_ < n_, b_, n_))


def slice_bounds(I, sl, n):
    if sl.step is not None and not (isinstance(sl.step, int)
                                    and sl.step == 1):
        raise Unsupported("slice step")
    lo = norm_bound(sl.start, n, 0)
    hi = norm_bound(sl.stop, n, n)
    return lo, hi


def _minus_nonneg(hi, lo):
    if isinstance(hi, int) and isinstance(lo, int):
        return max(hi - lo, 0)
    d = to_int(hi) - to_int(lo)
    return z3.If(d < 0, 0, d)


def _plus(a, b):
    if isinstance(a, int) and isinstance(b, int):
        return a + b
    if isinstance(b, int) and b == 0:
        return a
    if isinstance(a, int) and a == 0:
        return b
    return to_int(a) + to_int(b)


def seq_slice(s, lo, hi):
    return SymSeq(_minus_nonneg(hi, lo), lambda i: s.get(_plus(i, lo)),
                  s.elem)


def struct_slice(s, lo, hi):
    n = _minus_nonneg(hi, lo)
    return SymStruct(n, {f: SymSeq(n, (lambda i, q=q: q.get(_plus(i, lo))),
                                   q.elem) for f, q in s.fields.items()})


def eval_slice(I, node, env):
    if isinstance(node, ast.Slice):
        return I.e_Slice(node, env)
    return I.eval(node, env)


def load_subscript(I, base, slice_node, env):
    key = eval_slice(I, slice_node, env)
    return getitem(I, base, key)


def getitem(I, base, key):
    key = _val(key) if not isinstance(key, slice) else key
    if isinstance(base, _SliceMaker):
        return key
    if isinstance(base, Opaque):
        return Opaque(f"{base.what}[...]")     # part of an uninspected value
    if isinstance(base, OptVal):
        I.oblige(f"not_None@{I.cur_line}", base.present, "safety")
        base = base.value
    if isinstance(key, OptVal):
        I.oblige(f"index_not_None@{I.cur_line}", key.present, "safety")
        key = _val(key.value)
    if isinstance(base, E.Obj) and isinstance(key, str) and \
            ("item_" + key) in base.attrs:
        # an object of a dict subclass (CombinedReparameterisation): its
        # entries are the shape attributes item_<key>
        return base.attrs["item_" + key]
    if isinstance(base, Cell):
        val = base.read()
        if base.kind == "idict":
            return idict_get(I, val, key)
        if base.kind == "row":
            if isinstance(key, str):
                if key not in val.fields:
                    I.fail(f"field_{key}@{I.cur_line}")
                return val.fields[key]
            raise Unsupported("non-field subscript of a record")
        if base.kind == "list":
            if isinstance(key, slice):
                lo, hi = slice_bounds(I, key, val.length)
                return Cell("list", seq_slice(val, lo, hi))
            i = norm_index(I, key, val.length)
            el = val.get(i)
            if isinstance(el, SymRow):
                return Cell("row", el, view_of=base)
            return el
        # numpy arrays
        if isinstance(val, SymStruct):
            if isinstance(key, str):
                if key not in val.fields:
                    I.fail(f"field_{key}@{I.cur_line}")
                return Cell("arr", val.fields[key], view_of=base)
            if isinstance(key, slice):
                lo, hi = slice_bounds(I, key, val.length)
                return Cell("arr", struct_slice(val, lo, hi), view_of=base)
            if isinstance(key, SymSeq):
                return Cell("arr", struct_take(I, val, key))
            if isinstance(key, (list, tuple)) and all(
                    isinstance(k, str) for k in key):
                return Cell("arr", SymStruct(
                    val.length, {k: val.fields[k] for k in key}),
                    view_of=base)
            i = norm_index(I, key, val.length)
            return Cell("row", val.row(i), view_of=base)
        if isinstance(val, SymSeq):
            if isinstance(key, str) and isinstance(val.elem, str) and \
                    val.elem.startswith("Row("):
                # np.array(list of records)["field"]
                ety = dict(parse_type(val.elem)[1]).get(key)
                if ety is None:
                    I.fail(f"field_{key}@{I.cur_line}")
                return Cell("arr", SymSeq(
                    val.length, lambda i: _val(val.get(i)).fields[key],
                    ety))
            if isinstance(key, slice):
                lo, hi = slice_bounds(I, key, val.length)
                return Cell("arr", seq_slice(val, lo, hi), view_of=base)
            if isinstance(key, SymSeq):
                return Cell("arr", seq_take(I, val, key))
            if isinstance(key, tuple) and len(key) == 2 and \
                    val.elem.startswith("Sort("):
                return tbl_getitem(I, base, val, key)
            if isinstance(key, tuple) and len(key) == 2 and \
                    _full(key[0]) and key[1] is None and \
                    val.elem in ("Real", "Int"):
                return ColVal(val)             # v[:, np.newaxis]
            if key is None or isinstance(key, tuple):
                raise Unsupported("multi-dimensional subscript")
            i = norm_index(I, key, val.length)
            return val.get(i)
        raise Unsupported(f"subscript of {base!r}")
    if isinstance(base, SymSeq):
        return getitem(I, Cell("arr", base), key)
    if isinstance(base, SymStruct):
        return getitem(I, Cell("arr", base), key)
    if isinstance(base, SymRow):
        return getitem(I, Cell("row", base), key)
    if isinstance(base, (list, tuple)):
        if isinstance(key, slice):
            if any(is_z3(x) for x in (key.start, key.stop, key.step)):
                raise Unsupported("symbolic slice of a python list")
            return base[key]
        if isinstance(key, int):
            if not -len(base) <= key < len(base):
                I.fail(f"index_in_range@{I.cur_line}")
            return base[key]
        if is_z3(key):
            n = len(base)
            k = norm_index(I, key, n)
            out = base[-1]
            for j in range(n - 2, -1, -1):
                out = ite(to_int(k) == j, base[j], out)
            return out
    if isinstance(base, dict):
        if isinstance(key, StrVal):
            raise Unsupported("symbolic dict key")
        if key not in base:
            I.fail(f"key_{key}@{I.cur_line}")
        return base[key]
    if isinstance(base, str) and isinstance(key, (int, slice)):
        return base[key]
    raise Unsupported(f"subscript of {base!r} with {key!r} "
                      f"(line {I.cur_line})")


def seq_take(I, s, idx):
    """fancy indexing a[idx] with an integer or boolean index array."""
    if idx.elem == "Bool":
        return mask_select(I, s, idx)
    I.oblige(f"fancy_index_in_range@{I.cur_line}",
             forall_idx(I, idx.length, lambda k: z3.And(
                 -to_int(s.length) <= idx.get(k),
                 idx.get(k) < to_int(s.length))), "safety")

    def get(k):
        j = idx.get(k)
        return s.get(z3.If(j < 0, j + to_int(s.length), j))
    return SymSeq(idx.length, get, s.elem)


def struct_take(I, s, idx):
    if idx.elem == "Bool":
        # one selection map per mask (shared with every other array the same
        # mask is applied to), field by field
        cols = {f: mask_select(I, q, idx) for f, q in s.fields.items()}
        any_col = next(iter(cols.values()))
        return SymStruct(any_col.length, cols)
    I.oblige(f"fancy_index_in_range@{I.cur_line}",
             forall_idx(I, idx.length, lambda k: z3.And(
                 -to_int(s.length) <= idx.get(k),
                 idx.get(k) < to_int(s.length))), "safety")
    n = to_int(s.length)

    def mk(q):
        return SymSeq(idx.length, lambda k: q.get(
            z3.If(idx.get(k) < 0, idx.get(k) + n, idx.get(k))), q.elem)
    return SymStruct(idx.length, {f: mk(q) for f, q in s.fields.items()})


def mask_maps(I, mask):
    """selection maps of a boolean mask (one per mask object): src strictly
    increasing over exactly the True positions, dst its inverse, cnt the
    number of True entries"""
    n = to_int(mask.length)
    nm = I.namer.fresh
    mcache = I.ghost.setdefault("mask_cache", {})
    if id(mask) in mcache:
        return mcache[id(mask)][:3]
    cnt = I.fresh_const("mask_count", z3.IntSort())
    src = z3.Function(nm("mask_src"), z3.IntSort(), z3.IntSort())
    dst = z3.Function(nm("mask_dst"), z3.IntSort(), z3.IntSort())
    mcache[id(mask)] = (src, dst, cnt, mask)
    I.assume(z3.And(0 <= cnt, cnt <= n))
    i = z3.Int(nm("q_i"))
    i2 = z3.Int(nm("q_i2"))
    v = z3.Int(nm("q_v"))
    I.assume(z3.ForAll([i], z3.Implies(z3.And(0 <= i, i < cnt), z3.And(
        0 <= src(i), src(i) < n, mask.get(src(i)), dst(src(i)) == i))))
    I.assume(z3.ForAll([i, i2], z3.Implies(
        z3.And(0 <= i, i < i2, i2 < cnt), src(i) < src(i2))))
    I.assume(z3.ForAll([v], z3.Implies(
        z3.And(0 <= v, v < n, mask.get(v)),
        z3.And(0 <= dst(v), dst(v) < cnt, src(dst(v)) == v))))
    I.ghost["last_mask"] = {"src": src, "dst": dst, "cnt": cnt}
    tag = mask.__dict__.get("not_isin")
    if tag is not None:
        b = tag["b"]
        # counting fact, under its side conditions
        side = z3.And(
            sorted_seq(I, b, strict=True),
            forall_idx(I, b.length, lambda q: z3.And(0 <= b.get(q),
                                                     b.get(q) < n)),
            forall_idx(I, n, lambda q: tag["a"].get(q) == q))
        I.assume(z3.Implies(side, cnt == n - to_int(b.length)))
    return src, dst, cnt


def mask_select(I, s, mask):
    """a[mask]: R[i] = a[src(i)] with src strictly increasing over exactly
    the True positions; dst is the inverse map on True positions.  The
    length is COUNT(mask) (also what mask.sum() returns); for the pattern
    arange(n)[~isin(arange(n), b)] with b strictly increasing inside [0, n)
    the count is n - len(b) (library-level counting fact, conformance-
    tested).  Arrays selected by the same mask object share the maps (x[m],
    y[m] stay aligned)."""
    I.oblige(f"mask_len@{I.cur_line}",
             to_int(mask.length) == to_int(s.length), "safety")
    src, dst, cnt = mask_maps(I, mask)
    return SymSeq(cnt, lambda q: s.get(src(to_int(q))), s.elem)


def forall_idx(I, n, body):
    k = z3.Int(I.namer.fresh("q_k"))
    rng = z3.And(0 <= k, k < to_int(n))
    b = I.ctx_simplify(rng, bz(body(k)))
    return z3.ForAll([k], z3.Implies(rng, b))


def store_subscript(I, base, slice_node, value, env):
    key = eval_slice(I, slice_node, env)
    setitem(I, base, key, value)


def setitem(I, base, key, value):
    if isinstance(base, OptVal):
        I.oblige(f"store_not_None@{I.cur_line}", base.present, "safety")
        base = base.value
    key = _val(key) if not isinstance(key, slice) else key
    if isinstance(base, dict):
        if isinstance(key, (StrVal,)) or is_z3(key):
            raise Unsupported("symbolic dict key")
        base[key] = value
        return
    if isinstance(base, list):
        if isinstance(key, int):
            base[key] = value
            return
        raise Unsupported("symbolic store into a python list")
    if not isinstance(base, Cell):
        raise Unsupported(f"subscript store on {base!r}")
    if base.view_of is not None:
        # write through a one-level view of a live base: forward it
        parent = base.view_of
        if parent.view_of is None and base.view_version == parent.version \
                and hasattr(base, "view_key"):
            raise Unsupported("write through a view")
        raise Unsupported("write through a numpy view")
    val = base.read()
    v = _val(value)
    if base.kind == "idict":
        idict_set(I, base, key, v)
        return
    if base.kind == "row":
        if isinstance(key, str):
            f = dict(val.fields)
            if key not in f:
                I.fail(f"field_{key}@{I.cur_line}")
            f[key] = _coerce_like(v, f[key])
            base.write(SymRow(f))
            return
        raise Unsupported("record store")
    if isinstance(val, SymStruct):
        if isinstance(key, str):
            if key not in val.fields:
                I.fail(f"field_{key}@{I.cur_line}")
            old = val.fields[key]
            if isinstance(v, SymSeq):
                I.oblige(f"assign_len@{I.cur_line}",
                         to_int(v.length) == to_int(val.length), "safety")
                new = SymSeq(val.length, lambda i: _coerce_like(
                    v.get(i), old.get(0)), old.elem)
            else:
                cv = _coerce_elem(v, old.elem)
                new = SymSeq(val.length, lambda i: cv, old.elem)
            f = dict(val.fields)
            f[key] = new
            base.write(SymStruct(val.length, f))
            return
        if isinstance(key, (list, tuple)) and key and all(
                isinstance(k, str) for k in key) and isinstance(v, SymStruct):
            # a[[f1, f2, ...]] = b: numpy assigns structured values BY
            # POSITION (the j-th field of b goes to a[fj])
            for k in key:
                if k not in val.fields:
                    I.fail(f"field_{k}@{I.cur_line}")
            if len(key) != len(v.fields) or len(set(key)) != len(key):
                I.fail(f"multi_field_count@{I.cur_line}")
            I.oblige(f"assign_len@{I.cur_line}",
                     to_int(v.length) == to_int(val.length), "safety")
            f = dict(val.fields)
            for k, src in zip(key, v.fields.values()):
                old = val.fields[k]
                f[k] = SymSeq(val.length, (
                    lambda i, src=src, old=old: _coerce_like(
                        src.get(i), old.get(0))), old.elem)
            base.write(SymStruct(val.length, f))
            return
        if isinstance(key, slice):
            lo, hi = slice_bounds(I, key, val.length)
            if isinstance(v, SymStruct):
                I.oblige(f"assign_len@{I.cur_line}",
                         to_int(v.length) == to_int(_minus_nonneg(hi, lo)),
                         "safety")
                f = {}
                for name, q in val.fields.items():
                    r = v.fields[name]
                    f[name] = SymSeq(val.length, (
                        lambda i, q=q, r=r: ite(
                            z3.And(to_int(lo) <= to_int(i),
                                   to_int(i) < to_int(hi)),
                            r.get(_plus(i, _neg(lo))), q.get(i))), q.elem)
                base.write(SymStruct(val.length, f))
                return
            raise Unsupported("slice store of non-struct into struct")
        if isinstance(v, SymRow):
            i = norm_index(I, key, val.length)
            f = {}
            for name, q in val.fields.items():
                if name not in v.fields:
                    raise Unsupported("row store with missing field")
                x = v.fields[name]
                f[name] = SymSeq(val.length, (
                    lambda j, q=q, x=x: ite(to_int(j) == to_int(i),
                                            _coerce_like(x, q.get(0)),
                                            q.get(j))), q.elem)
            base.write(SymStruct(val.length, f))
            return
        raise Unsupported(f"struct store of {v!r}")
    if isinstance(val, SymSeq):
        if isinstance(key, slice):
            lo, hi = slice_bounds(I, key, val.length)
            if isinstance(v, SymSeq):
                I.oblige(f"assign_len@{I.cur_line}",
                         to_int(v.length) == to_int(_minus_nonneg(hi, lo)),
                         "safety")
                base.write(SymSeq(val.length, lambda i: ite(
                    z3.And(to_int(lo) <= to_int(i), to_int(i) < to_int(hi)),
                    v.get(_plus(i, _neg(lo))), val.get(i)), val.elem))
                return
            cv = _coerce_elem(v, val.elem)
            base.write(SymSeq(val.length, lambda i: ite(
                z3.And(to_int(lo) <= to_int(i), to_int(i) < to_int(hi)),
                cv, val.get(i)), val.elem))
            return
        if isinstance(key, SymSeq):
            raise Unsupported("fancy-index store")
        i = norm_index(I, key, val.length)
        if base.kind == "list" and isinstance(v, SymRow):
            base.write(SymSeq(val.length, lambda j: ite(
                to_int(j) == to_int(i), v, val.get(j)), val.elem))
            return
        cv = _coerce_elem(v, val.elem)
        base.write(SymSeq(val.length, lambda j: ite(
            to_int(j) == to_int(i), cv, val.get(j)), val.elem))
        return
    raise Unsupported(f"store into {base!r}")


def _neg(x):
    return -x if isinstance(x, int) else -to_int(x)


def _coerce_elem(v, elem):
    if elem == "Real":
        return to_real(v)
    if elem == "Int":
        x = to_z3(v)
        if z3.is_real(x):
            return z3.ToInt(x)
        return to_int(x)
    if elem == "Bool":
        return bz(v) if not isinstance(v, bool) else z3.BoolVal(v)
    return v


def _coerce_like(v, like):
    if is_z3(like):
        if z3.is_real(like):
            return to_real(v)
        if z3.is_int(like):
            x = to_z3(v)
            return z3.ToInt(x) if z3.is_real(x) else to_int(x)
    return v


# ------------------------------------------------------------- iteration
def concrete_iter(I, it, must=False):
    it0 = it
    if isinstance(it, (list, tuple)):
        return list(it)
    if isinstance(it, (set, frozenset)):
        return sorted(it)
    if isinstance(it, dict):
        return list(it.keys())
    if isinstance(it, range):
        return list(it)
    if isinstance(it, ConcreteIter):
        return it.items
    if isinstance(it, Cell) and it.kind in ("list", "arr"):
        v = it.read()
        if isinstance(v, SymSeq) and isinstance(v.length, int):
            return [v.get(i) for i in range(v.length)]
    if must:
        raise Unsupported(f"cannot enumerate {it0!r}")
    return None


class ConcreteIter:
    def __init__(self, items):
        self.items = list(items)


def as_seq(I, it):
    if isinstance(it, OptVal):
        I.oblige(f"iter_not_None@{I.cur_line}", it.present, "safety")
    v = _val(it)
    if isinstance(v, SymSeq):
        return v
    if isinstance(v, SymStruct):
        return SymSeq(v.length, lambda i: Cell("row", v.row(i)), "Row")
    if isinstance(v, SymRange):
        return SymSeq(v.count(), lambda i: v.at(i), "Int")
    if isinstance(v, ZipSeq):
        return v.seq()
    raise Unsupported(f"iteration over {it!r}")


class SymRange:
    def __init__(self, lo, hi, step=1):
        self.lo, self.hi, self.step = lo, hi, step

    def count(self):
        if not isinstance(self.step, int) or self.step == 0:
            raise Unsupported("symbolic range step")
        lo, hi = to_int(self.lo), to_int(self.hi)
        if self.step == 1:
            d = hi - lo
            return z3.If(d < 0, 0, d)
        if self.step > 0:
            d = hi - lo
            return z3.If(d <= 0, 0, (d + self.step - 1) / self.step)
        d = lo - hi
        s = -self.step
        return z3.If(d <= 0, 0, (d + s - 1) / s)

    def at(self, i):
        return to_int(self.lo) + to_int(i) * self.step


class ZipSeq:
    def __init__(self, seqs, enumerate_=False):
        self.seqs = seqs

    def seq(self):
        n = self.seqs[0].length
        for s in self.seqs[1:]:
            n = z3.If(to_int(s.length) < to_int(n), to_int(s.length),
                      to_int(n))
        return SymSeq(n, lambda i: tuple(s.get(i) for s in self.seqs),
                      "Tuple")


def unpack(I, value, n):
    if isinstance(value, GenResult):
        value = value.value
    if isinstance(value, (tuple, list)):
        if len(value) != n:
            I.fail(f"unpack_len@{I.cur_line}")
        return list(value)
    raise Unsupported(f"unpack of {value!r}")


def comprehension(I, node, env):
    if len(node.generators) != 1:
        raise Unsupported("nested comprehension")
    g = node.generators[0]
    it = I.eval(g.iter, env)
    conc = concrete_iter(I, it)
    if conc is None:
        seq = as_seq(I, it)
        if g.ifs:
            raise Unsupported("filtered comprehension over a symbolic seq")

        def get(i):
            env2 = dict(env)
            I.assign(g.target, seq.get(i), env2)
            return I.eval(node.elt, env2)
        return Cell("list", SymSeq(seq.length, get, "Any"))
    out = []
    for item in conc:
        env2 = dict(env)
        I.assign(g.target, item, env2)
        ok = True
        for cond in g.ifs:
            if not I.decide(I.eval(cond, env2)):
                ok = False
                break
        if ok:
            out.append(I.eval(node.elt, env2))
    return out


def dict_comprehension(I, node, env):
    if len(node.generators) != 1:
        raise Unsupported("nested comprehension")
    g = node.generators[0]
    conc = concrete_iter(I, I.eval(g.iter, env), must=True)
    out = {}
    for item in conc:
        env2 = dict(env)
        I.assign(g.target, item, env2)
        ok = True
        for cond in g.ifs:
            if not I.decide(I.eval(cond, env2)):
                ok = False
                break
        if ok:
            out[I.eval(node.key, env2)] = I.eval(node.value, env2)
    return out


def list_extend(I, cell, other):
    o = _val(other)
    val = cell.read()
    if isinstance(o, list):
        for x in o:
            list_append(I, cell, x)
        return
    raise Unsupported("list += symbolic")


def list_append(I, cell, x):
    val = cell.read()
    n = val.length
    xv = _val(x) if isinstance(x, Cell) and x.kind == "row" else x
    cell.write(SymSeq(_plus(n, 1), lambda i: ite(
        to_int(i) == to_int(n), xv, val.get(i)), val.elem))


# ------------------------------------------------------- context managers
def ctx_enter(I, v):
    if isinstance(v, FileHandle):
        return v
    return v


def ctx_exit(I, v):
    if isinstance(v, FileHandle):
        v.close(I)


class FileHandle:
    def __init__(self, path, mode):
        self.path, self.mode = path, mode

    def close(self, I):
        fs = I.V.fs_model
        if fs is not None:
            fs.close(I, self)


# ----------------------------------------------------------------- names
FMOD = z3.Function("FMOD", z3.RealSort(), z3.RealSort(), z3.RealSort())


def uf(name, ret, *args):
    f = z3.Function(name, *[a.sort() for a in args], ret)
    return f(*args)


class BuiltinType:
    def __init__(self, name):
        self.name = name


BUILTIN_EXC = {"ValueError", "RuntimeError", "TypeError", "KeyError",
               "IndexError", "AttributeError", "NotImplementedError",
               "Exception", "OSError", "FileNotFoundError", "StopIteration",
               "SystemExit", "AssertionError", "ZeroDivisionError",
               "FileExistsError", "EOFError", "ImportError", "UserWarning",
               "FutureWarning", "RuntimeWarning", "DeprecationWarning"}


def global_name(I, n):
    src = I.src_stack[-1]
    key = f"{src.relpath}:{n}"
    if key in I.V.module_globals:
        return I.V.module_globals[key](I)
    # module-level definitions of the current file
    for node in src.tree.body:
        if isinstance(node, ast.FunctionDef) and node.name == n:
            return E.PkgFunc(src.relpath, n)
        if isinstance(node, ast.ClassDef) and node.name == n:
            return E.ClassRef(n)
        if isinstance(node, ast.Assign):
            for t in node.targets:
                if isinstance(t, ast.Name) and t.id == n:
                    if isinstance(node.value, ast.Constant):
                        return node.value.value
                    return module_global(I, src, n, node)
    if n in src.imports:
        return resolve_dotted(I, src.imports[n])
    if I.spec and ("spec." + n) in LIB:
        return LIB["spec." + n]
    if ("builtins." + n) in LIB:
        return LIB["builtins." + n]
    if n in BUILTIN_EXC:
        return BuiltinType(n)
    if n in ("int", "float", "str", "bool", "list", "tuple", "dict", "set",
             "object", "type", "bytes"):
        return LIB.get("builtins." + n) or BuiltinType(n)
    raise Unsupported(f"unknown name {n!r} (line {I.cur_line})")


def module_global(I, src, n, node):
    key = f"{src.relpath}:{n}"
    if key in I.V.module_globals:
        return I.V.module_globals[key](I)
    raise Unsupported(f"module global {key} has no model")


def resolve_dotted(I, dotted, depth=0):
    if dotted in LIB:
        return LIB[dotted]
    if dotted in CONSTS:
        return CONSTS[dotted]
    if dotted.startswith("nessai"):
        r = resolve_pkg(dotted, depth)
        if r is not None:
            return r
    return E.ModuleRef(dotted)


def _mod_file(mod):
    import os
    p = mod.replace(".", "/")
    for cand in (p + ".py", p + "/__init__.py"):
        if os.path.exists(os.path.join(REPO, cand)):
            return cand
    return None


def resolve_pkg(dotted, depth=0):
    if depth > 6:
        return None
    f = _mod_file(dotted)
    if f is not None:
        return E.ModuleRef(dotted)
    mod, _, name = dotted.rpartition(".")
    f = _mod_file(mod)
    if f is None:
        return None
    src = Source.get(f)
    for node in src.tree.body:
        if isinstance(node, ast.FunctionDef) and node.name == name:
            return E.PkgFunc(f, name)
        if isinstance(node, ast.ClassDef) and node.name == name:
            return E.ClassRef(name)
        if isinstance(node, ast.Assign):
            for t in node.targets:
                if isinstance(t, ast.Name) and t.id == name:
                    tbl = _const_func_table(src, f, node.value)
                    if tbl is not None:
                        return tbl
                    return PkgGlobal(f, name)
    if name in src.imports and src.imports[name] != dotted:
        tgt = src.imports[name]
        if tgt.startswith("nessai"):
            return resolve_pkg(tgt, depth + 1)
        return LIB.get(tgt) or E.ModuleRef(tgt)
    return None


def _const_func_table(src, f, value):
    """a module-level registry `{"name": (func, func), ...}` (constant
    string keys, values: functions of the same module or tuples of them) as
    a python dict of PkgFunc values; None for anything else"""
    if not isinstance(value, ast.Dict):
        return None
    funcs = {n.name for n in src.tree.body if isinstance(n, ast.FunctionDef)}

    def one(v):
        if isinstance(v, ast.Name) and v.id in funcs:
            return E.PkgFunc(f, v.id)
        if isinstance(v, ast.Tuple):
            xs = [one(e) for e in v.elts]
            return None if any(x is None for x in xs) else tuple(xs)
        return None
    out = {}
    for k, v in zip(value.keys, value.values):
        if not (isinstance(k, ast.Constant) and isinstance(k.value, str)):
            return None
        x = one(v)
        if x is None:
            return None
        out[k.value] = x
    return out


class PkgGlobal:
    def __init__(self, file, name):
        self.file, self.name = file, name

    def __repr__(self):
        return f"<PkgGlobal {self.file}:{self.name}>"


CONSTS = {"numpy.inf": float("inf"), "numpy.nan": float("nan"),
          "numpy.pi": z3.Real("PI"), "numpy.e": z3.Real("EULER"),
          "math.inf": float("inf"), "math.pi": z3.Real("PI"),
          "numpy.newaxis": None,
          # signal numbers: distinct named constants
          "signal.SIGTERM": "SIGTERM", "signal.SIGINT": "SIGINT",
          "signal.SIGALRM": "SIGALRM", "signal.SIGHUP": "SIGHUP",
          "signal.SIGUSR1": "SIGUSR1", "signal.SIGUSR2": "SIGUSR2"}


def class_attr(I, cname, attr):
    ci = ClassIndex.get()
    node = ci.classes[cname]["node"]
    for st in node.body:
        if isinstance(st, ast.Assign):
            for t in st.targets:
                if isinstance(t, ast.Name) and t.id == attr:
                    if isinstance(st.value, ast.Constant):
                        return st.value.value
        if isinstance(st, ast.AnnAssign) and isinstance(st.target, ast.Name) \
                and st.target.id == attr and st.value is not None:
            if isinstance(st.value, ast.Constant):
                return st.value.value
    for st in node.body:
        if isinstance(st, ast.Assign) and any(
                isinstance(t, ast.Name) and t.id == attr for t in st.targets):
            v = st.value
            try:
                return ast.literal_eval(v)
            except Exception:
                pass
            if isinstance(v, ast.Call) and isinstance(v.func, ast.Name) \
                    and v.func.id == "dict" and not v.args:
                try:
                    return {k.arg: ast.literal_eval(k.value)
                            for k in v.keywords}
                except Exception:
                    pass
    raise Unsupported(f"class attribute {cname}.{attr} is not a constant")


def getattr(I, base, attr):
    if isinstance(base, E.ModuleRef):
        dotted = f"{base.name}.{attr}"
        return resolve_dotted(I, dotted)
    if isinstance(base, E.SuperRef):
        return E.SuperMethod(base.obj, attr, base.after)
    if isinstance(base, OptVal):
        I.oblige(f"not_None@{I.cur_line}", base.present, "safety")
        return I.getattr(base.value, attr)
    if isinstance(base, PkgGlobal):
        key = f"{base.file}:{base.name}"
        if key in I.V.module_globals:
            return I.getattr(I.V.module_globals[key](I), attr)
        return Opaque(f"{base.name}.{attr}")
    m = METHODS.get((_kind(base), attr))
    if m is not None:
        return m(I, base)
    # a record standing for an object whose attributes are its fields
    rv = base.read() if isinstance(base, Cell) and base.kind == "row" \
        else base
    if isinstance(rv, SymRow) and attr in rv.fields:
        return rv.fields[attr]
    if base is None:
        I.fail(f"None_has_no_{attr}@{I.cur_line}")
    raise Unsupported(f"attribute .{attr} of {base!r} (line {I.cur_line})")


def _kind(v):
    if isinstance(v, PoolVal):
        return "pool"
    if type(v).__name__ == "PicklerVal":
        return "PicklerVal"
    if isinstance(v, Cell):
        if v.kind == "arr":
            return "struct" if isinstance(v.value, SymStruct) else "seq"
        return v.kind
    if isinstance(v, SymSeq):
        return "seq"
    if isinstance(v, SymStruct):
        return "struct"
    if isinstance(v, list):
        return "pylist"
    if isinstance(v, dict):
        return "pydict"
    if isinstance(v, str):
        return "pystr"
    if isinstance(v, tuple):
        return "pytuple"
    if is_z3(v) or isinstance(v, (int, float)):
        return "scalar"
    if isinstance(v, Opaque):
        return "opaque"
    if isinstance(v, set):
        return "pyset"
    return type(v).__name__


METHODS = {}


def method(kind, name, prop=False):
    def deco(fn):
        if prop:
            METHODS[(kind, name)] = lambda I, b: fn(I, b)
        else:
            METHODS[(kind, name)] = lambda I, b: E.LibFunc(
                f"{kind}.{name}", lambda I2, *a, **k: fn(I2, b, *a, **k))
        return fn
    return deco


for _k in ("seq", "struct"):
    @method(_k, "copy")
    def _arr_copy(I, b):
        return Cell("arr", _val(b))

    @method(_k, "size", prop=True)
    def _arr_size(I, b):
        return _val(b).length

    @method(_k, "shape", prop=True)
    def _arr_shape(I, b):
        v = _val(b)
        if is_tbl(v):
            return tbl_shape(I, v)
        return (v.length,)


@method("row", "copy")
def _row_copy(I, b):
    return Cell("row", SymRow(b.read().fields))


@method("scalar", "copy")
def _scalar_copy(I, b):
    return b


@method("scalar", "item")
def _scalar_item(I, b):
    return b


@method("list", "append")
def _list_append(I, b, x):
    list_append(I, b, x)


@method("list", "copy")
def _list_copy(I, b):
    return Cell("list", b.read())


@method("list", "pop")
def _list_pop(I, b, idx=-1):
    val = b.read()
    if idx != -1:
        raise Unsupported("list.pop(i)")
    n = val.length
    I.oblige(f"pop_nonempty@{I.cur_line}", to_int(n) > 0, "safety")
    last = val.get(to_int(n) - 1)
    b.write(SymSeq(to_int(n) - 1, val.get, val.elem))
    return last


@method("pylist", "append")
def _pylist_append(I, b, x):
    b.append(x)


@method("pylist", "copy")
def _pylist_copy(I, b):
    return list(b)


@method("pylist", "extend")
def _pylist_extend(I, b, x):
    b.extend(concrete_iter(I, x, must=True))


@method("pylist", "index")
def _pylist_index(I, b, x):
    if x not in b:
        I.fail(f"list_index@{I.cur_line}")
    return b.index(x)


@method("pydict", "get")
def _pydict_get(I, b, k, d=None):
    return b.get(k, d)


@method("pydict", "keys")
def _pydict_keys(I, b):
    return list(b.keys())


@method("pydict", "values")
def _pydict_values(I, b):
    return list(b.values())


@method("pydict", "items")
def _pydict_items(I, b):
    return list(b.items())


@method("pydict", "copy")
def _pydict_copy(I, b):
    return dict(b)


@method("pydict", "update")
def _pydict_update(I, b, other=None, **kw):
    if other is not None:
        b.update(other)
    b.update(kw)


@method("pydict", "pop")
def _pydict_pop(I, b, k, *d):
    if k in b:
        return b.pop(k)
    if d:
        return d[0]
    I.fail(f"dict_pop_{k}@{I.cur_line}")


@method("pystr", "lower")
def _str_lower(I, b):
    return b.lower()


@method("pystr", "format")
def _str_format(I, b, *a, **k):
    return Opaque("str.format")


@method("pystr", "join")
def _str_join(I, b, items):
    items = concrete_iter(I, items, must=True)
    if all(isinstance(x, str) for x in items):
        return b.join(items)
    return Opaque("str.join")


@method("pystr", "startswith")
def _str_startswith(I, b, p):
    return b.startswith(p)


@method("pystr", "endswith")
def _str_endswith(I, b, p):
    return b.endswith(p)


@method("pystr", "split")
def _str_split(I, b, *a):
    return b.split(*a)


# --------------------------------------------------------------- builtins
@lib("builtins.len")
def _len(I, x):
    if isinstance(x, OptVal):
        I.oblige(f"not_None@{I.cur_line}", x.present, "safety")
        return _len(I, x.value)
    x = _val(x)
    if isinstance(x, (SymSeq, SymStruct)):
        return x.length
    if isinstance(x, (list, tuple, dict, str, set)):
        return len(x)
    if isinstance(x, SymRange):
        return x.count()
    raise Unsupported(f"len of {x!r}")


@lib("builtins.range")
def _range(I, *a):
    if all(isinstance(x, int) for x in a):
        return range(*a)
    if len(a) == 1:
        return SymRange(0, a[0])
    if len(a) == 2:
        return SymRange(a[0], a[1])
    return SymRange(a[0], a[1], a[2])


@lib("builtins.int")
def _int(I, x=0):
    if isinstance(x, (int, float, str)):
        return int(x)
    x = to_z3(_val(x))
    if z3.is_real(x):
        # truncation toward zero
        return z3.If(x >= 0, z3.ToInt(x), -z3.ToInt(-x))
    return to_int(x)


@lib("builtins.float")
def _float(I, x=0.0):
    if isinstance(x, (int, float)):
        return float(x)
    if isinstance(x, str):
        return float(x)
    return to_real(_val(x))


@lib("builtins.bool")
def _bool(I, x=False):
    return I.truth(x)


@lib("builtins.str")
def _str(I, x=""):
    if isinstance(x, (str, int)):
        return str(x)
    return Opaque("str()")


@lib("builtins.abs", "numpy.abs", "numpy.absolute", "numpy.fabs")
def _abs(I, x):
    x = _val(x)
    if isinstance(x, SymSeq):
        return Cell("arr", SymSeq(x.length, lambda i: _abs(I, x.get(i)),
                                  x.elem))
    if isinstance(x, (int, float)):
        return abs(x)
    x = to_z3(x)
    return z3.If(x >= 0, x, -x)


def _minmax(I, args, kw, is_max):
    if len(args) == 1:
        items = concrete_iter(I, args[0])
        if items is None:
            s = as_seq(I, args[0])
            return seq_extreme(I, s, is_max)
    else:
        items = list(args)
    # min / max with None raises TypeError: an optional operand must be set
    for j, x in enumerate(items):
        if isinstance(x, OptVal):
            I.oblige(f"minmax_not_None@{I.cur_line}", x.present, "safety")
            items[j] = x.value
    if not items:
        I.fail(f"empty_minmax@{I.cur_line}")
    if all(isinstance(x, (int, float)) for x in items):
        return max(items) if is_max else min(items)
    out = items[0]
    for x in items[1:]:
        a, b = unify(out, x)
        out = z3.If(b > a, b, a) if is_max else z3.If(b < a, b, a)
    return out


@lib("builtins.max")
def _max(I, *a, **k):
    return _minmax(I, a, k, True)


@lib("builtins.min")
def _min(I, *a, **k):
    return _minmax(I, a, k, False)


def seq_extreme(I, s, is_max, name=None):
    """max/min of a non-empty sequence: fresh m, bound of all, attained."""
    I.oblige(f"nonempty_extreme@{I.cur_line}", to_int(s.length) > 0,
             "safety")
    srt = z3.RealSort() if s.elem == "Real" else z3.IntSort()
    m = I.fresh_const(name or ("max" if is_max else "min"), srt)
    w = I.fresh_const("argext", z3.IntSort())
    I.assume(z3.And(0 <= w, w < to_int(s.length), s.get(w) == m))
    I.assume(forall_idx(I, s.length, lambda k: (s.get(k) <= m) if is_max
                        else (s.get(k) >= m)))
    if I.V.log_domain and s.elem == "Real":
        # the same order facts on exponential images (exp is monotone)
        I.assume(forall_idx(I, s.length, lambda k: (
            EXPI(I, s.get(k)) <= EXPI(I, m)) if is_max
            else (EXPI(I, s.get(k)) >= EXPI(I, m))))
    return m


@lib("builtins.next")
def _next(I, g, *default):
    if isinstance(g, GenResult):
        return g.value
    raise Unsupported("next() of a non-generator")


@lib("builtins.isinstance")
def _isinstance(I, x, t):
    ts = t if isinstance(t, tuple) else (t,)
    names = set()
    for q in ts:
        if isinstance(q, BuiltinType):
            names.add(q.name)
        elif isinstance(q, E.LibFunc):
            names.add(q.name.split(".")[-1])
        elif isinstance(q, E.ClassRef):
            names.add(q.name)
        elif isinstance(q, E.ModuleRef) and q.name in (
                "numpy.ndarray", "torch.Tensor"):
            names.add(q.name.split(".")[-1])
        else:
            raise Unsupported(f"isinstance with {q!r}")
    x0 = x
    x = x if not isinstance(x, Cell) else x
    if isinstance(x, Obj):
        ci = ClassIndex.get()
        return any(n in ci.mro(x.cls) or n == x.cls for n in names)
    if isinstance(x, bool):
        return bool(names & {"bool", "int"})
    if isinstance(x, int):
        return "int" in names or "integer" in names
    if isinstance(x, float):
        return "float" in names or "floating" in names
    if isinstance(x, str):
        return "str" in names
    if isinstance(x, list):
        return "list" in names
    if isinstance(x, tuple):
        return "tuple" in names
    if isinstance(x, dict):
        return "dict" in names
    if x is None:
        return False
    if isinstance(x, Cell) and x.kind == "arr":
        return "ndarray" in names
    if isinstance(x, SymSeq) and names <= {"ndarray", "Tensor"}:
        # an abstract array: may be either a numpy array or a tensor;
        # both cases are explored
        return I.fresh_const("is_" + "_".join(sorted(names)), z3.BoolSort())
    if isinstance(x, Cell) and x.kind == "list":
        return "list" in names
    if is_z3(x):
        if z3.is_int(x):
            return "int" in names or "integer" in names
        if z3.is_real(x):
            return "float" in names or "floating" in names
        if z3.is_bool(x):
            return "bool" in names
    if isinstance(x, TypedVal):
        return x.isinstance(names)
    if isinstance(x, StrVal):
        return "str" in names
    if isinstance(x, (FuncVal, PoolVal, Opaque)):
        return False
    raise Unsupported(f"isinstance({x0!r}, {names})")


class TypedVal:
    """value with an abstract 'kind' tag (used by C19 dispatch proofs)."""

    def __init__(self, kinds, payload=None):
        self.kinds = set(kinds)
        self.payload = payload

    def isinstance(self, names):
        return bool(self.kinds & names)


@lib("builtins.hasattr")
def _hasattr(I, x, name):
    if isinstance(x, Obj):
        if name in x.attrs:
            return True
        ci = ClassIndex.get()
        d, fn, kind = ci.find_method(x.cls, name)
        return fn is not None
    raise Unsupported("hasattr on non-object")


@lib("builtins.getattr")
def _getattr(I, x, name, *default):
    try:
        return I.getattr(x, name)
    except Unsupported:
        if default:
            return default[0]
        raise


@lib("builtins.enumerate")
def _enumerate(I, x, start=0):
    items = concrete_iter(I, x)
    if items is not None:
        return ConcreteIter([(i + start, v) for i, v in enumerate(items)])
    s = as_seq(I, x)
    return Cell("list", SymSeq(s.length,
                               lambda i: (_plus(i, start), s.get(i)),
                               "Tuple"))


@lib("builtins.zip")
def _zip(I, *xs, **kw):
    items = [concrete_iter(I, x) for x in xs]
    if all(i is not None for i in items):
        return ConcreteIter(list(zip(*items)))
    return ZipSeq([as_seq(I, x) for x in xs])


@lib("builtins.list")
def _list(I, x=()):
    items = concrete_iter(I, x)
    if items is not None:
        return list(items)
    return Cell("list", as_seq(I, x))


@lib("builtins.tuple")
def _tuple(I, x=()):
    return tuple(concrete_iter(I, x, must=True))


@lib("builtins.dict")
def _dict(I, x=None, **kw):
    d = {}
    if x is not None:
        if isinstance(x, dict):
            d.update(x)
        else:
            for k, v in concrete_iter(I, x, must=True):
                d[k] = v
    d.update(kw)
    return d


@lib("builtins.set")
def _set(I, x=()):
    return set(concrete_iter(I, x, must=True))


@lib("builtins.sorted")
def _sorted(I, x, **kw):
    items = concrete_iter(I, x, must=True)
    return sorted(items, **{k: v for k, v in kw.items() if k == "reverse"})


@lib("builtins.reversed")
def _reversed(I, x):
    return list(reversed(concrete_iter(I, x, must=True)))


@lib("builtins.any")
def _any(I, x):
    items = concrete_iter(I, x)
    if items is not None:
        ts = [I.truth(v) for v in items]
        if all(isinstance(t, bool) for t in ts):
            return any(ts)
        return z3.Or(*[bz(t) for t in ts])
    s = as_seq(I, x)
    k = z3.Int(I.namer.fresh("q_any"))
    return z3.Exists([k], z3.And(0 <= k, k < to_int(s.length),
                                 bz(I.truth(s.get(k)))))


@lib("builtins.all")
def _all(I, x):
    items = concrete_iter(I, x)
    if items is not None:
        ts = [I.truth(v) for v in items]
        if all(isinstance(t, bool) for t in ts):
            return all(ts)
        return z3.And(*[bz(t) for t in ts])
    s = as_seq(I, x)
    return forall_idx(I, s.length, lambda k: I.truth(s.get(k)))


@lib("numpy.any")
def _np_any(I, x, **kw):
    return _any(I, x)


@lib("numpy.all")
def _np_all(I, x, **kw):
    return _all(I, x)


@lib("builtins.print")
def _print(I, *a, **k):
    return None


@lib("builtins.type")
def _type(I, x):
    return Opaque("type")


@lib("copy.copy", "copy.deepcopy")
def _copy(I, x):
    if x is None or isinstance(x, (int, float, str, bool, tuple)) \
            or is_z3(x):
        return x
    if isinstance(x, Cell):
        v = x.read()
        if isinstance(v, SymRow):
            return Cell("row", SymRow(v.fields))
        return Cell(x.kind, v)
    if isinstance(x, list):
        return list(x)
    if isinstance(x, dict):
        return dict(x)
    if isinstance(x, OptVal):
        return x
    raise Unsupported(f"copy of {x!r}")


# ------------------------------------------------------------------ numpy
def sorted_seq(I, s, strict=False):
    i = z3.Int(I.namer.fresh("q_i"))
    j = z3.Int(I.namer.fresh("q_j"))
    n = to_int(s.length)
    if strict:
        return z3.ForAll([i, j], z3.Implies(
            z3.And(0 <= i, i < j, j < n), s.get(i) < s.get(j)))
    return z3.ForAll([i, j], z3.Implies(
        z3.And(0 <= i, i <= j, j < n), s.get(i) <= s.get(j)))


@lib("numpy.searchsorted")
def _searchsorted(I, a, v, side="left", sorter=None):
    a = _val(a)
    v = _val(v)
    if not isinstance(a, SymSeq):
        raise Unsupported("searchsorted on non-seq")
    if sorter is not None:
        raise Unsupported("searchsorted sorter")
    I.oblige(f"searchsorted_sorted@{I.cur_line}", sorted_seq(I, a),
             "lib_requires")
    n = to_int(a.length)
    if isinstance(v, SymSeq):
        f = z3.Function(I.namer.fresh("ss"), z3.IntSort(), z3.IntSort())
        k = z3.Int(I.namer.fresh("q_k"))
        i = z3.Int(I.namer.fresh("q_i"))
        rng = z3.And(0 <= k, k < to_int(v.length))
        I.assume(z3.ForAll([k], z3.Implies(rng, z3.And(0 <= f(k),
                                                       f(k) <= n))))
        if side == "left":
            I.assume(z3.ForAll([k, i], z3.Implies(
                z3.And(rng, 0 <= i, i < n),
                (i < f(k)) == (a.get(i) < v.get(k)))))
        else:
            I.assume(z3.ForAll([k, i], z3.Implies(
                z3.And(rng, 0 <= i, i < n),
                (i < f(k)) == (a.get(i) <= v.get(k)))))
        # monotone in the needle (a consequence of the two facts above for
        # a sorted haystack; stated to spare the solver the instantiation)
        k2 = z3.Int(I.namer.fresh("q_k2"))
        I.assume(z3.ForAll([k, k2], z3.Implies(
            z3.And(rng, 0 <= k2, k2 < to_int(v.length),
                   v.get(k) <= v.get(k2)), f(k) <= f(k2))))
        return Cell("arr", SymSeq(v.length, lambda q: f(to_int(q)), "Int"))
    r = I.fresh_const("ss", z3.IntSort())
    I.assume(z3.And(0 <= r, r <= n))
    x = to_z3(v)
    i = z3.Int(I.namer.fresh("q_i"))
    if side == "left":
        I.assume(z3.ForAll([i], z3.Implies(
            z3.And(0 <= i, i < n), (i < r) == (a.get(i) < x))))
    else:
        I.assume(z3.ForAll([i], z3.Implies(
            z3.And(0 <= i, i < n), (i < r) == (a.get(i) <= x))))
    return r


@lib("numpy.isnan")
def _isnan(I, x):
    x = _val(x)
    if isinstance(x, SymSeq):
        return Cell("arr", SymSeq(x.length, lambda i: x.get(i) == NANV,
                                  "Bool"))
    if isinstance(x, float):
        return x != x
    return to_real(x) == NANV


@lib("numpy.isfinite")
def _isfinite(I, x):
    x = _val(x)
    if isinstance(x, SymSeq):
        return Cell("arr", SymSeq(x.length, lambda i: _isfinite(I, x.get(i)),
                                  "Bool"))
    if isinstance(x, (int, float)):
        import math
        return math.isfinite(x)
    x = to_real(x)
    return z3.And(x > -INF, x < INF, x != NANV)


@lib("numpy.isposinf")
def _isposinf(I, x):
    v = _val(x)
    if isinstance(v, SymSeq):
        if str(v.elem).startswith("Sort("):
            return _abstract_flags(I, v, "isposinf_pt")
        return Cell("arr", SymSeq(v.length,
                                  lambda i: to_real(v.get(i)) == INF, "Bool"))
    return to_real(v) == INF


@lib("numpy.isneginf")
def _isneginf(I, x):
    return to_real(_val(x)) == -INF


@lib("numpy.isinf")
def _isinf(I, x):
    x = to_real(_val(x))
    return z3.Or(x == INF, x == -INF)


@lib("numpy.arange")
def _arange(I, *a, **kw):
    if len(a) == 1:
        lo, hi, step = 0, a[0], 1
    elif len(a) == 2:
        lo, hi, step = a[0], a[1], 1
    else:
        lo, hi, step = a
    r = SymRange(lo, hi, step)
    elem = "Real" if kw.get("dtype") is not None and _is_float_dtype(
        kw["dtype"]) else "Int"
    if elem == "Real":
        return Cell("arr", SymSeq(r.count(), lambda i: to_real(r.at(i)),
                                  "Real"))
    return Cell("arr", SymSeq(r.count(), lambda i: r.at(i), "Int"))


def _is_float_dtype(d):
    if isinstance(d, E.LibFunc):
        return d.name in ("builtins.float", "numpy.float64")
    if isinstance(d, str):
        return d.startswith("f") or d.startswith("float")
    return False


@lib("numpy.argmax")
def _argmax(I, x, **kw):
    x = _val(x)
    if not isinstance(x, SymSeq):
        raise Unsupported("argmax of non-seq")
    I.oblige(f"argmax_nonempty@{I.cur_line}", to_int(x.length) > 0,
             "lib_requires")
    if x.elem != "Bool":
        raise Unsupported("argmax of a non-boolean array")
    r = I.fresh_const("argmax", z3.IntSort())
    n = to_int(x.length)
    i = z3.Int(I.namer.fresh("q_i"))
    I.assume(z3.And(0 <= r, r < n))
    # first True, or 0 if none
    I.assume(z3.ForAll([i], z3.Implies(z3.And(0 <= i, i < r),
                                       z3.Not(x.get(i)))))
    I.assume(z3.Or(x.get(r), z3.And(r == 0, z3.ForAll(
        [i], z3.Implies(z3.And(0 <= i, i < n), z3.Not(x.get(i)))))))
    return r


@lib("numpy.sort")
def _np_sort(I, a, order=None, **kw):
    a = _val(a)
    if isinstance(a, SymStruct):
        if not isinstance(order, str):
            raise Unsupported("np.sort on struct without order")
        n = to_int(a.length)
        perm = z3.Function(I.namer.fresh("sortperm"), z3.IntSort(),
                           z3.IntSort())
        inv = z3.Function(I.namer.fresh("sortinv"), z3.IntSort(),
                          z3.IntSort())
        i = z3.Int(I.namer.fresh("q_i"))
        I.assume(z3.ForAll([i], z3.Implies(z3.And(0 <= i, i < n), z3.And(
            0 <= perm(i), perm(i) < n, inv(perm(i)) == i))))
        I.assume(z3.ForAll([i], z3.Implies(z3.And(0 <= i, i < n), z3.And(
            0 <= inv(i), inv(i) < n, perm(inv(i)) == i))))
        out = SymStruct(a.length, {
            f: SymSeq(a.length, (lambda k, q=q: q.get(perm(to_int(k)))),
                      q.elem) for f, q in a.fields.items()})
        I.assume(sorted_seq(I, out.fields[order]))
        I.ghost[("sortperm", id(out))] = perm
        return Cell("arr", out)
    raise Unsupported("np.sort of a plain array")


@method("struct", "sort")
def _struct_sort(I, b, order=None, **kw):
    """ndarray.sort(order=f) in place: the rows are permuted into an order
    sorted by f (which permutation, among rows that tie, is unspecified)"""
    if not isinstance(b, Cell) or b.view_of is not None:
        raise Unsupported("in-place sort of a view")
    out = _np_sort(I, b, order=order)
    b.write(out.read())
    return None


@lib("numpy.logaddexp")
def _logaddexp(I, a, b):
    a, b = to_real(_val(a)), to_real(_val(b))
    return uf("LOGADDEXP", z3.RealSort(), a, b)


for _nm in ("log", "exp", "log1p", "sqrt", "cos", "sin", "tan", "arctan2",
            "expm1", "log2", "log10", "arccos", "arcsin", "floor", "ceil"):
    def _mk(nm):
        @lib(f"numpy.{nm}", f"math.{nm}")
        def _f(I, *args, **kw):
            xs = [_val(a) for a in args]
            if any(isinstance(x, SymSeq) for x in xs):
                n = next(x.length for x in xs if isinstance(x, SymSeq))
                return Cell("arr", SymSeq(n, lambda i: uf(
                    nm.upper(), z3.RealSort(),
                    *[to_real(x.get(i) if isinstance(x, SymSeq) else x)
                      for x in xs]), "Real"))
            return uf(nm.upper(), z3.RealSort(), *[to_real(x) for x in xs])
        return _f
    _mk(_nm)


# re-exported hooks used by the engine ---------------------------------
def construct(I, cref, args, kwargs):
    key = cref.name
    if I._opaque_callee(key):
        # construction of an object the contract does not look into
        I.stats.lib_used.add(f"opaque-callee:{key}")
        return Opaque(f"{key}(...)")
    if key in CONSTRUCTORS:
        return CONSTRUCTORS[key](I, *args, **kwargs)
    raise Unsupported(f"construction of {cref.name}")


CONSTRUCTORS = {}


# ------------------------------------------------------- spec-only helpers
@lib("spec.sorted_by")
def _spec_sorted_by(I, arr, field):
    a = _val(arr)
    if isinstance(a, SymStruct):
        return sorted_seq(I, a.fields[field])
    if isinstance(a, SymSeq):      # list of rows
        return sorted_seq(I, SymSeq(a.length,
                                    lambda i: a.get(i).fields[field], "Real"))
    raise SpecError("sorted_by on non-array")


@lib("spec.is_sorted")
def _spec_is_sorted(I, seq):
    return sorted_seq(I, as_seq(I, seq))


@lib("spec.strictly_increasing")
def _spec_strictly_increasing(I, seq):
    return sorted_seq(I, as_seq(I, seq), strict=True)


@lib("spec.row_eq")
def _spec_row_eq(I, a, b):
    return bz(veq(a, b))


@lib("spec.isnan")
def _spec_isnan(I, x):
    return _isnan(I, x)


@lib("spec.isfinite")
def _spec_isfinite(I, x):
    return _isfinite(I, x)


# ----------------------------------------------------- more numpy / stdlib
@lib("numpy.cumsum")
def _cumsum(I, x, **kw):
    x = _val(x)
    if _scalar(x) and not isinstance(x, (bool, str)):
        # np.cumsum of a 0-d value: the one-element array holding it
        xv = to_real(x)
        x = SymSeq(1, lambda i: xv, "Real")
    if not isinstance(x, SymSeq):
        raise Unsupported("cumsum of non-seq")
    srt = z3.RealSort() if x.elem == "Real" else z3.IntSort()
    f = z3.Function(I.namer.fresh("cumsum"), z3.IntSort(), srt)
    n = to_int(x.length)
    k = z3.Int(I.namer.fresh("q_k"))
    I.assume(z3.Implies(n > 0, I.ctx_simplify(n > 0, f(0) == x.get(0))))
    rng0 = z3.And(1 <= k, k < n)
    I.assume(z3.ForAll([k], z3.Implies(rng0, I.ctx_simplify(
        rng0, f(k) == f(k - 1) + x.get(k)))))
    if I.V.log_domain and x.elem == "Real":
        # the same recurrence on exponential images (exp_add instances)
        I.assume(z3.Implies(n > 0, I.ctx_simplify(
            n > 0, EXPF(f(0)) == EXPI(I, x.get(0)))))
        rng_ = z3.And(1 <= k, k < n)
        I.assume(z3.ForAll([k], z3.Implies(
            rng_, I.ctx_simplify(
                rng_, EXPF(f(k)) == EXPF(f(k - 1)) * EXPI(I, x.get(k))))))
        # lemma prod_pos (Lean): a running product of positive factors is
        # positive
        I.stats.lib_used.add("lemma:prod_pos")
        I.assume(z3.Implies(
            forall_idx(I, n, lambda q: EXPI(I, x.get(q)) > 0),
            forall_idx(I, n, lambda q: EXPF(f(q)) > 0)))
    return Cell("arr", SymSeq(x.length, lambda i: f(to_int(i)), x.elem))


def seq_sum(I, x):
    """sum of a sequence: uninterpreted SUM over (a fresh name per array
    value) -- only equalities between sums of the *same* array are usable."""
    if x.elem == "Real":
        return sum_term(I, 0, x.length, lambda k: x.get(k))
    srt = z3.RealSort() if x.elem != "Int" else z3.IntSort()
    return I.fresh_const("sum", srt)


@method("seq", "sum")
def _seq_sum_m(I, b, **kw):
    v = _val(b)
    if v.elem == "Bool" and not kw:
        return mask_maps(I, v)[2]          # number of True entries
    return seq_sum(I, v)


@lib("numpy.sum")
def _np_sum(I, x, **kw):
    v = as_seq(I, x)
    if v.elem == "Bool" and not kw:
        return mask_maps(I, v)[2]
    return seq_sum(I, v)


@lib("os.path.join")
def _os_path_join(I, *parts):
    if all(isinstance(p, str) for p in parts):
        import os
        return os.path.join(*parts)
    return Opaque("path")


@lib("os.makedirs")
def _os_makedirs(I, *a, **k):
    return None


@lib("numpy.array")
def _np_array(I, x, **kw):
    r = _np_asarray(I, x, **kw)
    if r is x and isinstance(x, Cell):
        return Cell("arr", x.read())      # np.array copies
    return r


@lib("numpy.asarray", "numpy.atleast_1d")
def _np_asarray(I, x, **kw):
    if isinstance(x, Cell) and x.kind == "arr":
        return x
    if isinstance(x, Cell) and x.kind == "list":
        v = x.read()
        return Cell("arr", v)
    if isinstance(x, (SymSeq, SymStruct)):
        return Cell("arr", x)
    if isinstance(x, (list, tuple)) and all(_scalar(v) for v in x):
        items = list(x)
        elem = "Real" if any(_elem_of(v) == "Real" for v in items) else \
            ("Int" if items else "Real")

        def get(i, items=items, elem=elem):
            if isinstance(i, int):
                return _coerce_elem(items[i], elem)
            out = _coerce_elem(items[-1], elem) if items else None
            for j in range(len(items) - 2, -1, -1):
                out = z3.If(to_int(i) == j, _coerce_elem(items[j], elem),
                            out)
            return out
        return Cell("arr", SymSeq(len(items), get, elem))
    if _scalar(x):
        return x
    raise Unsupported(f"np.asarray of {x!r}")



# ------------------------------------------------------------ 2-D tables
# A `Tbl(R)` is a sequence of abstract rows of sort R; column j of row r is
# the uninterpreted COL_R(r, j).
def tbl_col(row, j):
    f = z3.Function("COL", row.sort(), z3.IntSort(), z3.RealSort())
    return f(row, to_int(j))


def _full(sl):
    return isinstance(sl, slice) and sl.start is None and sl.stop is None \
        and sl.step is None


def tbl_getitem(I, base, val, key):
    r, c = key
    if isinstance(r, slice):
        lo, hi = slice_bounds(I, r, val.length)
        rows = seq_slice(val, lo, hi)
        if _full(c):
            return Cell("arr", rows, view_of=base if isinstance(base, Cell)
                        else None)
        if isinstance(c, slice):
            raise Unsupported("column slice of a table")
        if isinstance(c, int) and c < 0:
            return Cell("arr", SymSeq(
                rows.length, lambda i: tbl_col(
                    rows.get(i), tbl_ncol(rows.get(i)) + c), "Real"))
        return Cell("arr", SymSeq(rows.length,
                                  lambda i: tbl_col(rows.get(i), c), "Real"))
    i = norm_index(I, r, val.length)
    if _full(c):
        raise Unsupported("row of a table as a vector")
    return tbl_col(val.get(i), c)


@lib("scipy.special.logsumexp")
def _logsumexp(I, a, **kw):
    a = _val(a)
    if kw:
        raise Unsupported("logsumexp with keyword arguments")
    return I.fresh_const("logsumexp", z3.RealSort())


def _clock_mode(I):
    return bool(I.contract.extra.get("clock")) if I.contract is not None \
        else False


def clock_lower_bound(I):
    """the latest time known to have passed (a symbolic Real): the model of
    the wall clock in contracts marked clock=True.  The clock is monotone:
    every datetime.now() is >= every time observed before it."""
    if "clock" not in I.ghost:
        I.ghost["clock"] = z3.Real(I.namer.fresh("clock0"))
    return I.ghost["clock"]


@lib("datetime.datetime.now", "time.time")
def _now(I, *a, **k):
    if _clock_mode(I):
        lo = clock_lower_bound(I)
        t = z3.Real(I.namer.fresh("now"))
        I.assume(t >= lo)
        I.ghost["clock"] = t
        return t
    return Opaque("time")


# abstract per-row maps of a (combined) reparameterisation on two
# coordinates: forward GA, GB with log-Jacobian GJ; inverse HA, HB, HJ
for _g in ("GA", "GB", "GJ", "HA", "HB", "HJ"):
    _gf = z3.Function(_g, z3.RealSort(), z3.RealSort(), z3.RealSort())
    LIB["spec." + _g] = E.LibFunc(
        "spec." + _g, (lambda I, a, b, _gf=_gf: _gf(to_real(_val(a)),
                                                    to_real(_val(b)))))


_fx_, _fm_ = z3.Reals("x!fmod m!fmod")
from .values import BACKGROUND as _BG0   # noqa: E402
# (NOT a background axiom: a quantified fact over two reals in every query
# made counter-model searches ten times slower; it is added to the path
# condition of the interpreters that create an FMOD term)
_FMOD_AX = (z3.ForAll([_fx_, _fm_], z3.Implies(_fm_ > 0, z3.And(
    FMOD(_fx_, _fm_) >= 0, FMOD(_fx_, _fm_) < _fm_,
    z3.Implies(z3.And(_fx_ >= 0, _fx_ < _fm_), FMOD(_fx_, _fm_) == _fx_),
    z3.Implies(z3.And(_fx_ >= -_fm_, _fx_ < 0),
               FMOD(_fx_, _fm_) == _fx_ + _fm_))),
    patterns=[FMOD(_fx_, _fm_)]))


def fmod_term(I, x, m):
    if not I.__dict__.get("_fmod_ax"):
        I.__dict__["_fmod_ax"] = True
        I.pc.append(_FMOD_AX)
    return FMOD(to_real(x), to_real(m))


SPEC_CONSTS["PI"] = z3.Real("PI")
_BG0.append(z3.And(z3.Real("PI") > z3.RealVal("3.14159"),
                   z3.Real("PI") < z3.RealVal("3.1416")))
_SQRT = z3.Function("SQRT", z3.RealSort(), z3.RealSort())
# (only the sign: the defining square is a non-linear quantified fact that
# slows every counter-model search down and no proof here needs it)
_BG0.append(z3.ForAll([_fx_], _SQRT(_fx_) >= 0, patterns=[_SQRT(_fx_)]))
# the numeric functions numpy applies element-wise, by name, for contracts
for _nm in ("COS", "SIN", "SQRT", "ARCTAN2"):
    LIB["spec." + _nm] = E.LibFunc(
        "spec." + _nm, (lambda I, *a, _nm=_nm: uf(
            _nm, z3.RealSort(), *[to_real(_val(x)) for x in a])))
LIB["spec.FMOD"] = E.LibFunc(
    "spec.FMOD", lambda I, a, b: fmod_term(I, _val(a), _val(b)))

_UFS = {}


@lib("spec.uf")
def _spec_uf(I, name, *args):
    """uf('F', x, ...): an uninterpreted real function named in a contract
    (the same name is the same function everywhere)"""
    k = (name, len(args))
    if k not in _UFS:
        _UFS[k] = z3.Function(f"uf_{name}", *([z3.RealSort()] *
                                              (len(args) + 1)))
    return _UFS[k](*[to_real(_val(a)) for a in args])


@lib("numpy.mean")
def _np_mean_opaque(I, x, **kw):
    if isinstance(x, Opaque):
        return Opaque("mean of an uninspected value")
    raise Unsupported("numpy.mean")


@lib("torch.optim.lr_scheduler.CosineAnnealingLR")
def _cosine_lr(I, *a, **k):
    return Opaque("lr scheduler")


@lib("signal.signal")
def _signal_signal(I, sig, handler):
    """the process's handler table (ghost): signal name -> handler"""
    if not isinstance(sig, str):
        raise Unsupported("signal.signal with a symbolic signal number")
    I.ghost.setdefault("signals", {})[sig] = handler
    return Opaque("previous handler")


@lib("spec.handler_of")
def _spec_handler_of(I, sig, obj, name):
    """is the handler registered for `sig` the bound method obj.name?"""
    h = I.ghost.get("signals", {}).get(sig)
    return isinstance(h, E.BoundMethod) and h.obj is _val(obj) and \
        h.name == name


@lib("spec.clock")
def _spec_clock(I):
    return clock_lower_bound(I)


# ------------------------------------------------ C10: functions & chunks
class FuncVal:
    """An abstract user function with a pointwise meaning f1 : P -> Real.
    `vector` tells how it is *called*: FuncVal(seq) is the element-wise
    image (the 'vectorised' contract: func(s)[j] = func1(s[j]) and
    len func(s) = len s); FuncVal(point) = f1(point)."""

    def __init__(self, f1, name):
        self.f1 = f1
        self.name = name

    def apply(self, I, arg):
        a = _val(arg)
        if isinstance(a, SymSeq):
            return Cell("arr", SymSeq(a.length,
                                      lambda i: self.f1(a.get(i)), "Real"))
        if isinstance(a, Cell) and a.kind == "row":
            raise Unsupported("FuncVal on a record")
        return self.f1(a)


class ChunkList:
    """np.array_split result: piece k = x[b(k) : b(k+1)], 0 <= k < K."""

    def __init__(self, x, K, b):
        self.x, self.K, self.b = x, K, b

    def piece(self, k):
        lo, hi = self.b(to_int(k)), self.b(to_int(k) + 1)
        return seq_slice(self.x, lo, hi)


class MappedChunks:
    def __init__(self, chunks, fv):
        self.chunks, self.fv = chunks, fv


class PoolVal:
    """multiprocessing.Pool-like object: map is order preserving."""


def _mk_chunks(I, x, K, max_piece=None):
    b = z3.Function(I.namer.fresh("split_b"), z3.IntSort(), z3.IntSort())
    n = to_int(x.length)
    k = z3.Int(I.namer.fresh("q_k"))
    I.assume(z3.And(K >= 1, b(0) == 0, b(K) == n))
    I.assume(z3.ForAll([k], z3.Implies(z3.And(0 <= k, k < K),
                                       b(k) <= b(k + 1))))
    if max_piece is not None:
        I.assume(z3.ForAll([k], z3.Implies(
            z3.And(0 <= k, k < K), b(k + 1) - b(k) <= to_int(max_piece))))
    return ChunkList(x, K, b)


@lib("numpy.array_split")
def _array_split(I, x, sections, **kw):
    x = _val(x)
    if not isinstance(x, SymSeq):
        raise Unsupported("array_split of non-seq")
    if sections is None:
        I.fail(f"array_split_sections_None@{I.cur_line}")
    if isinstance(sections, OptVal):
        I.oblige(f"array_split_sections_not_None@{I.cur_line}",
                 sections.present, "lib_requires")
        sections = sections.value
    if isinstance(sections, SymRange):
        # split points c, 2c, ... < n  (sections = range(c, n, c))
        c = sections.lo
        if not (isinstance(sections.step, int) or
                sections.step is c or (is_z3(sections.step) and
                                       sections.step.eq(to_z3(c)))):
            raise Unsupported("array_split with a general range")
        K = I.fresh_const("nchunks", z3.IntSort())
        I.oblige(f"array_split_step_positive@{I.cur_line}", to_int(c) >= 1,
                 "lib_requires")
        return _mk_chunks(I, x, K, max_piece=c)
    if isinstance(sections, int) or (is_z3(sections) and
                                      z3.is_int(sections)):
        I.oblige(f"array_split_sections_positive@{I.cur_line}",
                 to_int(sections) >= 1, "lib_requires")
        return _mk_chunks(I, x, to_int(sections))
    raise Unsupported(f"array_split sections {sections!r}")


# range(c, n, c) with symbolic step == start
_old_range = LIB["builtins.range"].fn


@lib("builtins.range")
def _range2(I, *a):
    if len(a) == 3 and not isinstance(a[2], int):
        return SymRange(a[0], a[1], a[2])
    return _old_range(I, *a)


@lib("builtins.map")
def _map(I, f, it):
    if isinstance(f, FuncVal) and isinstance(it, ChunkList):
        return MappedChunks(it, f)
    if isinstance(f, FuncVal):
        s = as_seq(I, it)
        return Cell("list", SymSeq(s.length, lambda i: f.f1(s.get(i)),
                                   "Real"))
    items = concrete_iter(I, it, must=True)
    return [I.call(f, [x], {}) for x in items]


_old_list = LIB["builtins.list"].fn


@lib("builtins.list")
def _list2(I, x=()):
    if isinstance(x, MappedChunks):
        return x
    return _old_list(I, x)


@lib("numpy.concatenate")
def _concatenate(I, parts, **kw):
    if isinstance(parts, MappedChunks):
        ch, fv = parts.chunks, parts.fv
        n = to_int(ch.x.length)
        kof = z3.Function(I.namer.fresh("chunk_of"), z3.IntSort(),
                          z3.IntSort())
        i = z3.Int(I.namer.fresh("q_i"))
        # every index lies in exactly one piece (pieces partition [0, n))
        I.assume(z3.ForAll([i], z3.Implies(
            z3.And(0 <= i, i < n),
            z3.And(0 <= kof(i), kof(i) < ch.K, ch.b(kof(i)) <= i,
                   i < ch.b(kof(i) + 1)))))

        def get(j):
            j = to_int(j)
            k = kof(j)
            piece = ch.piece(k)
            img = fv.apply(I, piece)
            return _val(img).get(j - ch.b(k))
        return Cell("arr", SymSeq(ch.x.length, get, "Real"))
    items = concrete_iter(I, parts)
    if items is not None and len(items) == 2 and kw.get("axis") == 1 and \
            is_tbl(_val(items[0])) and isinstance(items[1], ColVal):
        return tbl_append_col(I, _val(items[0]), items[1].seq)
    if kw.get("axis") not in (None, 0):
        raise Unsupported("np.concatenate along this axis")
    if items is not None and len(items) > 2 and all(
            isinstance(_val(p), SymSeq) for p in items):
        acc = _val(items[0])
        for nxt in items[1:]:
            nxt = _val(nxt)
            na = to_int(acc.length)
            acc = SymSeq(na + to_int(nxt.length), (
                lambda i, acc=acc, nxt=nxt, na=na: ite(
                    to_int(i) < na, acc.get(i), nxt.get(to_int(i) - na))),
                acc.elem)
        return Cell("arr", acc)
    if items is not None and len(items) == 2:
        a, b = [_val(p) for p in items]
        if isinstance(a, SymSeq) and isinstance(b, SymSeq):
            na = to_int(a.length)
            return Cell("arr", SymSeq(
                na + to_int(b.length),
                lambda i: ite(to_int(i) < na, a.get(i),
                              b.get(to_int(i) - na)), a.elem))
        if isinstance(a, SymStruct) and isinstance(b, SymStruct):
            na = to_int(a.length)
            n = na + to_int(b.length)
            return Cell("arr", SymStruct(n, {
                f: SymSeq(n, (lambda i, q=q, r=b.fields[f]: ite(
                    to_int(i) < na, q.get(i), r.get(to_int(i) - na))),
                    q.elem) for f, q in a.fields.items()}))
    raise Unsupported("np.concatenate of this shape")


@method("seq", "flatten")
def _seq_flatten(I, b):
    return Cell("arr", _val(b))


@method("list", "flatten")
def _list_flatten(I, b):
    return Cell("arr", _val(b))


@method("seq", "astype")
def _seq_astype(I, b, *a, **k):
    return Cell("arr", _val(b))


@lib("spec.pointwise")
def _spec_pointwise(I, f, p):
    if isinstance(f, OptVal):
        f = f.value
    if not isinstance(f, FuncVal):
        raise SpecError("pointwise() of a non-function")
    return f.f1(p)


@lib("spec.same_function")
def _spec_same_function(I, a, b):
    def conv(v):
        if isinstance(v, E.PkgFunc):
            con = C.CONTRACTS.get((v.file, v.qual))
            attr = con.extra.get("wraps_model_attr") if con else None
            gm = I.V.global_model
            if attr is None or gm is None:
                raise SpecError(f"same_function: {v.qual} has no "
                                f"wraps_model_attr / no global model")
            return gm.attrs[attr]
        return v
    guard = None
    if isinstance(a, OptVal):
        guard, a = a.present, a.value
    a, b = conv(a), conv(b)
    if a is b:
        return True
    p = z3.Const(I.namer.fresh("q_p"), a.f1.domain(0))
    eq = z3.ForAll([p], a.f1(p) == b.f1(p))
    return z3.Implies(guard, eq) if guard is not None else eq



@method("pool", "map")
def _pool_map(I, b, f, it):
    # order-preserving, like builtins.map followed by list()
    return _map(I, f, it)


@lib("spec.global_model")
def _spec_global_model(I):
    return I.V.global_model


@lib("spec.from_uh")
def _spec_from_uh(I, p):
    f = z3.Function("FROM_UH", p.sort(), p.sort())
    return f(p)


@lib("multiprocessing.Pool")
def _mp_pool(I, *a, **k):
    return PoolVal()


# --------------------------------------------------- C04: insert & friends
def _forall2(I, n1, n2, body):
    a = z3.Int(I.namer.fresh("q_a"))
    b = z3.Int(I.namer.fresh("q_b"))
    return z3.ForAll([a, b], z3.Implies(
        z3.And(0 <= a, a < to_int(n1), 0 <= b, b < to_int(n2)),
        bz(body(a, b))))


@lib("numpy.argsort")
def _argsort(I, a, order=None, **kw):
    a = _val(a)
    if isinstance(a, SymStruct):
        if not isinstance(order, str):
            raise Unsupported("argsort of a struct without order")
        key = a.fields[order]
    elif isinstance(a, SymSeq):
        key = a
    else:
        raise Unsupported("argsort of non-array")
    n = to_int(key.length)
    perm = z3.Function(I.namer.fresh("argsort"), z3.IntSort(), z3.IntSort())
    inv = z3.Function(I.namer.fresh("argsort_inv"), z3.IntSort(),
                      z3.IntSort())
    I.assume(forall_idx(I, n, lambda i: z3.And(
        0 <= perm(i), perm(i) < n, inv(perm(i)) == i)))
    I.assume(forall_idx(I, n, lambda i: z3.And(
        0 <= inv(i), inv(i) < n, perm(inv(i)) == i)))
    I.assume(sorted_seq(I, SymSeq(key.length,
                                  lambda i: key.get(perm(to_int(i))),
                                  key.elem)))
    I.ghost["last_argsort"] = {"perm": perm, "inv": inv, "n": n}
    return Cell("arr", SymSeq(key.length, lambda i: perm(to_int(i)), "Int"))


def _insert_maps(I, m, r, idx):
    """position maps of np.insert(a, idx, vals) for non-decreasing idx with
    0 <= idx[k] <= m:  new k -> idx[k]+k ; old j -> j+cnt(j) where
    k < cnt(j) <=> idx[k] <= j ; the two images partition [0, m+r)."""
    nm = I.namer.fresh
    cnt = z3.Function(nm("ins_cnt"), z3.IntSort(), z3.IntSort())
    isnew = z3.Function(nm("ins_isnew"), z3.IntSort(), z3.BoolSort())
    srcnew = z3.Function(nm("ins_srcnew"), z3.IntSort(), z3.IntSort())
    srcold = z3.Function(nm("ins_srcold"), z3.IntSort(), z3.IntSort())

    def posnew(k):
        return idx.get(k) + to_int(k)

    def posold(j):
        return to_int(j) + cnt(to_int(j))
    j = z3.Int(nm("q_j"))
    k = z3.Int(nm("q_k"))
    p = z3.Int(nm("q_p"))
    jr = z3.And(0 <= j, j < m)
    kr = z3.And(0 <= k, k < r)
    I.assume(z3.ForAll([j], z3.Implies(jr, z3.And(0 <= cnt(j),
                                                   cnt(j) <= r))))
    I.assume(z3.ForAll([j, k], z3.Implies(
        z3.And(jr, kr), (k < cnt(j)) == (idx.get(k) <= j))))
    # cnt is monotone (derived; stated to spare the solver an induction)
    j2 = z3.Int(nm("q_j2"))
    I.assume(z3.ForAll([j, j2], z3.Implies(
        z3.And(0 <= j, j <= j2, j2 < m), cnt(j) <= cnt(j2))))
    # inverse maps / partition of [0, m+r)
    I.assume(z3.ForAll([k], z3.Implies(kr, z3.And(
        isnew(posnew(k)), srcnew(posnew(k)) == k))))
    I.assume(z3.ForAll([j], z3.Implies(jr, z3.And(
        z3.Not(isnew(posold(j))), srcold(posold(j)) == j))))
    I.assume(z3.ForAll([p], z3.Implies(z3.And(0 <= p, p < m + r), z3.If(
        isnew(p),
        z3.And(0 <= srcnew(p), srcnew(p) < r, posnew(srcnew(p)) == p),
        z3.And(0 <= srcold(p), srcold(p) < m, posold(srcold(p)) == p)))))
    return {"m": m, "r": r, "posnew": posnew, "posold": posold,
            "isnew": isnew, "srcnew": srcnew, "srcold": srcold, "cnt": cnt}


@lib("numpy.insert")
def _np_insert(I, a, idx, vals, axis=None):
    a, idx, vals = _val(a), _val(idx), _val(vals)
    if not isinstance(idx, SymSeq):
        raise Unsupported("np.insert with a scalar index")
    m = to_int(a.length)
    r = to_int(idx.length)
    site = I.cur_line
    I.oblige(f"insert_len@{site}", to_int(vals.length) == r, "lib_requires")
    I.oblige(f"insert_idx_sorted@{site}", sorted_seq(I, idx),
             "lib_requires")
    I.oblige(f"insert_idx_range@{site}", forall_idx(
        I, r, lambda k: z3.And(0 <= idx.get(k), idx.get(k) <= m)),
        "lib_requires")
    # the position maps are a function of (idx, m) only: two inserts driven
    # by the same index vector into arrays of the same length share them
    cache = I.ghost.setdefault("insert_cache", {})
    ckey = id(idx)
    if ckey in cache:
        maps = cache[ckey][0]
        I.oblige(f"insert_same_length@{site}", m == maps["m"],
                 "lib_requires")
    else:
        maps = _insert_maps(I, m, r, idx)
        cache[ckey] = (maps, idx)
    I.ghost["last_insert"] = maps
    I.ghost.setdefault("inserts", []).append(maps)
    isnew, srcnew, srcold = maps["isnew"], maps["srcnew"], maps["srcold"]
    n = m + r

    def mk(qa, qv):
        return SymSeq(n, lambda p: ite(isnew(to_int(p)),
                                       qv.get(srcnew(to_int(p))),
                                       qa.get(srcold(to_int(p)))), qa.elem)
    if isinstance(a, SymStruct):
        if not isinstance(vals, SymStruct):
            raise Unsupported("np.insert struct/non-struct")
        return Cell("arr", SymStruct(n, {f: mk(q, vals.fields[f])
                                         for f, q in a.fields.items()}))
    return Cell("arr", mk(a, vals))


class _SliceMaker:
    pass


LIB["numpy.s_"] = _SliceMaker()


def _getitem_s(I, base, key):
    return key


@lib("numpy.delete")
def _np_delete(I, a, obj, **kw):
    a = _val(a)
    if not isinstance(obj, slice):
        raise Unsupported("np.delete with non-slice")
    lo, hi = slice_bounds(I, obj, a.length)
    n = to_int(a.length)
    cut = _minus_nonneg(hi, lo)
    newlen = n - to_int(cut)
    return Cell("arr", SymSeq(newlen, lambda i: ite(
        to_int(i) < to_int(lo), a.get(i), a.get(to_int(i) + to_int(cut))),
        a.elem))


@lib("numpy.empty", "numpy.zeros", "numpy.ones")
def _np_empty(I, shape, dtype=None, **kw):
    if isinstance(shape, (tuple, list)):
        if len(shape) != 1:
            raise Unsupported("multi-dimensional allocation")
        shape = shape[0]
    elem = "Int" if dtype is not None and isinstance(dtype, E.LibFunc) and \
        dtype.name == "builtins.int" else "Real"
    f = z3.Function(I.namer.fresh("alloc"), z3.IntSort(),
                    z3.IntSort() if elem == "Int" else z3.RealSort())
    return Cell("arr", SymSeq(shape, lambda i: f(to_int(i)), elem))


@method("seq", "max")
def _seq_max(I, b, **kw):
    return seq_extreme(I, _val(b), True)


@method("seq", "min")
def _seq_min(I, b, **kw):
    return seq_extreme(I, _val(b), False)


@lib("numpy.isin", "numpy.in1d")
def _np_isin(I, a, b, **kw):
    a, b = _val(a), _val(b)
    mem = z3.Function(I.namer.fresh("isin"), z3.IntSort(), z3.BoolSort())
    wit = z3.Function(I.namer.fresh("isin_wit"), z3.IntSort(), z3.IntSort())
    nb = to_int(b.length)
    I.assume(forall_idx(I, nb, lambda k: mem(b.get(k))))
    v = z3.Int(I.namer.fresh("q_v"))
    I.assume(z3.ForAll([v], z3.Implies(mem(v), z3.And(
        0 <= wit(v), wit(v) < nb, b.get(wit(v)) == v))))
    out = SymSeq(a.length, lambda i: mem(a.get(i)), "Bool")
    out.isin = {"a": a, "b": b}
    return Cell("arr", out)


@lib("spec.lemma_unique_enum")
def _lemma_unique_enum(I, h):
    """Lemma (Lean: lemmas/Lib.lean unique_complement_enum): a strictly
    increasing h : [0,m) -> [0,m+r) whose image avoids the image of the
    strictly increasing posnew : [0,r) -> [0,m+r) equals posold, the
    strictly increasing enumeration of the complement.  Instantiated for
    the position maps of the most recent np.insert on this path."""
    maps = I.ghost.get("last_insert")
    if maps is None:
        raise SpecError("lemma_unique_enum: no np.insert on this path")
    h = _val(h)
    m, r = maps["m"], maps["r"]
    posold, posnew = maps["posold"], maps["posnew"]
    ante = z3.And(
        to_int(h.length) == m,
        sorted_seq(I, h, strict=True),
        forall_idx(I, m, lambda j: z3.And(0 <= h.get(j), h.get(j) < m + r)),
        _forall2(I, m, r, lambda j, k: h.get(j) != posnew(k)))
    cons = forall_idx(I, m, lambda j: h.get(j) == posold(j))
    I.stats.lib_used.add("lemma:unique_complement_enum")
    return z3.Implies(ante, cons)


# =====================================================================
# Log-domain reasoning (C02, C05, C15, C16): a float that holds a logarithm
# is handled through its exponential image E(l) >= 0 (-inf |-> 0).  E is a
# *syntactic homomorphism* over real terms:
#     E(a+b) = E(a)E(b)   E(a-b) = E(a)/E(b)   E(-a) = 1/E(a)
#     E(0) = 1   E(-INF) = 0   E(LOGF(x)) = x   E(atom) = EXPF(atom)
# and the numpy functions are modelled on images:
#     np.exp(t) = E(t)      np.log(x) = LOGF(x)     np.log1p(x) = LOGF(1+x)
#     np.logaddexp(a,b) = LOGF(E(a)+E(b))
#     logsumexp(v) = LOGF(SUM_k E(v_k))
# The exp/log laws behind this are lemmas of the real numbers (Lean library:
# exp_add, exp_sub, exp_neg, exp_log, exp_zero, exp_pos, exp_lt_one...).
# =====================================================================
EXPF = z3.Function("EXPF", z3.RealSort(), z3.RealSort())
LOGF = z3.Function("LOGF", z3.RealSort(), z3.RealSort())
_ARR = z3.ArraySort(z3.IntSort(), z3.RealSort())
SUMA = z3.Function("SUMA", _ARR, z3.IntSort(), z3.IntSort(), z3.RealSort())


def _is_neg_inf(t):
    t = z3.simplify(t)
    return t.eq(z3.simplify(-INF))


def EXPI(I, t):
    """exponential image of a real term (python numbers allowed)."""
    if isinstance(t, bool):
        raise Unsupported("E of a boolean")
    if isinstance(t, (int, float)):
        if t == 0:
            return z3.RealVal(1)
        if t == float("-inf"):
            return z3.RealVal(0)
        if t == float("inf") or t != t:
            raise Unsupported("E(+inf / nan)")
        t = z3.RealVal(repr(float(t)))
    t = to_real(t)
    return _E(I, t)


def _E(I, t):
    if z3.is_rational_value(t):
        if t.numerator_as_long() == 0:
            return z3.RealVal(1)
        return _atom(I, t)
    if _is_neg_inf(t):
        return z3.RealVal(0)
    if z3.is_app(t):
        k = t.decl().kind()
        ch = t.children()
        if k == z3.Z3_OP_ADD:
            out = _E(I, ch[0])
            for c in ch[1:]:
                out = out * _E(I, c)
            return out
        if k == z3.Z3_OP_SUB:
            out = _E(I, ch[0])
            for c in ch[1:]:
                out = out / _E(I, c)
            return out
        if k == z3.Z3_OP_UMINUS:
            return 1 / _E(I, ch[0])
        if k == z3.Z3_OP_MUL and len(ch) == 2 and \
                z3.is_rational_value(z3.simplify(ch[0])):
            c = z3.simplify(ch[0])
            if c.denominator_as_long() == 1:
                n = c.numerator_as_long()
                if n == -1:
                    return 1 / _E(I, ch[1])
                if n == 2:
                    e = _E(I, ch[1])
                    return e * e
                if n == 1:
                    return _E(I, ch[1])
        if k == z3.Z3_OP_ITE:
            return z3.If(ch[0], _E(I, ch[1]), _E(I, ch[2]))
        if t.decl().eq(LOGF):
            return ch[0]
        if k == z3.Z3_OP_TO_REAL:
            return _atom(I, t)
    return _atom(I, t)


def _atom(I, t):
    return EXPF(t)


def _exp_axioms():
    """facts about exp (real-analysis lemmas; -INF is the extended-real
    bottom), triggered on every EXPF(t) ground term"""
    t = z3.Real("t!exp")
    e = EXPF(t)
    body = z3.And(
        e >= 0,
        (t == -INF) == (e == 0),
        z3.Implies(z3.And(t < 0, t != -INF), e < 1),
        (t == 0) == (e == 1),
        z3.Implies(t > 0, e > 1))
    return z3.ForAll([t], body, patterns=[e])


from .values import BACKGROUND as _BG   # noqa: E402
_BG.append(_exp_axioms())


def _lift(I, fn, *args):
    xs = [_val(a) for a in args]
    if any(isinstance(x, SymSeq) for x in xs):
        n = next(x.length for x in xs if isinstance(x, SymSeq))
        for x in xs:
            if isinstance(x, SymSeq) and x is not xs[0]:
                pass
        return Cell("arr", SymSeq(n, lambda i: fn(
            *[(x.get(i) if isinstance(x, SymSeq) else x) for x in xs]),
            "Real"))
    return fn(*xs)


@lib("numpy.exp", "math.exp")
def _np_exp(I, x, **kw):
    return _lift(I, lambda v: EXPI(I, v), x)


def _logf(I, x, what):
    x = to_real(x)
    if not I.spec:
        # log of a negative number is nan (numpy warns, does not raise):
        # reported as a safety obligation of kind 'domain'
        I.oblige(f"{what}_arg_nonneg@{I.cur_line}", x >= 0, "safety")
    return LOGF(x)


@lib("numpy.log", "math.log")
def _np_log(I, x, **kw):
    x0 = _val(x)
    if isinstance(x0, SymSeq) and x0.elem == "Bool":
        # log of an indicator: 0 where True, -inf where False
        return Cell("arr", SymSeq(
            x0.length, lambda i: LOGF(z3.If(bz(x0.get(i)), z3.RealVal(1),
                                            z3.RealVal(0))), "Real"))
    if isinstance(x0, SymSeq):
        if not I.spec:
            I.oblige(f"log_arg_nonneg@{I.cur_line}",
                     forall_idx(I, x0.length, lambda k: x0.get(k) >= 0),
                     "safety")
        return Cell("arr", SymSeq(x0.length,
                                  lambda i: LOGF(to_real(x0.get(i))), "Real"))
    if isinstance(x0, (int, float)) and x0 > 0:
        return LOGF(to_real(x0))
    return _logf(I, x0, "log")


@lib("numpy.log1p", "math.log1p")
def _np_log1p(I, x, **kw):
    x0 = _val(x)
    if isinstance(x0, SymSeq):
        if not I.spec:
            I.oblige(f"log1p_arg@{I.cur_line}",
                     forall_idx(I, x0.length, lambda k: 1 + x0.get(k) >= 0),
                     "safety")
        return Cell("arr", SymSeq(
            x0.length, lambda i: LOGF(1 + to_real(x0.get(i))), "Real"))
    return _logf(I, 1 + to_real(x0), "log1p")


@lib("numpy.logaddexp")
def _logaddexp2(I, a, b):
    return _lift(I, lambda p, q: LOGF(EXPI(I, p) + EXPI(I, q)), a, b)


def sum_term(I, lo, hi, body):
    """Sum_{k=lo}^{hi-1} body(k) as SUMA(lambda k. body, lo, hi)."""
    k = z3.Int(I.namer.fresh("s_k"))
    lo_, hi_ = to_int(lo), to_int(hi)
    # only the values for lo <= k < hi matter: normalise the summand under
    # that range (any representative denotes the same finite sum)
    b = I.ctx_simplify(z3.And(lo_ <= k, k < hi_), to_real(body(k)),
                       force=True)
    # canonical bound name: syntactically equal summands give the *same*
    # SUMA term (hash-consing), so no congruence lemma is needed for them.
    # The constant is only used transiently here and is abstracted at once,
    # so it can never occur free in a formula.
    kc = z3.Int("s_k!c")
    lam = z3.Lambda([kc], z3.substitute(b, (k, kc)))
    return SUMA(lam, lo_, hi_)


@lib("scipy.special.logsumexp")
def _logsumexp2(I, a, b=None, **kw):
    a = _val(a)
    if not isinstance(a, SymSeq):
        raise Unsupported("logsumexp of non-seq")
    if is_tbl(a):
        if kw != {"axis": 1} or b is None:
            raise Unsupported("logsumexp of a table: only (b=..., axis=1)")
        return tbl_logsumexp(I, a, _val(b))
    if kw:
        raise Unsupported("logsumexp with axis/keepdims")
    if b is None:
        s = sum_term(I, 0, a.length, lambda k: EXPI(I, a.get(k)))
    else:
        b = _val(b)
        s = sum_term(I, 0, a.length,
                     lambda k: to_real(b.get(k)) * EXPI(I, a.get(k)))
    return LOGF(s)


@lib("spec.E")
def _spec_E(I, t):
    return EXPI(I, _val(t))


@lib("spec.LOG")
def _spec_LOG(I, t):
    return LOGF(to_real(t))



def _like(I, x, value):
    x = _val(x)
    if _scalar(x):
        return value
    return Cell("arr", SymSeq(x.length, lambda i: value, "Real"))


@lib("numpy.ones_like")
def _ones_like(I, x, **kw):
    return _like(I, x, z3.RealVal(1))


@lib("numpy.zeros_like")
def _zeros_like(I, x, **kw):
    return _like(I, x, z3.RealVal(0))


_np_zeros_prev = LIB["numpy.zeros"].fn


@lib("numpy.zeros")
def _np_zeros(I, shape, dtype=None, **kw):
    if isinstance(shape, (tuple, list)):
        return _np_zeros_prev(I, shape, dtype, **kw)
    zero = z3.RealVal(0)
    return Cell("arr", SymSeq(shape, lambda i: zero, "Real"))


@lib("numpy.ones")
def _np_ones(I, shape, dtype=None, **kw):
    if isinstance(shape, (tuple, list)):
        return _np_zeros_prev(I, shape, dtype, **kw)
    one = z3.RealVal(1)
    return Cell("arr", SymSeq(shape, lambda i: one, "Real"))


# str.lower on a symbolic string: an uninterpreted function on string codes,
# idempotent, that fixes the lower-case constants of the table.  (Nothing
# says an arbitrary string is its own lower-case form: "LogT" != "logt".)
STR_LOWER = z3.Function("str_lower", z3.IntSort(), z3.IntSort())
_s_ = z3.Int("s!lower")
_BG.append(z3.ForAll([_s_], STR_LOWER(STR_LOWER(_s_)) == STR_LOWER(_s_),
                     patterns=[STR_LOWER(_s_)]))
def str_lower_term(I, b):
    t = b.term if isinstance(b, StrVal) else b
    if isinstance(t, str):
        return t.lower()
    # images of the constants known so far (ground facts of this path)
    done = I.__dict__.setdefault("_lower_ax", set())
    for c in list(StrVal.TABLE):
        if c not in done:
            done.add(c)
            I.pc.append(STR_LOWER(z3.IntVal(StrVal.code(c))) ==
                        z3.IntVal(StrVal.code(c.lower())))
    return StrVal(STR_LOWER(t))


METHODS[("StrVal", "lower")] = lambda I, b: E.LibFunc(
    "str.lower", lambda I2: str_lower_term(I2, b))


@lib("spec.lower")
def _spec_lower(I, s):
    return str_lower_term(I, s)


@lib("spec.ext")
def _spec_ext(I, seq, v):
    """seq ++ [v]"""
    s_ = as_seq(I, seq)
    n = s_.length
    vv = to_real(v)
    return SymSeq(_plus(n, 1), lambda i: ite(to_int(i) == to_int(n), vv,
                                             s_.get(i)), "Real")


@lib("spec.real")
def _spec_real(I, x):
    return to_real(_val(x))


# ------------------------------------------------------ C16: random draws
@lib("numpy.random.rand")
def _np_rand(I, *shape):
    if len(shape) != 1:
        raise Unsupported("np.random.rand with other than one dimension")
    n = shape[0]
    f = z3.Function(I.namer.fresh("rand"), z3.IntSort(), z3.RealSort())
    # library contract: uniform draws lie in [0, 1)
    I.assume(forall_idx(I, n, lambda k: z3.And(0 <= f(k), f(k) < 1)))
    I.ghost["last_rand"] = f
    return Cell("arr", SymSeq(n, lambda i: f(to_int(i)), "Real"))


@lib("numpy.where")
def _np_where(I, cond, *rest):
    if rest:
        raise Unsupported("three-argument np.where")
    c = _val(cond)
    if not isinstance(c, SymSeq) or c.elem != "Bool":
        raise Unsupported("np.where of a non-boolean array")
    idx = SymSeq(c.length, lambda i: to_int(i), "Int")
    sel = mask_select(I, idx, c)
    I.ghost["last_where"] = I.ghost.get("last_mask")
    return (Cell("arr", sel),)


@lib("numpy.max", "numpy.amax", "numpy.nanmax")
def _np_max(I, x, **kw):
    return seq_extreme(I, as_seq(I, x), True, name="npmax")


@lib("numpy.min", "numpy.amin")
def _np_min(I, x, **kw):
    return seq_extreme(I, as_seq(I, x), False, name="npmin")


@lib("numpy.random.choice")
def _np_choice(I, a, size=None, p=None, replace=True, **kw):
    if size is None:
        raise Unsupported("np.random.choice without size")
    n = to_int(a)
    f = z3.Function(I.namer.fresh("choice"), z3.IntSort(), z3.IntSort())
    I.oblige(f"choice_size_nonneg@{I.cur_line}", to_int(size) >= 0,
             "lib_requires")
    if p is not None:
        pv = _val(p)
        I.oblige(f"choice_p_len@{I.cur_line}", to_int(pv.length) == n,
                 "lib_requires")
        I.oblige(f"choice_p_nonneg@{I.cur_line}",
                 forall_idx(I, n, lambda k: pv.get(k) >= 0), "lib_requires")
        I.ghost["last_choice_p"] = pv
    I.ghost["last_choice_replace"] = replace
    # library contract: `size` indices, each in [0, a); with p they are
    # drawn with those probabilities (the frequency claim is numpy's)
    I.assume(forall_idx(I, size, lambda k: z3.And(0 <= f(k), f(k) < n)))
    return Cell("arr", SymSeq(size, lambda i: f(to_int(i)), "Int"))


@lib("spec.maxof")
def _spec_maxof(I, seq):
    s_ = as_seq(I, seq)
    srt = z3.RealSort() if s_.elem == "Real" else z3.IntSort()
    m = I.fresh_const("specmax", srt)
    w = I.fresh_const("specargmax", z3.IntSort())
    # definitional: a non-empty finite sequence has a maximum
    I.assume(z3.Implies(to_int(s_.length) > 0, z3.And(
        0 <= w, w < to_int(s_.length), s_.get(w) == m)))
    I.assume(forall_idx(I, s_.length, lambda k: s_.get(k) <= m))
    return m


@lib("spec.choice_p")
def _spec_choice_p(I, i):
    pv = I.ghost.get("last_choice_p")
    if pv is None:
        # no multinomial draw on this path: the clause that mentions it is
        # guarded by the method, so any value will do
        return I.fresh_const("no_choice_p", z3.RealSort())
    return pv.get(to_int(i))



def _sum_parts(t):
    if not (z3.is_app(t) and t.decl().name() == "SUMA"):
        raise SpecError("expected a Sum(...) term")
    return t.children()


def lam_at(lam, k):
    """the summand at index k, beta-reduced"""
    if z3.is_quantifier(lam) and lam.is_lambda():
        return z3.substitute_vars(lam.body(), k)
    return z3.Select(lam, k)


@lib("spec.lemma_sum_nonneg")
def _lemma_sum_nonneg(I, t):
    """Finset.sum_nonneg: a finite sum of non-negative terms is >= 0."""
    lam, lo, hi = _sum_parts(t)
    k = z3.Int(I.namer.fresh("q_sn"))
    I.stats.lib_used.add("lemma:sum_nonneg")
    return z3.Implies(z3.ForAll([k], z3.Implies(
        z3.And(lo <= k, k < hi), lam_at(lam, k) >= 0)), t >= 0)


@lib("spec.lemma_sum_pos")
def _lemma_sum_pos(I, t):
    """Finset.sum_pos': non-negative terms, one of them positive => > 0."""
    lam, lo, hi = _sum_parts(t)
    k = z3.Int(I.namer.fresh("q_sp"))
    j = z3.Int(I.namer.fresh("q_spj"))
    I.stats.lib_used.add("lemma:sum_pos")
    return z3.Implies(z3.And(
        z3.ForAll([k], z3.Implies(z3.And(lo <= k, k < hi),
                                  lam_at(lam, k) >= 0)),
        z3.Exists([j], z3.And(lo <= j, j < hi, lam_at(lam, j) > 0))),
        t > 0)


@lib("spec.choice_replace")
def _spec_choice_replace(I):
    v = I.ghost.get("last_choice_replace")
    return True if v is None else bool(v)



@lib("spec.rand_u")
def _spec_rand_u(I, i):
    f = I.ghost.get("last_rand")
    if f is None:
        return I.fresh_const("no_rand", z3.RealSort())
    return f(to_int(i))


@lib("sys.exit")
def _sys_exit(I, code=0):
    I.ghost["exit_code"] = code
    raise E.RaiseEx("SystemExit", I.cur_line)


# =====================================================================
# C11: ghost file system.  fs : path -> Absent | Torn | Complete(version).
# rename (shutil.move / os.replace) is atomic; open(..., 'wb') truncates
# (the file is Torn until it is closed); module.dump / torch.save write
# non-atomically (Torn until completion).  Process kill only (no fsync
# semantics).
# =====================================================================
FileState = z3.Datatype("FileState")
FileState.declare("Absent")
FileState.declare("Torn")
FileState.declare("Complete", ("ver", z3.IntSort()))
FileState = FileState.create()


class PathVal:
    """a file path: symbolic base + concrete suffix"""

    def __init__(self, base, suffix=""):
        self.base, self.suffix = base, suffix

    @property
    def key(self):
        return (self.base, self.suffix)

    def __repr__(self):
        return f"<Path {self.base}{self.suffix}>"


class PicklerVal:
    """pickle / dill module object (dump, load)"""


def fs_get(I, p):
    if not isinstance(p, PathVal):
        raise Unsupported(f"file-system access with a non-path {p!r}")
    fs = I.ghost.setdefault("fs", {})
    if p.key not in fs:
        v = z3.Const(I.namer.fresh(f"fs0[{p.base}{p.suffix}]"), FileState)
        fs[p.key] = v
        I.ghost.setdefault("fs0", {})[p.key] = v
    return fs[p.key]


def fs_set(I, p, state):
    fs_get(I, p)
    I.ghost["fs"][p.key] = state
    I.ghost["fs_writes"] = I.ghost.get("fs_writes", 0) + 1


_old_binop = binop


def binop(I, op, a, b):      # noqa: F811  (path concatenation)
    if type(a).__name__ == "ColVal" and type(b).__name__ == "ColVal":
        r = _old_binop(I, op, a.seq, b.seq)
        return type(a)(_val(r))
    if isinstance(op, ast.Add) and isinstance(a, PathVal) and \
            isinstance(b, str):
        return PathVal(a.base, a.suffix + b)
    return _old_binop(I, op, a, b)


_old_join = LIB["os.path.join"].fn


@lib("os.path.join")
def _os_path_join2(I, *parts):
    if parts and isinstance(parts[-1], PathVal):
        head = "/".join(str(p.what if isinstance(p, Opaque) else p)
                        for p in parts[:-1])
        last = parts[-1]
        return PathVal(f"{head}/{last.base}", last.suffix)
    return _old_join(I, *parts)


@lib("os.path.exists")
def _os_path_exists(I, p):
    return fs_get(I, p) != FileState.Absent


@lib("shutil.move", "os.replace", "os.rename")
def _shutil_move(I, a, b):
    sa = fs_get(I, a)
    if not I.spec:
        if I.try_depth > 0 or True:
            # moving a missing file raises FileNotFoundError
            if I.fork(sa == FileState.Absent):
                raise E.RaiseEx("FileNotFoundError", I.cur_line)
    fs_get(I, b)
    fs_set(I, b, sa)
    fs_set(I, a, FileState.Absent)
    return b


@lib("builtins.open")
def _open(I, p, mode="r", *a, **k):
    st = fs_get(I, p)
    if "w" in mode:
        fs_set(I, p, FileState.Torn)         # truncated, being written
        return FileHandle(p, mode)
    if I.fork(st == FileState.Absent):
        raise E.RaiseEx("FileNotFoundError", I.cur_line)
    return FileHandle(p, mode)


def _fh_close(self, I):
    if "w" in self.mode:
        fs_set(I, self.path, FileState.Complete(I.V.new_version(I)))


FileHandle.close = _fh_close


def _pickler_dump(I, b, data, fh):
    # non-atomic: the target stays Torn until the handle is closed
    if not isinstance(fh, FileHandle):
        raise Unsupported("dump into a non-file")
    I.ghost["dumped"] = data
    return None


def _pickler_load(I, b, fh):
    st = fs_get(I, fh.path)
    if I.fork(st == FileState.Torn):
        raise E.RaiseEx("UnpicklingError", I.cur_line)
    return LoadedVal(FileState.ver(st))


class LoadedVal:
    """object unpickled from a Complete file: carries the version"""

    def __init__(self, ver):
        self.ver = ver


METHODS[("PicklerVal", "dump")] = lambda I, b: E.LibFunc(
    "pickle.dump", lambda I2, data, fh, *a, **k: _pickler_dump(I2, b, data,
                                                               fh))
METHODS[("PicklerVal", "load")] = lambda I, b: E.LibFunc(
    "pickle.load", lambda I2, fh, *a, **k: _pickler_load(I2, b, fh))
LIB["pickle.load"] = E.LibFunc("pickle.load",
                               lambda I, fh, *a, **k: _pickler_load(I, None,
                                                                    fh))
LIB["pickle.dump"] = E.LibFunc("pickle.dump",
                               lambda I, d, fh, *a, **k: _pickler_dump(
                                   I, None, d, fh))
CONSTS["pickle"] = PicklerVal()


@lib("torch.save")
def _torch_save(I, obj, p, *a, **k):
    """in-place, non-atomic write: the target is Torn while it runs; the
    crash point inside the write is exposed to the statement hook through
    the ghost flag 'mid_write'"""
    fs_set(I, p, FileState.Torn)
    hook = I.V.mid_write_hook
    if hook is not None and len(I.func_stack) == 1:
        hook(I, p)
    fs_set(I, p, FileState.Complete(I.V.new_version(I)))


@lib("torch.load")
def _torch_load(I, p, *a, **k):
    st = fs_get(I, p)
    if I.fork(st == FileState.Absent):
        raise E.RaiseEx("FileNotFoundError", I.cur_line)
    if I.fork(st == FileState.Torn):
        raise E.RaiseEx("RuntimeError", I.cur_line)    # or EOFError/OSError
    return LoadedVal(FileState.ver(st))


def _fs_arg(I, p):
    return fs_get(I, p)


@lib("spec.fs_absent")
def _spec_fs_absent(I, p):
    return _fs_arg(I, p) == FileState.Absent


@lib("spec.fs_torn")
def _spec_fs_torn(I, p):
    return _fs_arg(I, p) == FileState.Torn


@lib("spec.fs_complete")
def _spec_fs_complete(I, p):
    return FileState.is_Complete(_fs_arg(I, p))


@lib("spec.fs_version")
def _spec_fs_version(I, p):
    return FileState.ver(_fs_arg(I, p))


def _fs0(I, p):
    fs_get(I, p)
    return I.ghost["fs0"][p.key]


@lib("spec.fs0_absent")
def _spec_fs0_absent(I, p):
    return _fs0(I, p) == FileState.Absent


@lib("spec.fs0_complete")
def _spec_fs0_complete(I, p):
    return FileState.is_Complete(_fs0(I, p))


@lib("spec.fs0_version")
def _spec_fs0_version(I, p):
    return FileState.ver(_fs0(I, p))


@lib("spec.fs0_torn")
def _spec_fs0_torn(I, p):
    return _fs0(I, p) == FileState.Torn


@lib("spec.NEW")
def _spec_new(I):
    return I.V.new_version(I)


@lib("spec.loaded_version")
def _spec_loaded_version(I, v):
    if isinstance(v, LoadedVal):
        return v.ver
    if isinstance(v, Obj) and "ghost_version" in v.attrs:
        return v.attrs["ghost_version"]
    raise SpecError("loaded_version of a value that was not loaded")


@lib("spec.PREV")
def _spec_prev(I):
    if "prev_version" not in I.ghost:
        I.ghost["prev_version"] = I.fresh_const("PREVVER", z3.IntSort())
    return I.ghost["prev_version"]


@lib("spec.resume_rt_error")
def _spec_resume_rt_error(I, p):
    d = I.ghost.setdefault("rt_err", {})
    if p.key not in d:
        d[p.key] = z3.Bool(I.namer.fresh(f"rt_err[{p.base}{p.suffix}]"))
    return d[p.key]


class OpaqueCallable:
    def __init__(self, what):
        self.what = what


_old_getattr_fn = getattr


def getattr(I, base, attr):          # noqa: F811
    if attr == "total_seconds" and z3.is_expr(base) and z3.is_arith(base) \
            and _clock_mode(I):
        # a duration is modelled as its number of seconds
        return E.LibFunc("timedelta.total_seconds", lambda I2: base)
    if isinstance(base, Opaque):
        # an uninspected foreign value: attribute access / method calls
        # yield further uninspected values (no effect on modelled state)
        return Opaque(f"{base.what}.{attr}")
    if isinstance(base, LoadedVal) and attr == "ghost_version":
        return base.ver
    return _old_getattr_fn(I, base, attr)


_old_compare = compare


def compare(I, op, a, b):            # noqa: F811
    if (isinstance(a, Opaque) or isinstance(b, Opaque)) and not isinstance(
            op, (ast.Is, ast.IsNot)):
        if a is None or b is None:
            return _old_compare(I, op, a, b)
        return I.fresh_const("opaque_cmp", z3.BoolSort())
    return _old_compare(I, op, a, b)


@lib("datetime.timedelta")
def _timedelta(I, *a, **k):
    if _clock_mode(I):
        if not a and not k:
            return z3.RealVal(0)
        if not a and set(k) == {"seconds"}:
            return to_real(_val(k["seconds"]))
        raise Unsupported("timedelta(...) with these arguments")
    return Opaque("timedelta")


# ------------------------------------------------ C07: calculus helpers
@lib("numpy.errstate")
def _np_errstate(I, **kw):
    return Opaque("errstate")


@lib("numpy.divide")
def _np_divide(I, a, b, **kw):
    return binop(I, ast.Div(), a, b)


def deriv(t, x):
    """d t / d x for a real term built from + - * / LOGF EXPF and constants
    (sum, product, quotient, chain rules; each rule is a HasDerivAt lemma of
    Mathlib).  Anything else is outside the differentiable subset."""
    if t.eq(x):
        return z3.RealVal(1)
    if z3.is_rational_value(t) or z3.is_int_value(t):
        return z3.RealVal(0)
    if z3.is_const(t):
        return z3.RealVal(0)          # another symbol: constant w.r.t. x
    if z3.is_app(t):
        k = t.decl().kind()
        ch = t.children()
        if k == z3.Z3_OP_ADD:
            return z3.Sum(*[deriv(c, x) for c in ch])
        if k == z3.Z3_OP_SUB:
            out = deriv(ch[0], x)
            for c in ch[1:]:
                out = out - deriv(c, x)
            return out
        if k == z3.Z3_OP_UMINUS:
            return -deriv(ch[0], x)
        if k == z3.Z3_OP_MUL:
            terms = []
            for i, c in enumerate(ch):
                rest = [q for j, q in enumerate(ch) if j != i]
                prod = deriv(c, x)
                for q in rest:
                    prod = prod * q
                terms.append(prod)
            return z3.Sum(*terms)
        if k == z3.Z3_OP_DIV:
            u, v = ch
            return (deriv(u, x) * v - u * deriv(v, x)) / (v * v)
        if k == z3.Z3_OP_TO_REAL:
            return z3.RealVal(0)
        if t.decl().eq(LOGF):
            return deriv(ch[0], x) / ch[0]
        if t.decl().eq(EXPF):
            return EXPF(ch[0]) * deriv(ch[0], x)
    raise Unsupported(f"cannot differentiate {t}")


def _mentions_result(t):
    seen, stack = set(), [t]
    while stack:
        u = stack.pop()
        if u.get_id() in seen:
            continue
        seen.add(u.get_id())
        if z3.is_const(u) and u.decl().kind() == z3.Z3_OP_UNINTERPRETED \
                and u.decl().name().startswith("ret."):
            return True
        if z3.is_app(u):
            stack.extend(u.children())
    return False


@lib("spec.deriv")
def _spec_deriv(I, t, x):
    t = to_real(_val(t))
    if _mentions_result(t):
        # at a call site the callee's result is opaque: its derivative is
        # not known from the expression (only from the closed-form clauses)
        return I.fresh_const("unknown_derivative", z3.RealSort())
    return z3.simplify(deriv(t, to_real(x)))


# =====================================================================
# C08: abstract normalising flow.  A glasflow Transform in eval mode is a
# row-wise bijection pair (Tf, Dj), (Ti, Di) with Ti.Tf = id, Tf.Ti = id and
# Di(Tf x) = -Dj(x); a Distribution has log_prob = Bz and
# sample_and_log_prob = (z, Bz z).  ASSUMED of the external library (listed
# in the evidence); the nessai wrappers are verified against it.
# =====================================================================
XS_ = usort("X")
ZS_ = usort("Zs")
FL_TF = z3.Function("Tf", XS_, ZS_)
FL_DJ = z3.Function("Dj", XS_, z3.RealSort())
FL_TI = z3.Function("Ti", ZS_, XS_)
FL_DI = z3.Function("Di", ZS_, z3.RealSort())
FL_BZ = z3.Function("Bz", ZS_, z3.RealSort())
FL_ALT = z3.Function("AltB", ZS_, z3.RealSort())


def _flow_axioms():
    x = z3.Const("x!fl", XS_)
    z = z3.Const("z!fl", ZS_)
    return [
        z3.ForAll([x], z3.And(FL_TI(FL_TF(x)) == x,
                              FL_DI(FL_TF(x)) == -FL_DJ(x)),
                  patterns=[FL_TF(x)]),
        z3.ForAll([z], z3.And(FL_TF(FL_TI(z)) == z,
                              FL_DJ(FL_TI(z)) == -FL_DI(z)),
                  patterns=[FL_TI(z)]),
    ]


_BG.extend(_flow_axioms())

for _nm, _fn in (("Tf", FL_TF), ("Dj", FL_DJ), ("Ti", FL_TI), ("Di", FL_DI),
                 ("Bz", FL_BZ), ("AltB", FL_ALT)):
    LIB["spec." + _nm] = E.LibFunc(
        "spec." + _nm, (lambda I, v, _fn=_fn: _fn(_val(v))))


@lib("torch.inference_mode", "torch.no_grad")
def _torch_inference_mode(I, *a, **k):
    return Opaque("torch-context")


@lib("torch.from_numpy")
def _torch_from_numpy(I, a):
    # value preserving view of the array (dtype casts: numerics not modelled)
    return a


@lib("torch.get_default_dtype")
def _torch_default_dtype(I):
    return Opaque("torch-dtype")


for _m in ("detach", "cpu", "numpy", "float", "double", "clone", "type",
           "to"):
    METHODS[("seq", _m)] = (lambda I, b: E.LibFunc(
        "tensor.identity", lambda I2, *a, **k: b))


# ---- C08 proposal layer: abstract reparameterisation --------------------
# physical space P <-> primed space X; Rf/Ri with log-Jacobians RJ/RiJ.
# The bijection laws are *assumed* of the configured reparameterisation
# (C07 proves them for the elementary maps; FlowProposal.verify_rescaling
# tests them at run time); they are only used to restate results.
PS_ = usort("P")
RP_F = z3.Function("Rf", PS_, XS_)
RP_J = z3.Function("RJ", PS_, z3.RealSort())
RP_I = z3.Function("Ri", XS_, PS_)
RP_IJ = z3.Function("RiJ", XS_, z3.RealSort())
INB = z3.Function("InBounds", PS_, z3.BoolSort())


def _rescale_axioms():
    p = z3.Const("p!rp", PS_)
    x = z3.Const("x!rp", XS_)
    return [
        z3.ForAll([p], z3.And(RP_I(RP_F(p)) == p,
                              RP_IJ(RP_F(p)) == -RP_J(p)),
                  patterns=[RP_F(p)]),
        z3.ForAll([x], z3.And(RP_F(RP_I(x)) == x,
                              RP_J(RP_I(x)) == -RP_IJ(x)),
                  patterns=[RP_I(x)]),
    ]


_BG.extend(_rescale_axioms())
for _nm, _fn in (("Rf", RP_F), ("RJ", RP_J), ("Ri", RP_I), ("RiJ", RP_IJ),
                 ("InBounds", INB)):
    LIB["spec." + _nm] = E.LibFunc(
        "spec." + _nm, (lambda I, v, _fn=_fn: _fn(_val(v))))


@method("seq", "ndim", prop=True)
def _seq_ndim(I, b):
    v = _val(b)
    # a sequence of abstract points is a 2-d array (one row per point)
    return 2 if str(v.elem).startswith("Sort(") else 1


# =====================================================================
# C03: dictionaries with integer keys inserted in the order -1, 0, 1, ...
# (the proposal-weight and sample-count dictionaries of the importance
# sampler).  Value: the SymSeq of values in insertion order, position p <->
# key p - 1.  A store with a key that is neither present nor the next key
# is a definite failure of this representation (obligation
# `dense_key_order`): the proof that weights and density-table columns stay
# aligned relies on exactly that order, because np.fromiter(d.values())
# follows insertion order.
# =====================================================================
class IDictView:
    def __init__(self, cell, what):
        self.cell, self.what = cell, what


def idict_get(I, val, key):
    k = to_int(_val(key))
    n = to_int(val.length)
    I.oblige(f"key_present@{I.cur_line}", z3.And(-1 <= k, k < n - 1),
             "safety")
    return val.get(k + 1)


def idict_set(I, cell, key, v):
    val = cell.read()
    k = to_int(_val(key))
    n = to_int(val.length)
    v = _coerce_elem(v, val.elem)
    present = z3.And(-1 <= k, k < n - 1)
    if I.spec:
        raise Unsupported("store in a contract expression")
    if I.fork(present):
        cell.write(SymSeq(val.length, lambda i: ite(to_int(i) == k + 1, v,
                                                    val.get(i)), val.elem))
        return
    I.oblige(f"dense_key_order@{I.cur_line}", k == n - 1, "safety")
    cell.write(SymSeq(n + 1, lambda i: ite(to_int(i) == n, v, val.get(i)),
                      val.elem))


for _w in ("values", "items", "keys"):
    METHODS[("idict", _w)] = (lambda I, b, _w=_w: E.LibFunc(
        f"idict.{_w}", lambda I2, _w=_w, b=b: IDictView(b, _w)))


@method("idict", "update")
def _idict_update(I, b, other):
    o = other
    if not (isinstance(o, Cell) and o.kind == "idict"):
        raise Unsupported("dict.update with a non-IDict argument")
    d, e = b.read(), o.read()
    dn, en = to_int(d.length), to_int(e.length)
    # e's keys -1..en-2 overwrite; keys of e beyond d's are appended in e's
    # (= increasing) order, so the result is dense-ordered again
    b.write(SymSeq(z3.If(en > dn, en, dn),
                   lambda i: ite(to_int(i) < en, e.get(i), d.get(i)),
                   d.elem))


@method("idict", "copy")
def _idict_copy(I, b):
    return Cell("idict", b.read())


@lib("numpy.fromiter")
def _np_fromiter(I, it, dtype=None, **kw):
    if isinstance(it, IDictView) and it.what == "values":
        v = it.cell.read()
        return Cell("arr", SymSeq(v.length, v.get, "Real"
                                  if v.elem in ("Real", "Int") else v.elem))
    raise Unsupported("np.fromiter of a general iterable")


@lib("numpy.isclose")
def _np_isclose(I, a, b, rtol=1e-05, atol=1e-08, **kw):
    a, b = to_real(_val(a)), to_real(_val(b))
    from fractions import Fraction
    tol = z3.RealVal(str(Fraction(atol))) + \
        z3.RealVal(str(Fraction(rtol))) * z3.If(b >= 0, b, -b)
    d = a - b
    return z3.And(d <= tol, -d <= tol)


_dict_comprehension0 = dict_comprehension


def dict_comprehension(I, node, env):
    """{k: f(k, v) for k, v in d.items()} over an IDict: the same keys in the
    same order, values mapped."""
    if len(node.generators) == 1:
        g = node.generators[0]
        it = I.eval(g.iter, env)
        if isinstance(it, IDictView) and it.what == "items":
            if g.ifs or not (isinstance(g.target, ast.Tuple) and
                             len(g.target.elts) == 2 and
                             isinstance(node.key, ast.Name) and
                             node.key.id == g.target.elts[0].id):
                raise Unsupported("dict comprehension over an IDict that "
                                  "changes the keys")
            src = it.cell.read()
            kn, vn = (e.id for e in g.target.elts)

            def get(i, src=src):
                env2 = dict(env)
                env2[kn] = to_int(i) - 1
                env2[vn] = src.get(i)
                return I.eval(node.value, env2)
            probe = get(z3.Int(I.namer.fresh("q_dc")))
            elem = "Real" if (is_z3(probe) and z3.is_real(probe)) or \
                isinstance(probe, float) else src.elem
            out = SymSeq(src.length, get, elem)
            if is_z3(probe) and any(probe.eq(q) for q in INT_QUOTIENTS):
                # values that are quotients of integers are not NaN
                I.assume(forall_idx(I, src.length,
                                    lambda k: to_real(out.get(k)) != NANV))
            return Cell("idict", out)
        return _dict_comprehension0_with(I, node, env, it)
    return _dict_comprehension0(I, node, env)


def _dict_comprehension0_with(I, node, env, it):
    g = node.generators[0]
    conc = concrete_iter(I, it, must=True)
    out = {}
    for item in conc:
        env2 = dict(env)
        I.assign(g.target, item, env2)
        ok = True
        for cond in g.ifs:
            if not I.decide(I.eval(cond, env2)):
                ok = False
                break
        if ok:
            out[I.eval(node.key, env2)] = I.eval(node.value, env2)
    return out


# ---- 2-D density tables: number of columns, column vectors, row-wise
# ---- weighted logsumexp, appending a column --------------------------
def tbl_ncol(row):
    f = z3.Function("NCOL", row.sort(), z3.IntSort())
    return f(row)


class ColVal:
    """v[:, np.newaxis]: a column vector (n x 1)"""

    def __init__(self, seq):
        self.seq = seq


LIB["spec.ncol"] = E.LibFunc("spec.ncol", lambda I, r: tbl_ncol(_val(r)))
LIB["spec.col"] = E.LibFunc("spec.col",
                            lambda I, r, j: tbl_col(_val(r), to_int(_val(j))))


def is_tbl(v):
    return isinstance(v, SymSeq) and isinstance(v.elem, str) and \
        v.elem.startswith("Sort(") and v.elem != "Sort(P)" and \
        v.elem not in ("Sort(X)", "Sort(Zs)")


def tbl_shape(I, v):
    """(rows, columns) of a rectangular table: every row has `nc` columns"""
    nc = I.fresh_const("ncols", z3.IntSort())
    I.assume(nc >= 0)
    I.assume(forall_idx(I, v.length, lambda k: tbl_ncol(v.get(k)) == nc))
    return (v.length, nc)


def tbl_append_col(I, tbl, col):
    I.oblige(f"concat_rows@{I.cur_line}",
             to_int(tbl.length) == to_int(col.length), "safety")
    srt = usort(parse_type(tbl.elem)[1])
    f = z3.Function(I.namer.fresh("tblrow"), z3.IntSort(), srt)
    n = tbl.length
    j = z3.Int(I.namer.fresh("q_j"))
    I.assume(forall_idx(I, n, lambda i: z3.And(
        tbl_ncol(f(i)) == tbl_ncol(tbl.get(i)) + 1,
        tbl_col(f(i), tbl_ncol(tbl.get(i))) == to_real(col.get(i)))))
    i = z3.Int(I.namer.fresh("q_i"))
    I.assume(z3.ForAll([i, j], z3.Implies(
        z3.And(0 <= i, i < to_int(n), 0 <= j, j < tbl_ncol(tbl.get(i))),
        tbl_col(f(i), j) == tbl_col(tbl.get(i), j))))
    return Cell("arr", SymSeq(n, lambda q: f(to_int(q)), tbl.elem))


def tbl_logsumexp(I, tbl, b):
    """logsumexp(tbl, b=b, axis=1): one value per row"""
    nb = to_int(b.length)
    I.oblige(f"broadcast_weights@{I.cur_line}", forall_idx(
        I, tbl.length, lambda i: tbl_ncol(tbl.get(i)) == nb), "lib_requires")

    def get(i):
        row = tbl.get(i)
        return LOGF(sum_term(I, 0, nb, lambda k: to_real(b.get(k)) *
                             EXPI(I, tbl_col(row, k))))
    return Cell("arr", SymSeq(tbl.length, get, "Real"))


# ---- C03: abstract per-level proposal densities ---------------------------
# LPX(k, x'): log-density of the level-k flow at the primed point x'
# (k = -1: the initial uniform proposal on the unit hypercube, density 1).
LPX = z3.Function("LPX", z3.IntSort(), XS_, z3.RealSort())


class PFun:
    """x' -> LPX(it, x') as a function value"""

    def __init__(self, it):
        self.it = it

    def __call__(self, x):
        return LPX(self.it, x)

    def domain(self, i):
        return XS_


LIB["spec.LPX"] = E.LibFunc(
    "spec.LPX", lambda I, it, x: LPX(to_int(_val(it)), _val(x)))
LIB["spec.LPXfun"] = E.LibFunc(
    "spec.LPXfun", lambda I, it: FuncVal(PFun(to_int(_val(it))), "LPX"))


@lib("spec.lemma_sum_split")
def _lemma_sum_split(I, t, k):
    """Lean: sum_split_ico -- a range sum splits around one index."""
    lam, lo, hi = _sum_parts(t)
    k = to_int(_val(k))
    I.stats.lib_used.add("lemma:sum_split")
    return z3.Implies(z3.And(0 <= lo, lo <= k, k < hi),
                      t == SUMA(lam, lo, k) + lam_at(lam, k) +
                      SUMA(lam, k + 1, hi))


@lib("spec.lemma_sum_last")
def _lemma_sum_last(I, t):
    """Lean: sum_last_ico -- peel the last term of a non-empty range."""
    lam, lo, hi = _sum_parts(t)
    I.stats.lib_used.add("lemma:sum_last")
    return z3.Implies(z3.And(0 <= lo, lo < hi),
                      t == SUMA(lam, lo, hi - 1) + lam_at(lam, hi - 1))


@lib("spec.lemma_sum_mul")
def _lemma_sum_mul(I, t1, t2, c):
    """Lean: sum_mul_ico -- a pointwise constant factor comes out."""
    l1, lo1, hi1 = _sum_parts(t1)
    l2, lo2, hi2 = _sum_parts(t2)
    c = to_real(_val(c))
    k = z3.Int(I.namer.fresh("q_sm"))
    I.stats.lib_used.add("lemma:sum_mul")
    return z3.Implies(z3.And(
        0 <= lo1, lo1 == lo2, hi1 == hi2,
        z3.ForAll([k], z3.Implies(z3.And(lo1 <= k, k < hi1),
                                  lam_at(l1, k) == c * lam_at(l2, k)))),
        t1 == c * t2)


LIB["spec.isclose"] = LIB["numpy.isclose"]


@lib("spec.lemma_sum_div")
def _lemma_sum_div(I, t1, t2, c):
    """Lean: sum_div_ico -- a pointwise constant divisor comes out."""
    l1, lo1, hi1 = _sum_parts(t1)
    l2, lo2, hi2 = _sum_parts(t2)
    c = to_real(_val(c))
    k = z3.Int(I.namer.fresh("q_sd"))
    I.stats.lib_used.add("lemma:sum_div")
    return z3.Implies(z3.And(
        0 <= lo1, lo1 == lo2, hi1 == hi2,
        z3.ForAll([k], z3.Implies(z3.And(lo1 <= k, k < hi1),
                                  lam_at(l1, k) == lam_at(l2, k) / c))),
        t1 == t2 / c)


@lib("spec.mixrow")
def _spec_mixrow(I, wd, row):
    """sum_j w[j-1] * exp(col(row, j)) over all entries of the weight dict,
    as a *named* function of the row (RS_w(row), defined by a quantified
    axiom): equal rows then give equal mixtures by congruence, without any
    reasoning about the sum."""
    w = wd.read() if isinstance(wd, Cell) else _val(wd)
    row = _val(row)
    return _mixrow_fn(I, w, row.sort())(row)


def _mixrow_fn(I, w, row_sort):
    cache = I.ghost.setdefault("mixrow", {})
    ent = cache.get(id(w))
    if ent is None:
        rs = z3.Function(I.namer.fresh("RS"), row_sort, z3.RealSort())
        r = z3.Const(I.namer.fresh("q_r"), row_sort)
        body = sum_term(I, 0, w.length, lambda k: to_real(w.get(k)) *
                        EXPI(I, tbl_col(r, k)))
        I.pc.append(z3.ForAll([r], rs(r) == body, patterns=[rs(r)]))
        ent = (rs, w)
        cache[id(w)] = ent
    return ent[0]


def as_term(I, v):
    """a z3 term for a trigger expression"""
    v = _val(v)
    if isinstance(v, StrVal):
        return v.term
    return to_z3(v)


# ---- more 2-D table operations (C03: compute_log_Q / draw) ---------------
_as_seq_prev = as_seq


def as_seq(I, it):                       # noqa: F811
    if isinstance(it, IDictView):
        v = it.cell.read()
        if it.what == "values":
            return v
        if it.what == "keys":
            return SymSeq(v.length, lambda i: to_int(i) - 1, "Int")
        raise Unsupported("iteration over dict items")
    return _as_seq_prev(I, it)


def _fresh_tbl(I, n, name="tbl", elem="Sort(QRow)"):
    srt = usort(parse_type(elem)[1])
    f = z3.Function(I.namer.fresh(name), z3.IntSort(), srt)
    return f, SymSeq(n, lambda q: f(to_int(q)), elem)


_np_zeros_1d = LIB["numpy.zeros"].fn


@lib("numpy.zeros", "numpy.empty")
def _np_zeros2(I, shape, dtype=None, **kw):
    if isinstance(shape, (list, tuple)) and len(shape) == 2 and \
            dtype is None and not kw:
        n, m = shape
        f, seq = _fresh_tbl(I, n, "zeros")
        j = z3.Int(I.namer.fresh("q_j"))
        i = z3.Int(I.namer.fresh("q_i"))
        I.assume(forall_idx(I, n, lambda q: tbl_ncol(f(q)) == to_int(m)))
        I.assume(z3.ForAll([i, j], z3.Implies(
            z3.And(0 <= i, i < to_int(n), 0 <= j, j < to_int(m)),
            tbl_col(f(i), j) == 0), patterns=[tbl_col(f(i), j)]))
        return Cell("arr", seq)
    return _np_zeros_1d(I, shape, dtype, **kw)


def tbl_add_col(I, tbl, col):
    """tbl + v[:, np.newaxis]: the column vector is added to every column"""
    I.oblige(f"broadcast_rows@{I.cur_line}",
             to_int(tbl.length) == to_int(col.length), "safety")
    f, seq = _fresh_tbl(I, tbl.length, "tbladd", tbl.elem)
    i = z3.Int(I.namer.fresh("q_i"))
    j = z3.Int(I.namer.fresh("q_j"))
    n = to_int(tbl.length)
    I.assume(forall_idx(I, n, lambda q: tbl_ncol(f(q)) ==
                        tbl_ncol(tbl.get(q))))
    I.assume(z3.ForAll([i, j], z3.Implies(
        z3.And(0 <= i, i < n, 0 <= j, j < tbl_ncol(tbl.get(i))),
        tbl_col(f(i), j) == tbl_col(tbl.get(i), j) + to_real(col.get(i))),
        patterns=[tbl_col(f(i), j)]))
    return Cell("arr", seq)


def tbl_store_cols(I, base, lo, hi, src):
    """tbl[:, lo:hi] = src (src a table with hi - lo columns)"""
    tbl = base.read()
    n = to_int(tbl.length)
    lo, hi = to_int(lo), to_int(hi)
    I.oblige(f"assign_rows@{I.cur_line}", to_int(src.length) == n, "safety")
    I.oblige(f"assign_cols@{I.cur_line}", forall_idx(
        I, n, lambda q: z3.And(0 <= lo, lo <= hi,
                               hi <= tbl_ncol(tbl.get(q)),
                               tbl_ncol(src.get(q)) == hi - lo)), "safety")
    f, seq = _fresh_tbl(I, tbl.length, "tblset", tbl.elem)
    i = z3.Int(I.namer.fresh("q_i"))
    j = z3.Int(I.namer.fresh("q_j"))
    I.assume(forall_idx(I, n, lambda q: tbl_ncol(f(q)) ==
                        tbl_ncol(tbl.get(q))))
    I.assume(z3.ForAll([i, j], z3.Implies(
        z3.And(0 <= i, i < n, 0 <= j, j < tbl_ncol(tbl.get(i))),
        tbl_col(f(i), j) == z3.If(z3.And(lo <= j, j < hi),
                                  tbl_col(src.get(i), j - lo),
                                  tbl_col(tbl.get(i), j))),
        patterns=[tbl_col(f(i), j)]))
    base.write(seq)


_binop_prev2 = binop


def binop(I, op, a, b):      # noqa: F811
    if isinstance(op, (ast.Add, ast.Sub)):
        av = _val(a) if not isinstance(a, ColVal) else a
        if isinstance(b, ColVal) and isinstance(av, SymSeq) and is_tbl(av):
            col = b.seq
            if isinstance(op, ast.Sub):
                col = SymSeq(col.length, lambda i, c=col: -to_real(c.get(i)),
                             "Real")
            return tbl_add_col(I, av, col)
    return _binop_prev2(I, op, a, b)


_setitem_prev = setitem


def setitem(I, base, key, value):        # noqa: F811
    if isinstance(base, Cell) and base.kind == "arr" and \
            isinstance(base.value, SymSeq) and is_tbl(base.value) and \
            isinstance(key, tuple) and len(key) == 2 and _full(key[0]) and \
            isinstance(key[1], slice) and key[1].step is None:
        v = _val(value)
        if not (isinstance(v, SymSeq) and is_tbl(v)):
            raise Unsupported("column store of a non-table")
        return tbl_store_cols(I, base, key[1].start or 0, key[1].stop, v)
    return _setitem_prev(I, base, key, value)


_isnan_prev = LIB["numpy.isnan"].fn
_isfinite_prev = LIB["numpy.isfinite"].fn


def _abstract_flags(I, x, what):
    f = z3.Function(I.namer.fresh(what), z3.IntSort(), z3.BoolSort())
    return Cell("arr", SymSeq(x.length, lambda i: f(to_int(i)), "Bool"))


@lib("numpy.isnan")
def _isnan2(I, x):
    v = _val(x)
    if isinstance(v, SymSeq) and str(v.elem).startswith("Sort("):
        # element-wise test on abstract points / rows: uninterpreted
        return _abstract_flags(I, v, "isnan_pt")
    return _isnan_prev(I, x)


@lib("numpy.isfinite")
def _isfinite2(I, x):
    v = _val(x)
    if isinstance(v, SymSeq) and str(v.elem).startswith("Sort("):
        return _abstract_flags(I, v, "isfinite_pt")
    return _isfinite_prev(I, x)


LIB["spec.isnan"] = LIB["numpy.isnan"]


@method("seq", "any")
def _seq_any(I, b, **kw):
    return _any(I, b)


@method("seq", "all")
def _seq_all(I, b, **kw):
    # (axis=1 on an array of abstract points: one flag per point, which is
    # what the abstract element-wise test already produced)
    if kw.get("axis") == 1:
        return b
    return _all(I, b)


# how torch.load fails on a torn (truncated) file depends on how much of it
# was written (measured on the installed torch: 0 bytes -> EOFError, 1-3
# bytes -> pickle.UnpicklingError, longer prefixes -> RuntimeError).  The
# torn state carries an uninterpreted kind; recovery code must handle all.
TORN_KIND = z3.Function("torn_kind", z3.IntSort(), z3.IntSort())


@lib("spec.fs_torn_kind")
def _spec_fs_torn_kind(I, p):
    """0: empty, 1: too short for the unpickler, 2: longer prefix"""
    pv = p if isinstance(p, PathVal) else None
    key = StrVal.code(f"{pv.base}|{pv.suffix}") if pv is not None else \
        StrVal.code(str(p))
    k = TORN_KIND(z3.IntVal(key))
    return z3.If(k <= 0, 0, z3.If(k == 1, 1, 2))


# ---- structured dtypes as values (np.zeros(n, dtype=self.dtype)) -----------
class DTypeVal:
    def __init__(self, fields):
        self.fields = fields          # [(name, type descriptor)]


INUNIT = z3.Function("InUnit", PS_, z3.BoolSort())
LIB["spec.InUnit"] = E.LibFunc("spec.InUnit", lambda I, v: INUNIT(_val(v)))

# np.clip(x, 0.0, 1.0) on unit-hypercube points: the projection onto the
# closed unit hypercube: the identity exactly on the points already inside
CLIPU = z3.Function("ClipUnit", PS_, PS_)
_pc_ = z3.Const("p!clip", PS_)
_BG.append(z3.ForAll([_pc_], (CLIPU(_pc_) == _pc_) == INUNIT(_pc_),
                     patterns=[CLIPU(_pc_)]))


@lib("numpy.clip")
def _np_clip(I, x, lo, hi, **kw):
    v = _val(x)
    if isinstance(v, SymSeq) and str(v.elem) == "Sort(P)" and \
            lo == 0.0 and hi == 1.0 and not kw:
        return Cell("arr", SymSeq(v.length, lambda i: CLIPU(v.get(i)),
                                  v.elem))
    raise Unsupported("numpy.clip on these arguments")


_np_zeros_2 = LIB["numpy.zeros"].fn


@lib("numpy.zeros", "numpy.empty")
def _np_zeros3(I, shape, dtype=None, **kw):
    if isinstance(dtype, DTypeVal) and not isinstance(shape, (list, tuple)):
        n = shape
        return Cell("arr", SymStruct(n, {
            f: I.fresh_seq(t, I.namer.fresh(f"zeros.{f}"), n)
            for f, t in dtype.fields}))
    return _np_zeros_2(I, shape, dtype, **kw)


LLF = z3.Function("LL", PS_, z3.RealSort())
LIB["spec.LL"] = E.LibFunc("spec.LL", lambda I, v: LLF(_val(v)))


# ---- C09: pools ------------------------------------------------------------
@lib("numpy.random.permutation")
def _np_permutation(I, n):
    """a permutation of range(n): n distinct values covering [0, n)"""
    if not (is_z3(n) or isinstance(n, int)):
        raise Unsupported("np.random.permutation of an array")
    n = to_int(n)
    f = z3.Function(I.namer.fresh("perm"), z3.IntSort(), z3.IntSort())
    g = z3.Function(I.namer.fresh("perm_inv"), z3.IntSort(), z3.IntSort())
    i = z3.Int(I.namer.fresh("q_i"))
    I.assume(z3.ForAll([i], z3.Implies(z3.And(0 <= i, i < n), z3.And(
        0 <= f(i), f(i) < n, g(f(i)) == i)), patterns=[f(i)]))
    I.assume(z3.ForAll([i], z3.Implies(z3.And(0 <= i, i < n), z3.And(
        0 <= g(i), g(i) < n, f(g(i)) == i)), patterns=[g(i)]))
    return Cell("arr", SymSeq(n, lambda q: f(to_int(q)), "Int"))


@method("seq", "tolist")
def _seq_tolist(I, b):
    return Cell("list", _val(b))


LPF = z3.Function("LPr", PS_, z3.RealSort())
LIB["spec.LPr"] = E.LibFunc("spec.LPr", lambda I, v: LPF(_val(v)))
LIB["spec.distinct"] = E.LibFunc("spec.distinct", lambda I, s: _distinct(I, s))


def _distinct(I, s):
    s = as_seq(I, s)
    i = z3.Int(I.namer.fresh("q_i"))
    j = z3.Int(I.namer.fresh("q_j"))
    n = to_int(s.length)
    return z3.ForAll([i, j], z3.Implies(
        z3.And(0 <= i, i < j, j < n), s.get(i) != s.get(j)))


@lib("spec.count")
def _spec_count(I, mask):
    """number of True entries of a boolean array (the length of a[mask])"""
    v = _val(mask)
    return mask_maps(I, v)[2]


@lib("numpy.lib.recfunctions.repack_fields")
def _repack_fields(I, a, **kw):
    """memory re-packing of a structured array: values and fields kept"""
    return a


# ---- C20: torch data loading ------------------------------------------------
@lib("torch.utils.data.TensorDataset")
def _tensor_dataset(I, *tensors):
    return Opaque("TensorDataset")


@lib("torch.utils.data.DataLoader")
def _data_loader(I, dataset, batch_size=1, shuffle=False, **kw):
    """torch raises ValueError unless batch_size is None or a positive
    integer (DataLoader -> BatchSampler)"""
    b = batch_size
    if isinstance(b, OptVal):
        I.oblige(f"dataloader_batch_size@{I.cur_line}",
                 z3.Or(z3.Not(b.present), to_int(b.value) >= 1),
                 "lib_requires")
    elif b is not None:
        I.oblige(f"dataloader_batch_size@{I.cur_line}", to_int(b) >= 1,
                 "lib_requires")
    return Opaque("DataLoader")


@lib("spec.lemma_sum_single")
def _lemma_sum_single(I, t):
    """Lean: sum_single_ico -- a range of length one"""
    lam, lo, hi = _sum_parts(t)
    I.stats.lib_used.add("lemma:sum_single")
    return z3.Implies(z3.And(0 <= lo, hi == lo + 1), t == lam_at(lam, lo))


@lib("spec.lemma_mixrow_single")
def _lemma_mixrow_single(I, wd):
    """the weighted mixture over ONE proposal is that proposal's term
    (Lean: sum_single_ico), for every row"""
    w = wd.read() if isinstance(wd, Cell) else _val(wd)
    rs = _mixrow_fn(I, w, usort("QRow"))
    r = z3.Const(I.namer.fresh("q_r"), rs.domain(0))
    I.stats.lib_used.add("lemma:sum_single")
    w0 = to_real(w.get(0))
    e0 = EXPI(I, tbl_col(r, 0))
    # (second conjunct: the unit weight spelt out, so that no product of two
    # uninterpreted terms is left for the arithmetic solver)
    return z3.Implies(to_int(w.length) == 1, z3.ForAll(
        [r], z3.And(rs(r) == w0 * e0, z3.Implies(w0 == 1, rs(r) == e0)),
        patterns=[rs(r)]))


_np_ones_1d = LIB["numpy.ones"].fn


@lib("numpy.ones")
def _np_ones2(I, shape, dtype=None, **kw):
    if isinstance(shape, (list, tuple)) and len(shape) == 2 and \
            dtype is None and not kw:
        n, m = shape
        f, seq = _fresh_tbl(I, n, "ones")
        j = z3.Int(I.namer.fresh("q_j"))
        i = z3.Int(I.namer.fresh("q_i"))
        I.assume(forall_idx(I, n, lambda q: tbl_ncol(f(q)) == to_int(m)))
        I.assume(z3.ForAll([i, j], z3.Implies(
            z3.And(0 <= i, i < to_int(n), 0 <= j, j < to_int(m)),
            tbl_col(f(i), j) == 1), patterns=[tbl_col(f(i), j)]))
        return Cell("arr", seq)
    return _np_ones_1d(I, shape, dtype, **kw)


@lib("os.remove", "os.unlink")
def _os_remove(I, p):
    st = fs_get(I, p)
    if not I.spec and I.fork(st == FileState.Absent):
        raise E.RaiseEx("FileNotFoundError", I.cur_line)
    fs_set(I, p, FileState.Absent)


@lib("numpy.reciprocal")
def _np_reciprocal(I, x, **kw):
    """1/x -- in the array's own dtype: for an INTEGER array the result is
    the integer quotient (0 for |x| > 1)"""
    v = _val(x)
    if isinstance(v, SymSeq):
        if v.elem == "Int":
            def g(i):
                t = to_int(v.get(i))
                return z3.If(t == 1, 1, z3.If(t == -1, -1, 0))
            return Cell("arr", SymSeq(v.length, g, "Int"))
        return Cell("arr", SymSeq(v.length,
                                  lambda i: 1 / to_real(v.get(i)), "Real"))
    if is_z3(v) and z3.is_int(v):
        return z3.If(v == 1, 1, z3.If(v == -1, -1, 0))
    return 1 / to_real(v)


# ---- field order of structured arrays ------------------------------------------
class _DTypeOf:
    def __init__(self, names):
        self.names = tuple(names)


@method("struct", "dtype", prop=True)
def _struct_dtype(I, b):
    return _DTypeOf(_val(b).fields.keys())


_getattr_prev = getattr


def getattr(I, base, attr, *a):          # noqa: A001,F811
    if isinstance(base, _DTypeOf) and attr == "names":
        return base.names
    return _getattr_prev(I, base, attr, *a)


@lib("spec.field_names")
def _spec_field_names(I, arr):
    """the field names of a structured array, in dtype order (numpy assigns
    structured values to structured slots BY POSITION, so the order matters)"""
    return list(_val(arr).fields.keys())


@lib("numpy.nan_to_num")
def _np_nan_to_num(I, x, **kw):
    """NaN -> 0, -inf / +inf -> very large finite numbers (an ordinary array
    again: nothing marks it as the result of a subtraction)"""
    v = _val(x)
    big = INF - 1

    def g(i):
        t = to_real(v.get(i))
        return z3.If(t == NANV, z3.RealVal(0),
                     z3.If(t == -INF, -big, z3.If(t == INF, big, t)))
    return Cell("arr", SymSeq(v.length, g, "Real"))
