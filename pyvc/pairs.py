"""Lemmas over pairs of contracts: the second function is applied to the
result of the first *through their contracts only* (each callee's
preconditions are obligations, its postconditions assumptions), and the
stated facts (round trip, Jacobians cancel) are proved from those."""
from __future__ import annotations

import time

from . import contracts as C
from . import engine as E
from .front import Source
from .values import bz
from .verify import Verifier, discharge


class _Synthetic(C.Contract):
    pass


def pair_obligations(pid, specs, tier="quick"):
    C.load_all()
    out = []
    for sp in specs:
        t0 = time.time()
        V = Verifier(tier)
        V.log_domain = True
        c1 = C.CONTRACTS[sp["first"]]
        c2 = C.CONTRACTS[sp["second"]]
        syn = _Synthetic(c1.file, f"pair:{sp['name']}", props=[pid])
        I = E.Interp(V, syn, [])
        env = {"__module__": c1.file}
        ident = f"pair::{sp['name']}"
        try:
            obj = None
            if sp.get("self_shape"):
                obj = I.fresh_obj(sp["self_shape"], "self")
                env["self"] = obj
            for n, ty in sp["params"].items():
                env[n] = I.fresh(ty, n)
            env0 = I.snapshot(env)
            I.old_env = env0
            for e in sp.get("assume", []):
                I.assume(bz(I.eval_spec(e, env)))
            fn1, _ = Source.get(c1.file).find(c1.func)
            fn2, _ = Source.get(c2.file).find(c2.func)
            I.cur_line = fn1.lineno
            r1 = I.apply_contract(c1, fn1, obj if c1.cls else None,
                                  [I.eval_spec(a, env) for a in sp["args1"]],
                                  {})
            env["r1"] = r1
            I.cur_line = fn2.lineno
            I.old_env = env0
            r2 = I.apply_contract(c2, fn2, obj if c2.cls else None,
                                  [I.eval_spec(a, env) for a in sp["args2"]],
                                  {})
            env["r2"] = r2
            I.old_env = env0
            for j, e in enumerate(sp["prove"]):
                I.oblige(f"{sp['name']}:prove[{j}]", I.eval_spec(e, env),
                         "pair_lemma", fn1.lineno)
            discharge(I.obls, V.timeout_ms, use_cvc5=True)
        except Exception as ex:       # noqa: BLE001
            out.append({"ident": ident, "status": "error",
                        "backend": "z3", "note": repr(ex)})
            continue
        if V.vacuity_alarms:
            out.append({"ident": ident, "status": "error", "backend": "z3",
                        "note": "vacuous context: " +
                        "; ".join(V.vacuity_alarms)})
            continue
        bad = [o for o in I.obls if o.status != "discharged"]
        res = {"ident": ident, "function": f"{c1.func} ; {c2.func}",
               "file": c1.file, "kind": "pair_lemma", "backend": "z3",
               "obligations": len(I.obls), "time": time.time() - t0,
               "detail": {"first": c1.func, "second": c2.func,
                          "proved": sp["prove"]}}
        if not bad:
            res["status"] = "discharged"
            out.append(res)
        else:
            # the facts that did hold still count as discharged
            good = len(I.obls) - len(bad)
            if good:
                r0 = dict(res)
                r0.update(status="discharged", obligations=good,
                          ident=ident + "(discharged part)")
                out.append(r0)
            for o in bad:
                r1_ = dict(res)
                r1_.update(
                    ident=f"{ident}::{o.name}", obligations=1,
                    status="refuted" if o.status == "refuted" else "unknown",
                    note=f"{o.name}: {o.status} ({o.solver}) {o.note}")
                out.append(r1_)
    return out
