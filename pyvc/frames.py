"""Syntactic frame inference over the call graph of a class.

may_write(cls, method) over-approximates the set of `self` attributes a method
can modify, following `self.m()` calls through the MRO read from the source.
Used to discharge the frame ("modifies") part of contracts whose bodies are
otherwise outside the symbolic subset (training, plotting, checkpointing):
the frame obligation is  inferred ∩ declared-shape ⊆ declared modifies.

Assumptions (reported): no setattr/__dict__ tricks (scanned: flagged as
unknown), callees outside the package (numpy, plotting, logging, os, builtins)
do not mutate arrays passed to them, property getters are scanned like
methods."""
from __future__ import annotations

import ast

from .front import ClassIndex

MUTATORS = {"append", "extend", "pop", "insert", "update", "clear", "sort",
            "remove", "setdefault", "popitem", "add", "discard", "fill",
            "resize", "put", "reverse", "__setitem__"}
PURE_METHODS = {"copy", "mean", "sum", "max", "min", "index", "count", "keys",
                "values", "items", "get", "total_seconds", "tolist", "astype",
                "flatten", "any", "all", "format", "lower", "upper", "join",
                "startswith", "endswith", "split", "item", "ravel", "view",
                "reshape", "squeeze", "std", "var", "cumsum", "argsort",
                "argmax", "argmin", "isEnabledFor", "debug", "info",
                "warning", "error", "critical", "exists", "strip"}
READONLY_CALLEE_ROOTS = {"np", "numpy", "logger", "logging", "os", "len",
                         "float", "int", "str", "max", "min", "sum", "abs",
                         "print", "isinstance", "enumerate", "zip", "range",
                         "list", "tuple", "dict", "set", "sorted", "any",
                         "all", "plot_indices", "plot_trace", "plt",
                         "datetime", "time", "math", "copy", "warnings",
                         "json", "hasattr", "getattr", "type", "repr",
                         "round", "bool", "logsumexp", "reversed", "iter",
                         "next", "id", "pickle", "safe_file_dump",
                         "plot_1d_comparison", "plot_live_points",
                         "plot_histogram", "nested_2d_min_max_plot",
                         "compute_indices_ks_test", "rolling_mean", "sns",
                         "filter", "map", "format", "ax", "axs", "axes", "fig",
                         "axis", "g", "pbar"}


def _self_attr(node):
    """'X' if node is self.X (or deeper self.X.y.z / self.X[...]) else
    None."""
    cur = node
    while True:
        if isinstance(cur, ast.Attribute):
            if isinstance(cur.value, ast.Name) and cur.value.id == "self":
                return cur.attr
            cur = cur.value
        elif isinstance(cur, ast.Subscript):
            cur = cur.value
        elif isinstance(cur, ast.Call):
            return None
        else:
            return None


def _root(node):
    cur = node
    while isinstance(cur, (ast.Attribute, ast.Subscript, ast.Call)):
        cur = cur.func if isinstance(cur, ast.Call) else cur.value
    return cur.id if isinstance(cur, ast.Name) else None


class FrameInfer:
    def __init__(self, attr_classes=None, immutable_attrs=()):
        self.ci = ClassIndex.get()
        self.cache = {}
        # attributes whose declared type is a python scalar: passing them
        # to a foreign call cannot mutate them
        self.immutable = set(immutable_attrs)
        # self attribute -> package class of the object it holds (from the
        # declared shapes); lets `self.state.m()` be resolved instead of
        # being counted as a write of `state`
        self.attr_classes = attr_classes or {}

    def _params_mutated(self, fn):
        names = {a.arg for a in fn.args.args[1:]}
        for node in ast.walk(fn):
            tg = []
            if isinstance(node, ast.Assign):
                tg = node.targets
            elif isinstance(node, ast.AugAssign):
                tg = [node.target]
            for t in tg:
                if isinstance(t, (ast.Subscript, ast.Attribute)) and \
                        _root(t) in names:
                    return True
            if isinstance(node, ast.Call) and isinstance(
                    node.func, ast.Attribute) and node.func.attr in \
                    MUTATORS and _root(node.func.value) in names:
                return True
        return False

    def may_write(self, cls, meth, _stack=None):
        key = (cls, meth)
        if key in self.cache:
            return self.cache[key]
        _stack = _stack or set()
        if key in _stack:
            return set(), set()
        _stack = _stack | {key}
        dcls, fn, kind = self.ci.find_method(cls, meth)
        if fn is None:
            # maybe a setter-only / dynamically attached attribute
            return set(), {f"unresolved self.{meth}()"}
        writes, unknown = set(), set()
        aliases = {}       # local name -> self attribute

        def w(attr):
            if attr is not None:
                writes.add(attr)

        for node in ast.walk(fn):
            if isinstance(node, ast.Assign):
                for t in node.targets:
                    self._target(t, w, aliases)
                if len(node.targets) == 1 and isinstance(node.targets[0],
                                                         ast.Name):
                    a = _self_attr(node.value) if isinstance(
                        node.value, (ast.Attribute,)) else None
                    if a is not None and isinstance(node.value,
                                                    ast.Attribute) and \
                            isinstance(node.value.value, ast.Name):
                        aliases[node.targets[0].id] = a
            elif isinstance(node, (ast.AugAssign, ast.AnnAssign)):
                self._target(node.target, w, aliases)
            elif isinstance(node, ast.Delete):
                for t in node.targets:
                    self._target(t, w, aliases)
            elif isinstance(node, (ast.For, ast.With)):
                tg = node.target if isinstance(node, ast.For) else None
                if tg is not None:
                    self._target(tg, w, aliases)
            elif isinstance(node, ast.Call):
                f = node.func
                if isinstance(f, ast.Name) and f.id in ("setattr",
                                                         "delattr"):
                    if node.args and isinstance(node.args[0], ast.Name) \
                            and node.args[0].id == "self":
                        unknown.add(f"{f.id}(self, ...) in {dcls}.{meth}")
                if isinstance(f, ast.Attribute):
                    base = f.value
                    if isinstance(base, ast.Name) and base.id == "self":
                        # self.m(...)
                        d2, fn2, k2 = self.ci.find_method(cls, f.attr)
                        if fn2 is not None and k2 == "method":
                            w2, u2 = self.may_write(cls, f.attr, _stack)
                            writes |= w2
                            unknown |= u2
                        elif fn2 is None:
                            # attribute holding a callable
                            pass
                    elif isinstance(base, ast.Call) and isinstance(
                            base.func, ast.Name) and \
                            base.func.id == "super":
                        w2, u2 = self._super(cls, dcls, f.attr, _stack)
                        writes |= w2
                        unknown |= u2
                    else:
                        a = _self_attr(base)
                        if a is None and isinstance(base, ast.Name) and \
                                base.id in aliases:
                            a = aliases[base.id]
                        resolved_pure = False
                        if a is not None and a in self.attr_classes and \
                                isinstance(base, ast.Attribute) and \
                                isinstance(base.value, ast.Name):
                            c2 = self.attr_classes[a]
                            d2, fn2, k2 = self.ci.find_method(c2, f.attr)
                            if fn2 is not None:
                                w2, u2 = self.may_write(c2, f.attr, _stack)
                                unknown |= u2
                                if not w2 and not self._params_mutated(fn2):
                                    resolved_pure = True
                        if resolved_pure:
                            continue
                        if a is not None and f.attr not in PURE_METHODS:
                            w(a)
                # escapes of bare self.X into foreign calls
                root = _root(f)
                is_self_call = isinstance(f, ast.Attribute) and isinstance(
                    f.value, ast.Name) and f.value.id == "self"
                container_op = isinstance(f, ast.Attribute) and (
                    f.attr in MUTATORS or f.attr in PURE_METHODS)
                if root not in READONLY_CALLEE_ROOTS and not is_self_call \
                        and not container_op:
                    for arg in list(node.args) + [k.value
                                                  for k in node.keywords]:
                        if isinstance(arg, ast.Attribute) and isinstance(
                                arg.value, ast.Name) and \
                                arg.value.id == "self":
                            # passing self.X itself (not a copy)
                            if arg.attr not in self.immutable:
                                w(arg.attr)
                        if isinstance(arg, ast.Name) and arg.id == "self":
                            unknown.add(f"self escapes to {ast.unparse(f)}"
                                        f" in {dcls}.{meth}")
            elif isinstance(node, ast.Attribute) and isinstance(
                    node.value, ast.Name) and node.value.id == "self" and \
                    isinstance(node.ctx, ast.Load):
                # property getters may have effects: scan them too
                d2, fn2, k2 = self.ci.find_method(cls, node.attr)
                if k2 == "property":
                    w2, u2 = self.may_write(cls, node.attr, _stack)
                    writes |= w2
                    unknown |= u2
            elif isinstance(node, ast.Subscript) and isinstance(
                    node.value, ast.Attribute) and node.value.attr == \
                    "__dict__":
                unknown.add(f"__dict__ access in {dcls}.{meth}")
        self.cache[key] = (writes, unknown)
        return writes, unknown

    def may_read(self, cls, meth, attrs, _stack=None, _as=None):
        """Which of `attrs` the method may READ (self.<attr> in load or
        augmented-store position), transitively through self.m() calls,
        super().m() calls and property getters.  Returns (reads, unknown):
        `unknown` lists what defeats the analysis (self escaping to a
        foreign callable, getattr(self, ...), __dict__ access)."""
        attrs = set(attrs)
        _stack = _stack or set()
        key = (cls, meth, _as)
        if key in _stack:
            return set(), set()
        _stack = _stack | {key}
        if _as is None:
            dcls, fn, kind = self.ci.find_method(cls, meth)
        else:
            dcls, fn = _as, (self.ci.classes[_as]["methods"].get(meth) or
                             self.ci.classes[_as]["properties"].get(meth))
        if fn is None:
            return set(), {f"unresolved self.{meth}"}
        reads, unknown = set(), set()
        for node in ast.walk(fn):
            if isinstance(node, ast.Attribute) and isinstance(
                    node.value, ast.Name) and node.value.id == "self":
                is_load = isinstance(node.ctx, ast.Load)
                if node.attr in attrs and is_load:
                    reads.add(node.attr)
                if is_load:
                    d2, fn2, k2 = self.ci.find_method(cls, node.attr)
                    if fn2 is not None and k2 in ("property", "method"):
                        r2, u2 = self.may_read(cls, node.attr, attrs, _stack)
                        reads |= r2
                        unknown |= u2
            elif isinstance(node, ast.AugAssign) and isinstance(
                    node.target, ast.Attribute) and isinstance(
                    node.target.value, ast.Name) and \
                    node.target.value.id == "self" and \
                    node.target.attr in attrs:
                reads.add(node.target.attr)
            elif isinstance(node, ast.Call):
                f = node.func
                if isinstance(f, ast.Name) and f.id in ("getattr", "vars"):
                    if node.args and isinstance(node.args[0], ast.Name) \
                            and node.args[0].id == "self":
                        unknown.add(f"{f.id}(self, ...) in {dcls}.{meth}")
                if isinstance(f, ast.Attribute) and isinstance(
                        f.value, ast.Call) and isinstance(
                        f.value.func, ast.Name) and \
                        f.value.func.id == "super":
                    order = self.ci.mro(cls)
                    if dcls in order:
                        for c in order[order.index(dcls) + 1:]:
                            if f.attr in self.ci.classes[c]["methods"]:
                                r2, u2 = self.may_read(cls, f.attr, attrs,
                                                       _stack, _as=c)
                                reads |= r2
                                unknown |= u2
                                break
                for arg in list(node.args) + [k.value for k in node.keywords]:
                    if isinstance(arg, ast.Name) and arg.id == "self":
                        root = _root(f)
                        if root not in READONLY_CALLEE_ROOTS and not (
                                isinstance(f, ast.Name) and
                                f.id in ("isinstance", "type", "id", "len",
                                         "super")):
                            unknown.add(f"self passed to {ast.unparse(f)} "
                                        f"in {dcls}.{meth}")
            elif isinstance(node, ast.Attribute) and node.attr == "__dict__":
                unknown.add(f"__dict__ access in {dcls}.{meth}")
        return reads, unknown

    def _super(self, cls, dcls, meth, _stack):
        order = self.ci.mro(cls)
        if dcls in order:
            for c in order[order.index(dcls) + 1:]:
                info = self.ci.classes[c]
                if meth in info["methods"]:
                    # analyse as if defined on that class
                    return self.may_write(c, meth, _stack)
        return set(), set()

    def _target(self, t, w, aliases):
        if isinstance(t, (ast.Tuple, ast.List)):
            for e in t.elts:
                self._target(e, w, aliases)
            return
        a = _self_attr(t)
        if a is not None:
            w(a)
            return
        # writes through a local alias of self.X: x[...] = / x.y =
        if isinstance(t, (ast.Subscript, ast.Attribute)):
            r = _root(t)
            if r in aliases:
                w(aliases[r])
