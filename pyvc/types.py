"""Type-descriptor parser (z3-free: shared with the replay harness)."""
import re


def _split_top(s, sep=","):
    out, depth, cur = [], 0, ""
    for ch in s:
        if ch in "([":
            depth += 1
        elif ch in ")]":
            depth -= 1
        if ch == sep and depth == 0:
            out.append(cur.strip())
            cur = ""
        else:
            cur += ch
    if cur.strip():
        out.append(cur.strip())
    return out


def parse_type(t):
    t = t.strip()
    m = re.match(r"^(\w+)\((.*)\)$", t, re.S)
    if not m:
        return (t,)
    head, body = m.group(1), m.group(2)
    if head in ("Struct", "Row"):
        fields = []
        for part in _split_top(body):
            name, ty = part.split(":", 1)
            fields.append((name.strip(), ty.strip()))
        return (head, fields)
    if head == "Tuple":
        return (head, _split_top(body))
    return (head, body.strip())
