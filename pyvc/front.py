"""Front end: locate the *real* function definitions in /repo's working tree.

Nothing is copied or rewritten: `Source` parses the file on disk on every run
and hands the `ast.FunctionDef` of the requested qualified name to the
symbolic executor.  The drop-list (statements the executor skips) is applied
by the executor and counted there; this module also builds the class index
(bases, methods, properties, class attributes) used for method resolution.
"""
from __future__ import annotations

import ast
import hashlib
import os

REPO = os.environ.get("NESSAI_REPO", "/repo")


class Source:
    _cache = {}

    def __init__(self, relpath):
        self.relpath = relpath
        self.path = os.path.join(REPO, relpath)
        with open(self.path, "r", encoding="utf-8") as fh:
            self.text = fh.read()
        self.tree = ast.parse(self.text, filename=self.path)
        self.lines = self.text.splitlines()
        self.imports = self._imports()

    @classmethod
    def get(cls, relpath):
        key = (REPO, relpath)
        if key not in cls._cache:
            cls._cache[key] = Source(relpath)
        return cls._cache[key]

    # ------------------------------------------------------------------
    def _module_name(self):
        p = self.relpath[:-3] if self.relpath.endswith(".py") else self.relpath
        parts = p.split("/")
        if parts[-1] == "__init__":
            parts = parts[:-1]
        return ".".join(parts)

    def _imports(self):
        """local name -> canonical dotted name (modules and imported
        symbols), from the module's top-level import statements (and those
        nested in try/if at top level)."""
        out = {}
        mod = self._module_name()
        pkg_parts = mod.split(".")[:-1] if not self.relpath.endswith(
            "__init__.py") else mod.split(".")

        def visit(body):
            for node in body:
                if isinstance(node, ast.Import):
                    for a in node.names:
                        out[a.asname or a.name.split(".")[0]] = (
                            a.name if a.asname else a.name.split(".")[0])
                elif isinstance(node, ast.ImportFrom):
                    if node.level:
                        base = pkg_parts[:len(pkg_parts) - (node.level - 1)]
                        modname = ".".join(base + ([node.module]
                                                   if node.module else []))
                    else:
                        modname = node.module
                    for a in node.names:
                        out[a.asname or a.name] = f"{modname}.{a.name}"
                elif isinstance(node, (ast.Try,)):
                    visit(node.body)
                    for h in node.handlers:
                        visit(h.body)
                elif isinstance(node, ast.If):
                    visit(node.body)
                    visit(node.orelse)

        visit(self.tree.body)
        return out

    # ------------------------------------------------------------------
    def find(self, qualname):
        """Return (FunctionDef, ClassDef or None) for 'func' or 'Cls.func'.
        For properties with setter the getter is returned unless the name is
        suffixed with '.setter'."""
        parts = qualname.split(".")
        want_setter = False
        if parts[-1] == "setter":
            want_setter = True
            parts = parts[:-1]
        body = self.tree.body
        cls = None
        for k, p in enumerate(parts):
            last = k == len(parts) - 1
            found = None
            for node in body:
                if last and isinstance(node, (ast.FunctionDef,
                                              ast.AsyncFunctionDef)) \
                        and node.name == p:
                    is_setter = any(
                        isinstance(d, ast.Attribute) and d.attr == "setter"
                        for d in node.decorator_list)
                    if is_setter != want_setter:
                        continue
                    found = node
                    break
                if not last and isinstance(node, ast.ClassDef) \
                        and node.name == p:
                    found = node
                    cls = node
                    break
            if found is None:
                return None, None
            body = found.body
        return found, cls

    def segment(self, node):
        return "\n".join(self.lines[node.lineno - 1:node.end_lineno])

    def sha(self, node):
        return hashlib.sha256(self.segment(node).encode()).hexdigest()


class ClassIndex:
    """Index of every class defined under nessai/: file, bases, methods,
    properties, class-level attributes, attributes assigned on self."""

    _inst = None

    def __init__(self):
        self.classes = {}
        root = os.path.join(REPO, "nessai")
        for dp, _dn, fns in os.walk(root):
            for fn in sorted(fns):
                if not fn.endswith(".py"):
                    continue
                rel = os.path.relpath(os.path.join(dp, fn), REPO)
                try:
                    src = Source.get(rel)
                except SyntaxError:
                    continue
                for node in ast.walk(src.tree):
                    if isinstance(node, ast.ClassDef):
                        self._add(rel, src, node)

    @classmethod
    def get(cls):
        if cls._inst is None or cls._inst_repo != REPO:
            cls._inst = ClassIndex()
            cls._inst_repo = REPO
        return cls._inst

    def _add(self, rel, src, node):
        info = {"file": rel, "node": node, "bases": [], "methods": {},
                "properties": {}, "setters": {}, "class_attrs": set(),
                "self_attrs": set(), "static": set(), "classmethods": set()}
        for b in node.bases:
            if isinstance(b, ast.Name):
                info["bases"].append(b.id)
            elif isinstance(b, ast.Attribute):
                info["bases"].append(b.attr)
        for st in node.body:
            if isinstance(st, ast.FunctionDef):
                decos = []
                for d in st.decorator_list:
                    if isinstance(d, ast.Name):
                        decos.append(d.id)
                    elif isinstance(d, ast.Attribute):
                        decos.append(d.attr)
                if "property" in decos or "cached_property" in decos:
                    info["properties"][st.name] = st
                elif "setter" in decos:
                    info["setters"][st.name] = st
                else:
                    info["methods"][st.name] = st
                    if "staticmethod" in decos:
                        info["static"].add(st.name)
                    if "classmethod" in decos:
                        info["classmethods"].add(st.name)
                for sub in ast.walk(st):
                    tgts = []
                    if isinstance(sub, ast.Assign):
                        tgts = sub.targets
                    elif isinstance(sub, (ast.AugAssign, ast.AnnAssign)):
                        tgts = [sub.target]
                    for t in tgts:
                        for tt in ast.walk(t):
                            if isinstance(tt, ast.Attribute) and isinstance(
                                    tt.value, ast.Name) and \
                                    tt.value.id == "self" and isinstance(
                                    tt.ctx, ast.Store):
                                info["self_attrs"].add(tt.attr)
            elif isinstance(st, ast.Assign):
                for t in st.targets:
                    if isinstance(t, ast.Name):
                        info["class_attrs"].add(t.id)
            elif isinstance(st, ast.AnnAssign):
                if isinstance(st.target, ast.Name):
                    info["class_attrs"].add(st.target.id)
        # first definition wins for duplicate class names in different files
        self.classes.setdefault(node.name, info)

    def mro(self, name):
        """Linearised bases (depth-first, left-to-right, de-duplicated) —
        adequate for nessai's single-inheritance-dominated hierarchy."""
        out, seen = [], set()

        def go(n):
            if n in seen or n not in self.classes:
                return
            seen.add(n)
            out.append(n)
            for b in self.classes[n]["bases"]:
                go(b)

        go(name)
        return out

    def find_method(self, cls, meth, after=None):
        """(defining class, FunctionDef, kind) following the MRO; `after`
        = start after that class (for super())."""
        order = self.mro(cls)
        if after is not None and after in order:
            order = order[order.index(after) + 1:]
        for c in order:
            info = self.classes[c]
            if meth in info["methods"]:
                return c, info["methods"][meth], "method"
            if meth in info["properties"]:
                return c, info["properties"][meth], "property"
        return None, None, None
