"""Contract registry.  Contracts are sidecars: plain data keyed by
(file, qualified function name).  The same expression strings are parsed by
the VC generator and evaluated at run time by the replay harness."""
from __future__ import annotations

import importlib
import os
import pkgutil

CONTRACTS = {}      # (file, qualname) -> Contract
SHAPES = {}         # shape name -> Shape
BY_QUAL = {}        # 'Class.method' / 'module.func' -> Contract


class Contract:
    def __init__(self, file, func, **kw):
        self.file = file
        self.func = func
        self.props = kw.pop("props", [])
        self.params = kw.pop("params", {})         # name -> type descriptor
        self.self_shape = kw.pop("self_shape", None)
        self.requires = kw.pop("requires", [])
        self.ensures = kw.pop("ensures", [])
        self.modifies = kw.pop("modifies", [])      # lvalue paths
        self.returns = kw.pop("returns", None)      # type descriptor
        self.loops = kw.pop("loops", {})            # ordinal -> dict
        self.raises = kw.pop("raises", {})          # ExcName -> condition
        self.hints = kw.pop("hints", [])
        self.trusted = kw.pop("trusted", False)     # assumed, body unverified
        self.trusted_reason = kw.pop("trusted_reason", "")
        self.generator = kw.pop("generator", False)
        self.verify = kw.pop("verify", not self.trusted)
        self.inline = kw.pop("inline", False)
        self.pure = kw.pop("pure", False)
        self.stmt_invariant = kw.pop("stmt_invariant", None)
        self.ghost = kw.pop("ghost", {})
        self.replay = kw.pop("replay", None)
        self.notes = kw.pop("notes", "")
        self.let = kw.pop("let", {})                # name -> expr (pre-state)
        self.cover = kw.pop("cover", [])            # must-be-reachable
        self.variant = kw.pop("variant", None)
        self.variant_name = kw.pop("variant_name", None)
        self.extra = kw
        self.cls = func.split(".")[0] if "." in func else None

    @property
    def key(self):
        if self.variant_name:
            return (self.file, f"{self.func}#{self.variant_name}")
        return (self.file, self.func)

    def __repr__(self):
        return f"<Contract {self.file}:{self.func}>"


class Shape:
    def __init__(self, name, attrs, invariants=None, cls=None, methods=None):
        self.name = name
        self.attrs = attrs                      # attr -> type descriptor
        self.invariants = invariants or {}      # name -> [expr]
        self.cls = cls or name                  # python class for dispatch
        self.methods = methods or {}            # abstract method contracts


def contract(file, func, **kw):
    c = Contract(file, func, **kw)
    if c.key in CONTRACTS:
        raise ValueError(f"duplicate contract {c.key}")
    CONTRACTS[c.key] = c
    if not c.variant_name:
        BY_QUAL[func] = c
    return c


def shape(name, attrs, **kw):
    s = Shape(name, attrs, **kw)
    SHAPES[name] = s
    return s


_loaded = False


def load_all():
    global _loaded
    if _loaded:
        return
    _loaded = True
    import contracts as pkg  # /verif/contracts
    for m in pkgutil.iter_modules(pkg.__path__):
        importlib.import_module(f"contracts.{m.name}")


def for_property(pid):
    load_all()
    return [c for c in CONTRACTS.values() if pid in c.props]
