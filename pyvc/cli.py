"""vcheck: decide one property.

exit 0  every obligation discharged (or only KNOWN-FINDING lines)
exit 1  VIOLATION property=<id> replay=<path> [no-failing-input-found]
exit 2  undecided (unknown / timeout / outside subset / target missing)
exit 3  checker crash / vacuous contract / zero obligations
"""
from __future__ import annotations

import argparse
import hashlib
import json
import multiprocessing as mp
import os
import re
import subprocess
import sys
import time
import traceback

VERIF = os.path.dirname(os.path.dirname(os.path.abspath(__file__)))
sys.path.insert(0, VERIF)
sys.setrecursionlimit(10000)

from pyvc import contracts as C            # noqa: E402

KNOWN = os.path.join(VERIF, "known_findings.txt")
# evidence/ and replays/ normally live in /verif; runs against a scratch copy
# of the package (selftest mutants, seeded changes) write them elsewhere so
# that the evidence of /repo's own tree is never overwritten
OUT = os.environ.get("PYVC_OUT") or VERIF
REPLAY_PY = "/venv/bin/python"
MAX_REPLAYS = int(os.environ.get("PYVC_MAX_REPLAYS", "4"))


def iname(con):
    """the name obligations of this contract are identified by (baseline,
    known findings): the function, unless the contract asks for its own
    name (two variants of one function that must not share identifiers)"""
    return con.extra.get("ident_name") or con.func


def baseline_path(pid):
    return os.path.join(VERIF, "baseline", f"{pid}.json")


def load_baseline(pid):
    """idents of the obligations discharged on the pinned tree (committed;
    written by --write-baseline).  An obligation in this set that can no
    longer be discharged is reported as a violation even when the solver
    gives no counterexample (no-failing-input-found)."""
    try:
        return set(json.load(open(baseline_path(pid)))["discharged"])
    except Exception:
        return set()


def load_known():
    out = []
    if not os.path.exists(KNOWN):
        return out
    for line in open(KNOWN):
        line = line.strip()
        if not line or line.startswith("#"):
            continue
        m = re.match(r"finding:\s+property=(\S+)\s+key=(\S+)\s+(.*)$", line)
        if m:
            what = m.group(3)
            cl = None
            mc = re.match(r"clauses=([\d,]+)\s+(.*)$", what)
            if mc:
                cl = {int(x) for x in mc.group(1).split(",")}
                what = mc.group(2)
            out.append({"property": m.group(1), "key": m.group(2),
                        "what": what, "clauses": cl})
    return out


_GEN = {}          # filled in the parent before the fork


def generate_all(cons, tier, pid):
    """Generate the obligations of every function (parent process)."""
    from pyvc.verify import Verifier
    from pyvc import extra as X
    out = []
    for con in cons:
        V = Verifier(tier)
        X.configure(V, con, pid)
        try:
            r = V.verify_function(con)
        except Exception:
            from pyvc.verify import FuncResult
            r = FuncResult(con)
            r.errors.append("checker crash: " + traceback.format_exc())
        r.covers = sorted(V.covers)
        r.timeout_ms = V.timeout_ms
        out.append(r)
    return out


def solve_one(idx):
    """Discharge obligation #idx (forked child: the z3 terms are inherited
    copy-on-write from the parent)."""
    from pyvc.verify import discharge
    from pyvc.concretize import conc
    fi, oi = _GEN["index"][idx]
    r = _GEN["results"][fi]
    o = r.obls[oi]
    # once several counterexamples are in hand the remaining obligations
    # get a small budget (bounds the run time on a broken tree; irrelevant
    # on a tree where everything discharges)
    hurry = _GEN["found"].value >= 3 and o.kind != "interrupt_inv"
    ident0 = f"{iname(r.contract)}::{stable_name(o)}"
    known_here = ident0 in _GEN.get("known", ()) and _GEN.get("tier") == \
        "quick"
    listed_clauses = _GEN.get("known_clauses", {}).get(ident0)
    extra_clause = None
    try:
        if ident0 in _GEN.get("known", ()) and listed_clauses and \
                o.kind == "interrupt_inv":
            # a listed finding of a conjunctive point-wise invariant names
            # the clauses that fail at this statement.  Every OTHER clause
            # must still be proved (with the normal budget and the baseline
            # retry): a change that breaks a further clause at the same
            # statement is a different violation, not the listed one.
            import z3 as _z3
            from pyvc import engine as _E
            cls_ = o.goal.children() if _z3.is_and(o.goal) else [o.goal]
            for ci, c in enumerate(cls_):
                if ci in listed_clauses:
                    continue
                sub = _E.Obl(o.name, "sub", o.func, o.lineno, o.hyps, c,
                             o.path)
                sub.interp, sub.ncalls = o.interp, o.ncalls
                discharge([sub], r.timeout_ms, use_cvc5=True, refute=True)
                if sub.status == "unknown":
                    discharge([sub], r.timeout_ms * 4, use_cvc5=True,
                              refute=False)
                if sub.status != "discharged":
                    extra_clause = (ci, sub)
                    break
            if extra_clause is not None:
                ci, sub = extra_clause
                o.status, o.solver, o.model = "refuted", sub.solver, \
                    sub.model
                o.note = (f"clause {ci} fails here and is not among the "
                          f"clauses {sorted(listed_clauses)} of the listed "
                          f"finding ({sub.status}: {sub.note})")
                o.name = f"{o.name}:clause{ci}"
            elif _GEN.get("tier") == "quick":
                o.status = "refuted"
                o.note = ("listed known finding: every clause outside the "
                          "listed failing ones is proved (the listed ones "
                          "are not re-refuted in the quick tier)")
            else:
                discharge([o], r.timeout_ms, use_cvc5=True, refute=True)
                if o.status != "discharged":
                    o.status = "refuted"
        elif known_here:
            # a listed finding: the quick tier only checks whether it has
            # gone away (a cheap proof attempt); the thorough tier re-refutes
            discharge([o], 2500, use_cvc5=False, refute=False)
            if o.status != "discharged":
                o.status = "refuted"
                o.note = ("listed known finding: still not provable (not "
                          "re-refuted in the quick tier)")
        else:
            discharge([o], 2500 if hurry else r.timeout_ms,
                      use_cvc5=not hurry, refute=not hurry)
            if o.status == "unknown" and ident0 in _GEN.get("known", ()) \
                    and not listed_clauses:
                # thorough tier: a listed finding that is still not
                # provable and for which no counter-model was found within
                # the budget stays the listed finding (not 'undecided')
                o.status = "refuted"
                o.note = ("listed known finding: still not provable; no "
                          "counter-model within the budget")
    except Exception as e:
        o.status, o.note = "unknown", f"solver error: {e!r}"
    ident = f"{iname(r.contract)}::{stable_name(o)}"
    in_base = ident in _GEN.get("baseline", ())
    if not in_base and "@#" in ident:
        # the statement the obligation is attached to was edited (its text
        # hash changed): the same kind of obligation of the same function --
        # same callee / clause index -- was discharged on the pinned tree
        loose = re.sub(r"@#[0-9a-f]{8}", "@#*", ident)
        in_base = loose in _GEN.get("baseline_loose", ())
    if o.status == "unknown" and in_base and not hurry:
        # an obligation that is discharged on the pinned tree: give it the
        # thorough budget before it is reported as no longer provable
        try:
            discharge([o], r.timeout_ms * 4, use_cvc5=True, refute=False)
        except Exception:
            pass
    if o.status == "refuted" and not known_here and \
            o.kind != "interrupt_inv":
        with _GEN["found"].get_lock():
            _GEN["found"].value += 1
    d = {"name": o.name, "stable": stable_name(o), "kind": o.kind,
         "in_baseline": in_base,
         "line": o.lineno, "status": o.status, "solver": o.solver,
         "time": round(o.time, 4), "note": o.note,
         "path": "".join("T" if b else "F" for b in o.path)}
    if o.replay is not None:
        d["replay"] = o.replay
    elif r.contract.replay is not None:
        d["replay"] = r.contract.replay
    if o.status == "refuted" and o.model is not None:
        try:
            I = o.interp
            d["cex"] = {
                "inputs": conc(o.model, I.entry_old),
                "calls": [{"callee": c["callee"], "line": c["line"],
                           "result": conc(o.model, c["result"]),
                           "post": conc(o.model, c["post"])}
                          for c in I.call_log[:o.ncalls]],
                "goal": str(o.goal)[:2000]}
        except Exception as e:          # model evaluation problems
            d["cex_error"] = repr(e)
    return fi, oi, d


def verify_all(cons, tier, pid, jobs):
    t0 = time.time()
    results = generate_all(cons, tier, pid)
    index = [(fi, oi) for fi, r in enumerate(results)
             for oi in range(len(r.obls))]
    _GEN["results"], _GEN["index"] = results, index
    _GEN["found"] = mp.Value("i", 0)
    _GEN["baseline"] = load_baseline(pid)
    _GEN["baseline_loose"] = {re.sub(r"@#[0-9a-f]{8}", "@#*", i)
                              for i in _GEN["baseline"]}
    _GEN["known"] = {k["key"] for k in load_known() if k["property"] == pid}
    _GEN["known_clauses"] = {k["key"]: k.get("clauses")
                             for k in load_known() if k["property"] == pid}
    _GEN["tier"] = tier
    solved = {}
    t1 = time.time()
    if index:
        ctx = mp.get_context("fork")
        with ctx.Pool(min(jobs, len(index))) as pool:
            for fi, oi, d in pool.imap_unordered(solve_one,
                                                 range(len(index)),
                                                 chunksize=1):
                solved[(fi, oi)] = d
    out = []
    for fi, r in enumerate(results):
        con = r.contract
        st = r.stats
        out.append({
            "file": con.file, "func": con.func, "ckey": con.key[1],
            "iname": iname(con),
            "obls": [solved[(fi, oi)] for oi in range(len(r.obls))],
            "undecided": r.undecided, "errors": r.errors, "paths": r.paths,
            "time_gen": r.time_gen,
            "time_solve": sum(solved[(fi, oi)]["time"]
                              for oi in range(len(r.obls))),
            "sha": r.sha, "span": r.span, "vacuity": r.vacuity,
            "dropped": st.dropped if st else {},
            "lib_used": sorted(st.lib_used) if st else [],
            "contracts_used": sorted(st.contracts_used) if st else [],
            "trusted_used": sorted(st.trusted_used) if st else [],
            "inlined": sorted(st.inlined) if st else [],
            "covers": r.covers})
    return out


def stable_name(o):
    """obligation name with line numbers replaced by a hash of the
    statement's source (robust to edits elsewhere in the file)."""
    I = o.interp
    def rep(m):
        ln = int(m.group(1))
        try:
            src = I.src.lines[ln - 1].strip() if ln > 0 else ""
        except Exception:
            src = ""
        return "@#" + hashlib.sha1(src.encode()).hexdigest()[:8]
    return re.sub(r"@(\d+)", rep, o.name)


def main(argv=None):
    ap = argparse.ArgumentParser()
    ap.add_argument("pid")
    ap.add_argument("--tier", default=os.environ.get("VERIF_TIER", "quick"))
    ap.add_argument("--replay")
    ap.add_argument("--jobs", type=int, default=16)
    ap.add_argument("-v", action="store_true")
    ap.add_argument("--only")
    ap.add_argument("--write-baseline", action="store_true")
    a = ap.parse_args(argv)
    if a.tier not in ("quick", "thorough"):
        a.tier = "quick"
    seed = int(os.environ.get("VERIF_SEED", "0") or 0)
    if a.replay:
        return replay_file(a.replay)
    t_start = time.time()
    C.load_all()
    from pyvc import extra as X
    cons = [c for c in C.for_property(a.pid) if c.verify]
    if a.only:
        cons = [c for c in cons if a.only in c.func]
    results = verify_all(cons, a.tier, a.pid, a.jobs) if cons else []
    extra = X.run_extra(a.pid, a.tier, seed) if not a.only else []
    return report(a, seed, cons, results, extra, t_start)


def report(a, seed, cons, results, extra, t_start):
    pid = a.pid
    known = [k for k in load_known() if k["property"] == pid]
    obls = 0
    discharged = 0
    by_backend = {}
    solver_time = 0.0
    undecided, errors, refuted = [], [], []
    samples = []
    slow = []
    funcs = []
    trusted, libs, dropped, inlined = set(), set(), {}, set()
    for r in results:
        funcs.append({"file": r["file"], "func": r["func"],
                      "sha256": r.get("sha"), "span": r.get("span"),
                      "paths": r["paths"], "obligations": len(r["obls"]),
                      "requires_satisfiable": r.get("vacuity")})
        for u in r["undecided"]:
            undecided.append(f"{r['func']}: {u}")
        for e in r["errors"]:
            errors.append(f"{r['func']}: {e}")
        trusted |= set(r.get("trusted_used", []))
        libs |= set(r.get("lib_used", []))
        inlined |= set(r.get("inlined", []))
        for k, v in r.get("dropped", {}).items():
            dropped[k] = dropped.get(k, 0) + v
        solver_time += r.get("time_solve", 0.0)
        if not r["obls"] and not r["undecided"] and not r["errors"]:
            errors.append(f"{r['func']}: zero obligations generated")
        for o in r["obls"]:
            obls += 1
            ident = f"{r.get('iname', r['func'])}::{o['stable']}"
            if o["kind"] == "interrupt_inv":
                # one finding per statement, whatever clause fails there
                ident = re.sub(r"\[\d+\]$", "", ident)
            if o["status"] == "discharged":
                discharged += 1
                by_backend[o["solver"]] = by_backend.get(o["solver"], 0) + 1
            elif o["status"] == "refuted":
                refuted.append((r, o, ident))
            elif o.get("in_baseline"):
                # provable on the pinned tree, not provable now, no model:
                # a failed obligation without a failing input
                o = dict(o)
                o["detail"] = ("obligation is discharged on the pinned tree "
                               "(baseline/%s.json) but the solvers no "
                               "longer discharge it: %s" % (pid, o["note"]))
                refuted.append((r, o, ident))
            else:
                undecided.append(f"{ident}: solver {o['status']} "
                                 f"({o['note']})")
            slow.append((o["time"], f"{r['func']}::{o['name']}",
                         o["solver"]))
            if len(samples) < 12 and o["solver"] != "trivial":
                samples.append({"function": r["func"], "obligation":
                                o["name"], "kind": o["kind"],
                                "verdict": o["status"],
                                "backend": o["solver"], "s": o["time"]})
    for e in extra:
        obls += e.get("obligations", 1)
        if e["status"] == "discharged":
            discharged += e.get("obligations", 1)
            by_backend[e["backend"]] = by_backend.get(e["backend"], 0) + \
                e.get("obligations", 1)
        elif e["status"] == "refuted":
            refuted.append((None, e, e["ident"]))
        elif e["status"] == "error":
            errors.append(f"{e['ident']}: {e.get('note', '')}")
        else:
            undecided.append(f"{e['ident']}: {e.get('note', '')}")
        solver_time += e.get("time", 0.0)
        if len(samples) < 16:
            samples.append({"function": e.get("function", "-"),
                            "obligation": e["ident"],
                            "kind": e.get("kind", "extra"),
                            "verdict": e["status"], "backend": e["backend"],
                            "s": round(e.get("time", 0.0), 3)})
        for t in e.get("trusted", []):
            trusted.add(t)

    # ---------------------------------------------------------- violations
    violations = []
    known_hit = []
    seen = set()
    for r, o, ident in refuted:
        if ident in seen:
            continue
        seen.add(ident)
        k = next((k for k in known if k["key"] == ident), None)
        if k is not None:
            known_hit.append(k)
            continue
        violations.append((r, o, ident))
    for k in known_hit:
        print(f"KNOWN-FINDING: property={pid} {k['key']} {k['what']}")
    vio_lines = []
    os.makedirs(os.path.join(OUT, "replays", pid), exist_ok=True)
    pending = []
    for r, o, ident in violations:
        path = os.path.join(OUT, "replays", pid, re.sub(
            r"[^A-Za-z0-9_.#@-]", "_", ident) + ".json")
        rec = {"property": pid, "obligation": ident,
               "function": r["func"] if r else o.get("function"),
               "contract_key": r.get("ckey") if r else None,
               "file": r["file"] if r else o.get("file"),
               "verifier_output": {k: o.get(k) for k in
                                   ("name", "kind", "line", "status",
                                    "solver", "note", "path", "detail")},
               "cex": o.get("cex"), "replay": o.get("replay")}
        with open(path, "w") as fh:
            json.dump(rec, fh, indent=1, default=str)
        pending.append((path, rec))
    # replay (at most MAX_REPLAYS, in parallel; the rest are reported with
    # the verifier output only)
    from concurrent.futures import ThreadPoolExecutor
    todo = [(p, r) for p, r in pending
            if r["cex"] is not None or r.get("replay") or
            r.get("function")][:MAX_REPLAYS]
    with ThreadPoolExecutor(max_workers=4) as ex:
        outs = list(ex.map(lambda pr: run_replay(pr[0]), todo))
    done = {p: o for (p, _r), o in zip(todo, outs)}
    for path, rec in pending:
        reproduced = done.get(path)
        rec["replayed_on_real_code"] = reproduced if reproduced is not None \
            else ("not replayed: no concrete counterexample" if
                  rec["cex"] is None and not rec.get("replay") else
                  f"not replayed: replay cap of {MAX_REPLAYS} per run")
        with open(path, "w") as fh:
            json.dump(rec, fh, indent=1, default=str)
        suffix = "" if reproduced and reproduced.get("reproduced") \
            else " no-failing-input-found"
        vio_lines.append(f"VIOLATION property={pid} replay={path}{suffix}")
    for ln in vio_lines:
        print(ln)

    wall = time.time() - t_start
    status = 0
    if errors:
        status = 3
    elif undecided:
        status = 2
    if vio_lines:
        status = 1
    if not vio_lines and obls == 0:
        status = 3
        errors.append("zero obligations for this property")
    assumptions = sorted(
        [f"trusted contract (callee body not verified here): {t}"
         for t in trusted] +
        [f"library contract: {n}" for n in libs] +
        [f"erased statements: {k} x{v}" for k, v in dropped.items()] +
        [f"inlined callee (body executed, no separate contract): {n}"
         for n in inlined] +
        X_ASSUME.get(pid, []) + GLOBAL_ASSUME)
    n_known_fail = sum(1 for r_, o_, i_ in refuted
                       if any(k["key"] == i_ for k in known))
    ev = {
        "property_id": pid, "tier": a.tier, "seed": seed, "level": "proof",
        "coverage": {
            # obligations this run had to discharge: everything generated
            # except the obligations that fail exactly as a finding listed
            # in known_findings.txt (those are reported as KNOWN-FINDING
            # lines, counted below, and are NOT proved)
            "obligations": obls - n_known_fail, "discharged": discharged,
            "obligations_generated": obls,
            "explanation": (
                "obligations = generated - failing as listed known finding; "
                f"{n_known_fail} generated obligation(s) fail on this tree "
                "and match an entry of known_findings.txt: the property is "
                "NOT proved for those program points (see KNOWN-FINDING "
                "lines)") if n_known_fail else
            "every generated obligation was discharged",
            "checker_cmd": f"./vcheck {pid} --tier {a.tier}",
            "trusted_base": sorted(set(
                ["pyvc VC generator (this repository)", "z3 4.x/5.x",
                 "cvc5 (second solver for z3 unknowns)"] +
                [f"library contract {n}" for n in libs] +
                [f"assumed contract {t}" for t in trusted])),
            "by_backend": by_backend,
            "solver_time_s": round(solver_time, 3),
            "slowest_obligations": [
                {"s": t_, "obligation": n_, "backend": b_}
                for t_, n_, b_ in sorted(slow, reverse=True)[:8]],
            "functions_under_contract": funcs,
            "undecided": undecided[:50],
            "known_findings_reported": [k["key"] for k in known_hit],
            "obligations_failing_as_listed_known_findings": n_known_fail,
            "samples": samples,
            "extra_checks": [{k: v for k, v in e.items()
                              if k not in ("replay",)} for e in extra][:60],
        },
        "assumptions": assumptions,
        "wall_s": round(wall, 2),
        "violations": len(vio_lines),
    }
    if errors:
        ev["coverage"]["errors"] = errors[:20]
    os.makedirs(os.path.join(OUT, "evidence"), exist_ok=True)
    with open(os.path.join(OUT, "evidence", f"{pid}.json"), "w") as fh:
        json.dump(ev, fh, indent=1, default=str)
    print(f"[{pid}] tier={a.tier} functions={len(funcs)} obligations={obls} "
          f"discharged={discharged} refuted={len(refuted)} "
          f"known={len(known_hit)} undecided={len(undecided)} "
          f"errors={len(errors)} backends={by_backend} wall={wall:.1f}s")
    if a.write_baseline:
        if status == 0 and not a.only:
            names = set()
            for r in results:
                for o in r["obls"]:
                    if o["status"] == "discharged":
                        names.add(f"{r.get('iname', r['func'])}::"
                                  f"{o['stable']}")
            os.makedirs(os.path.join(VERIF, "baseline"), exist_ok=True)
            with open(baseline_path(pid), "w") as fh:
                json.dump({"property": pid, "discharged": sorted(names)},
                          fh, indent=0)
            print(f"baseline written: {len(names)} obligation idents")
        else:
            print("baseline NOT written (check did not pass cleanly)")
    if a.v or status in (2, 3):
        for u in undecided[:40]:
            print("  UNDECIDED", u)
        for e in errors[:10]:
            print("  ERROR", e)
    return status


GLOBAL_ASSUME = [
    "python ints are mathematical integers; floats are treated as reals "
    "(extended by the symbolic constants INF, NAN): machine arithmetic is "
    "treated as mathematical",
    "left-to-right evaluation order; no aliasing between distinct arrays "
    "except through the modelled cells (views are checked stale/unsound)",
]
X_ASSUME = {}


def run_replay(path):
    try:
        p = subprocess.run([REPLAY_PY, os.path.join(VERIF, "replay",
                                                    "run.py"), path],
                           capture_output=True, text=True, timeout=400)
        out = p.stdout.strip().splitlines()
        res = {"exit": p.returncode, "stdout": out[-30:],
               "stderr": p.stderr.strip().splitlines()[-15:]}
        res["reproduced"] = p.returncode == 10
        return res
    except Exception as e:
        return {"error": repr(e), "reproduced": False}


def replay_file(path):
    r = run_replay(path)
    print(json.dumps(r, indent=1))
    rec = json.load(open(path))
    if r.get("reproduced"):
        print(f"VIOLATION property={rec['property']} replay={path}")
        return 1
    return 0


if __name__ == "__main__":
    sys.exit(main())
