"""End-to-end witness for `checkpoint_on_training=True checkpoints in the
middle of an iteration` (C12 / C13): NestedSampler.consume_sample records the
worst live point (nested_samples.append, state.increment, iteration += 1)
BEFORE it looks for a replacement.  When the pool runs empty during that
search, yield_sample hands the old point back, consume_sample calls
check_state(), the flow is retrained (train_on_empty) and -- with
checkpoint_on_training=True -- train_proposal calls
checkpoint(periodic=True) right there: the pickled sampler has the worst
point both recorded and still in the live set.  A run resumed from that
checkpoint records and integrates the point a second time.

The script runs the standard sampler with iteration-triggered checkpoints
(every iteration), keeps the first checkpoint taken in such a state, resumes
from it with a fresh model and lets the run finish.
exit 10 = the resumed run's nested samples contain a duplicated point /
recorded != integrated; 0 = no mid-iteration checkpoint was taken or the
resumed run is consistent."""
import os
import pickle
import shutil
import sys
import tempfile

import numpy as np

from nessai.flowsampler import FlowSampler
from nessai.model import Model


class M(Model):
    names = ["x", "y"]
    bounds = {"x": [-5, 5], "y": [-5, 5]}

    def log_prior(self, x):
        return np.log(self.in_bounds(x), dtype=float)

    def log_likelihood(self, x):
        return -0.5 * (x["x"] ** 2 + x["y"] ** 2)


def main():
    out = tempfile.mkdtemp(prefix="pyvc-c12ct-")
    kept = {}

    def callback(ns):
        lp = ns.live_points
        if lp is None or not ns.nested_samples or "blob" in kept:
            return
        last = ns.nested_samples[-1]
        if len(ns.nested_samples) == ns.iteration and \
                lp[0]["logL"] == last["logL"] and lp[0]["x"] == last["x"]:
            kept["blob"] = pickle.dumps(ns)
            kept["iteration"] = ns.iteration
            raise KeyboardInterrupt("the process is killed here")

    kw = dict(output=out, nlive=100, seed=3, plot=False, resume=False,
              log_on_iteration=False, checkpoint_on_training=True,
              checkpoint_on_iteration=True, checkpoint_interval=1,
              poolsize=100, maximum_uninformed=100, training_frequency=None,
              flow_config=dict(n_blocks=1, n_neurons=4),
              training_config=dict(max_epochs=3), max_iteration=400,
              signal_handling=False)
    try:
        fs = FlowSampler(M(), checkpoint_callback=callback, **kw)
        try:
            fs.run(plot=False, save=False)
        except KeyboardInterrupt:
            pass
        if "blob" not in kept:
            print("no checkpoint was taken in the middle of an iteration")
            return 0
        print(f"checkpoint taken mid-iteration at iteration "
              f"{kept['iteration']}: the worst point is recorded and still "
              f"live")
        from nessai.samplers.nestedsampler import NestedSampler
        sampler = pickle.loads(kept["blob"])
        ns = NestedSampler.resume_from_pickled_sampler(
            sampler, M(), flow_config=kw["flow_config"],
            checkpoint_callback=lambda s: None)
        ns.initialise()
        ns.max_iteration = kept["iteration"] + 50
        ns.nested_sampling_loop()
        rows = np.array(ns.nested_samples)
        key = np.stack([rows["x"], rows["y"], rows["logL"]], axis=1)
        n_dup = len(key) - len(np.unique(key, axis=0))
        print(f"after the resumed run: {len(rows)} recorded, iteration "
              f"{ns.iteration}, {len(ns.state.logLs) - 1} integrated, "
              f"{n_dup} duplicated point(s)")
        if n_dup or len(rows) != ns.iteration:
            print("REPRODUCED: a discarded point is recorded / integrated "
                  "twice after resuming from the on-training checkpoint")
            return 10
        return 0
    finally:
        shutil.rmtree(out, ignore_errors=True)


if __name__ == "__main__":
    sys.exit(main())
