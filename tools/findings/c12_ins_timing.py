"""End-to-end witness for the C12 defect `the importance sampler counts the
time before a resume twice`: BaseNestedSampler.checkpoint adds
`now - sampling_start_time` to `sampling_time` and pickles the sampler BEFORE
it resets `sampling_start_time`; the standard sampler resets the start time
when nested_sampling_loop begins, ImportanceNestedSampler.nested_sampling_loop
did not.  A resumed importance sampler therefore adds, at its first
checkpoint, the interval before the last checkpoint once more plus the time
the process was not running at all.

The run below checkpoints every iteration, is killed in its fourth level,
'sleeps' 5 s (idle, no sampling) and is resumed from the checkpoint; the
reported sampling time is compared with the wall-clock time spent inside
nested_sampling_loop.  exit 10 = the reported time exceeds the time spent
sampling by more than 3 s; 0 = consistent."""
import sys
import time

import numpy as np

from nessai.flowsampler import FlowSampler
from nessai.model import Model


class M(Model):
    names = ["x", "y"]
    bounds = {"x": [-5, 5], "y": [-5, 5]}

    def log_prior(self, x):
        return np.log(self.in_bounds(x), dtype=float)

    sampler = None
    kill_at = None

    def log_likelihood(self, x):
        if M.kill_at is not None and M.sampler.iteration >= M.kill_at:
            raise KeyboardInterrupt("killed")
        return -0.5 * (x["x"] ** 2 + x["y"] ** 2)

    def to_unit_hypercube(self, x):
        xo = x.copy()
        for n in self.names:
            xo[n] = (x[n] + 5) / 10
        return xo

    def from_unit_hypercube(self, x):
        xo = x.copy()
        for n in self.names:
            xo[n] = 10 * x[n] - 5
        return xo


def main():
    import tempfile
    import shutil
    out = tempfile.mkdtemp(prefix="pyvc-c12t-")
    kw = dict(output=out, importance_nested_sampler=True, nlive=600,
              seed=1, plot=False, log_on_iteration=False,
              checkpoint_interval=1, checkpoint_on_iteration=True,
              flow_config=dict(n_blocks=1, n_neurons=4),
              training_config=dict(max_epochs=2), min_iteration=1)
    try:
        spent = 0.0
        fs = FlowSampler(M(), resume=False, max_iteration=6,
                         signal_handling=False, **kw)
        M.sampler, M.kill_at = fs.ns, 3     # the process dies in level 4
        t0 = time.time()
        try:
            fs.ns.nested_sampling_loop()
        except KeyboardInterrupt:
            pass
        spent += time.time() - t0
        M.kill_at = None
        time.sleep(5)                               # the process is idle
        fs = FlowSampler(M(), resume=True, max_iteration=6,
                         signal_handling=False, **kw)
        if not fs.ns.resumed:
            print("did not resume: witness not applicable")
            return 0
        t0 = time.time()
        fs.ns.nested_sampling_loop()
        spent += time.time() - t0
        rep = fs.ns.sampling_time.total_seconds()
        print(f"time spent in nested_sampling_loop: {spent:.2f} s; "
              f"reported sampling_time: {rep:.2f} s")
        if rep > spent + 3:
            print("REPRODUCED: the resumed importance sampler reports "
                  "sampling time that was never spent sampling")
            return 10
        return 0
    finally:
        shutil.rmtree(out, ignore_errors=True)


if __name__ == "__main__":
    sys.exit(main())
