"""End-to-end witness for the C08 finding `ImportanceFlowProposal with
clip=True attaches the density of a different point`: inverse_rescale clips
the generated point onto the unit hypercube, `draw` then attaches log_q /
logQ evaluated at the UN-clipped flow sample.  Passing the returned point
forwards (rescale + compute_log_Q) gives another density.

Built on the concrete importance-sampler instance of replay/c03_ins.py
(reparameterisation None, so flow samples do fall outside the unit square).
usage: c08_clip.py [clip: 1|0|default]   exit 10 = a returned point carries
a logQ that differs from the density of that point; 0 = all agree."""
import sys

import numpy as np

sys.path.insert(0, "/verif")


def main():
    from replay.c03_ins import build
    from nessai.proposal.importance import ImportanceFlowProposal
    import inspect
    arg = sys.argv[1] if len(sys.argv) > 1 else "1"
    if arg == "default":
        clip = inspect.signature(
            ImportanceFlowProposal.__init__).parameters["clip"].default
    else:
        clip = bool(int(arg))
    bad = 0
    for m in (2, 3, 4):
        p = build(m, None, seed=m)
        p.clip = clip
        x, log_q = p.draw(200)
        xp, lj = p.rescale(x)
        log_Q, _ = p.compute_log_Q(xp, log_j=lj)
        d = np.abs(log_Q - x["logQ"])
        n = int((d > 1e-6).sum())
        bad += n
        print(f"clip={clip}, {m} proposals: {n} of {x.size} drawn points "
              f"carry a logQ that is not the density of the point "
              f"(max difference {d.max():.3g})")
    if bad:
        print("REPRODUCED: density attached at generation != density of the "
              "same point passed forwards")
        return 10
    return 0


if __name__ == "__main__":
    sys.exit(main())
