import numpy as np, sys, logging
from nessai.flowsampler import FlowSampler
from nessai.model import Model
class M(Model):
    names=['x','y']; bounds={'x':[-5,5],'y':[-5,5]}
    def log_prior(self,x): return np.log(self.in_bounds(x), dtype=float)
    def log_likelihood(self,x): return -0.5*(x['x']**2+x['y']**2)
    def to_unit_hypercube(self,x):
        xo=x.copy()
        for n in self.names: xo[n]=(x[n]+5)/10
        return xo
    def from_unit_hypercube(self,x):
        xo=x.copy()
        for n in self.names: xo[n]=10*x[n]-5
        return xo
nl=int(sys.argv[1]); mr=int(sys.argv[2])
fs=FlowSampler(M(), output='out', importance_nested_sampler=True, nlive=nl, min_remove=mr, min_samples=10, max_iteration=3, seed=1, plot=False, resume=False, log_on_iteration=False,
   flow_config=dict(n_blocks=1,n_neurons=4), training_config=dict(max_epochs=2))
fs.run(plot=False, save=False)
print('DONE', fs.ns.iteration)
