"""End-to-end witness for the C20 finding `n_add >= 1 is not guaranteed`:
the importance nested sampler with variable draws (draw_constant=False,
replace_all=False) draws as many new points as the level removed.  When a
level removes nothing -- min_samples == nlive (accepted by
check_configuration), or the lowest live points tie with the threshold -- it
calls add_and_update_points(0): draw_n_samples takes np.min of an empty
array (and OrderedSamples.add_samples would take the max of an empty index
array).  exit 10 = the accepted configuration crashed after sampling
started; 0 = ran to completion."""
import sys

import numpy as np

from nessai.flowsampler import FlowSampler
from nessai.model import Model


class M(Model):
    names = ["x", "y"]
    bounds = {"x": [-5, 5], "y": [-5, 5]}

    def log_prior(self, x):
        return np.log(self.in_bounds(x), dtype=float)

    def log_likelihood(self, x):
        return -0.5 * (x["x"] ** 2 + x["y"] ** 2)

    def to_unit_hypercube(self, x):
        xo = x.copy()
        for n in self.names:
            xo[n] = (x[n] + 5) / 10
        return xo

    def from_unit_hypercube(self, x):
        xo = x.copy()
        for n in self.names:
            xo[n] = 10 * x[n] - 5
        return xo


def main():
    import tempfile
    nl = int(sys.argv[1]) if len(sys.argv) > 1 else 50
    ms = int(sys.argv[2]) if len(sys.argv) > 2 else nl
    out = tempfile.mkdtemp(prefix="pyvc-c20z-")
    try:
        fs = FlowSampler(
            M(), output=out, importance_nested_sampler=True, nlive=nl,
            min_samples=ms, draw_constant=False, max_iteration=3, seed=1,
            plot=False, resume=False, log_on_iteration=False,
            flow_config=dict(n_blocks=1, n_neurons=4),
            training_config=dict(max_epochs=2))
    except Exception as ex:                    # rejected up front: fine
        print(f"configuration rejected up front: {type(ex).__name__}: {ex}")
        return 0
    try:
        fs.run(plot=False, save=False)
    except ValueError as ex:
        print(f"configuration nlive={nl}, min_samples={ms}, "
              f"draw_constant=False was accepted and then failed during "
              f"sampling: ValueError: {ex}")
        return 10
    finally:
        import shutil
        shutil.rmtree(out, ignore_errors=True)
    print("ran to completion at iteration", fs.ns.iteration)
    return 0


if __name__ == "__main__":
    sys.exit(main())
