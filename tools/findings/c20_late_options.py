"""C20 findings, end to end: an importance-sampler option that is accepted at
construction, lets the whole sampling run happen, and then fails.
usage: c20_late_options.py train_final_flow|bootstrap|plot_extra_state|redraw_samples"""
import sys
import tempfile
import numpy as np
from nessai.flowsampler import FlowSampler
from nessai.model import Model


class M(Model):
    names = ["x", "y"]
    bounds = {"x": [-5, 5], "y": [-5, 5]}

    def log_prior(self, x):
        return np.log(self.in_bounds(x), dtype=float)

    def log_likelihood(self, x):
        return -0.5 * (x["x"] ** 2 + x["y"] ** 2)

    def to_unit_hypercube(self, x):
        xo = x.copy()
        for n in self.names:
            xo[n] = (x[n] + 5) / 10
        return xo

    def from_unit_hypercube(self, x):
        xo = x.copy()
        for n in self.names:
            xo[n] = 10 * x[n] - 5
        return xo


opt = sys.argv[1]
kw = {opt: True} if opt != "redraw_samples" else {}
run_kw = {"redraw_samples": True} if opt == "redraw_samples" else {}
out = tempfile.mkdtemp(prefix="pyvc-c20-")
fs = FlowSampler(M(), output=out, importance_nested_sampler=True, nlive=100,
                 min_samples=10, max_iteration=2, seed=1,
                 plot=(opt == "plot_extra_state"), resume=False,
                 log_on_iteration=False,
                 flow_config=dict(n_blocks=1, n_neurons=4),
                 training_config=dict(max_epochs=2), **kw)
print("constructed: the option was accepted up front")
try:
    fs.run(plot=(opt == "plot_extra_state"), save=False, **run_kw)
except Exception as ex:       # noqa: BLE001
    print(f"FAILED after {fs.ns.iteration} iteration(s) of sampling: "
          f"{type(ex).__name__}: {ex}")
    sys.exit(10)
print("completed")
