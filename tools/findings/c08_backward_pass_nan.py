import numpy as np
from unittest.mock import MagicMock
from nessai.proposal.flowproposal import FlowProposal
from nessai.livepoint import numpy_array_to_live_points
p = MagicMock(spec=FlowProposal)
p.alt_dist=None
p.prime_parameters=['x','y']
z=np.random.randn(5,2)
lp=np.array([0.,np.nan,1.,2.,3.])
p.flow=MagicMock(); p.flow.sample_and_log_prob=lambda z,alt_dist: (z.copy(), lp.copy())
p.inverse_rescale=lambda x:(x,np.zeros(x.size))
p.model=MagicMock(); p.model.in_bounds=lambda x: np.ones(x.size,dtype=bool)
p.check_prior_bounds=lambda x,*a: FlowProposal.check_prior_bounds(p,x,*a)
try:
    out=FlowProposal.backward_pass(p,z,rescale=True,return_z=True)
    print([o.shape for o in out])
except Exception as e: print("EXC",type(e).__name__,e)
out=FlowProposal.backward_pass(p,z,rescale=False,return_z=True)
print([o.shape for o in out])
