import numpy as np
from nessai.model import Model
from nessai.livepoint import numpy_array_to_live_points
class M(Model):
    names=['x']; bounds={'x':[0,1]}
    def log_prior(self,x): return np.log(self.in_bounds(x), dtype=float)
    def log_likelihood(self,x): return -x['x']**2
class FakePool:
    def map(self,f,it): return list(map(f,it))
    def close(self): pass
    def join(self): pass
m=M()
from nessai.utils.multiprocessing import initialise_pool_variables
initialise_pool_variables(m)
m.parallelise_prior=True
m.configure_pool(pool=FakePool())
x=numpy_array_to_live_points(np.random.rand(5,1),['x'])
print('allow_vectorised', m.allow_vectorised, 'n_pool', m.n_pool)
print(m.batch_evaluate_log_likelihood(x))
print(m.batch_evaluate_log_prior(x))
