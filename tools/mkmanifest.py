#!/usr/bin/env python3
"""Regenerate MANIFEST.json from the table below (kept next to the code so
the claimed set, the level notes and not_applicable never drift apart)."""
import json
import os

HERE = os.path.dirname(os.path.dirname(os.path.abspath(__file__)))
TECH = ("contract-based deductive verification: VCs generated from the real "
        "function bodies in /repo (ast) against sidecar contracts, "
        "discharged by z3 (cvc5 for z3 unknowns); sat models replayed on "
        "the real code")

CLAIMED = {
    "C01": {
        "text": "Proof (for all inputs / iterations, real arithmetic) that "
        "insert_live_point, yield_sample, consume_sample, "
        "populate_live_points, finalise and the evidence-state increment "
        "satisfy contracts whose postconditions are the clauses of C01 "
        "(class invariant LiveInv preserved by every iteration; removed "
        "point = minimum, recorded and integrated once; replacement strictly "
        "above with finite prior at the recorded insertion index; all other "
        "live points untouched); frames of check_state/update_state "
        "discharged by frame inference.",
        "note": "Assumed: abstract proposal.draw / user likelihood return "
        "arbitrary values (C09 covers proposals); 'inside the prior bounds' "
        "is relative to the proposal contracts; floats as reals (NaN "
        "excluded by precondition); numpy library contracts (searchsorted, "
        "sort, slice assignment); induction over iterations is the class "
        "invariant argument; termination not proved.",
    },
    "C17": {
        "text": "Proof over linear integer arithmetic that both threshold "
        "methods return an in-range index, that "
        "determine_log_likelihood_threshold returns samples[n].logL with n "
        "satisfying the min_samples / min_remove / max_samples clauses, and "
        "that add_new_proposal trains on >= min_samples aligned rows.",
        "note": "Domain preconditions reported: min_remove < size, "
        "max_samples > nlive when set (no implementation can satisfy the "
        "clauses outside them). weighted_quantile (Harrell-Davis, betainc) "
        "is an assumed contract: its monotonicity / range / equal-weights "
        "sub-claims are NOT decided here.",
    },
}

CLAIMED["C10"] = {
    "text": "Proof that batch_evaluate_function returns, in every one of "
    "its six branches (pool / no pool x vectorised+chunked / vectorised / "
    "pointwise), for every chunk size and pool size, an array of len(x) "
    "whose i-th entry is the pointwise value at x[i]; that the three "
    "module-level wrappers call the model's own method; that "
    "Model.batch_evaluate_* evaluate at the (unit-hypercube-mapped) points "
    "and add exactly len(x) to the evaluation counter once; and that "
    "configure_pool establishes the invariant that keeps "
    "np.array_split(x, None) unreachable (this obligation failed on the "
    "pinned tree: fixed, see known_findings.txt).",
    "note": "Assumed: the user's function satisfies the vectorised contract "
    "(func(s)[j] = func1(s[j]), len preserved, also for empty s); "
    "Pool.map is order preserving; the worker's global _model is the same "
    "model (fork); np.array_split / np.concatenate library contracts "
    "(pieces partition the input in order); the vectorised_* properties "
    "are treated as boolean attributes. Real fork-pool scheduling is inside "
    "the assumed Pool.map contract.",
}

CLAIMED["C04"] = {
    "text": "Proof that every OrderedSamples operation (sort_samples, "
    "add_initial_samples, add_samples in strict and soft mode, "
    "add_to_nested_samples, remove_samples in both modes, finalise, "
    "update_log_likelihood_threshold) and get_inverse_indices preserve the "
    "representation invariant (store sorted by logL; live / nested index "
    "arrays strictly increasing, in range, disjoint, lengths summing to the "
    "store size; density table aligned) from ANY state satisfying it, with "
    "whole-view postconditions over position maps: every old (record, row) "
    "pair is still present unmodified, every new pair is present with its "
    "row, membership of every old sample is preserved; remove_samples "
    "returns exactly the number of live samples strictly below the "
    "threshold. Operation sequences of any depth follow by induction on "
    "the invariant. The np.in1d defect was found by the resolver "
    "obligation and fixed.",
    "note": "Assumed: numpy library contracts for searchsorted / insert "
    "(position maps) / argsort / isin / boolean-mask select (incl. the "
    "counting fact for arange(n)[~isin(arange(n), b)]) / delete / arange; "
    "lemma unique_complement_enum (strictly increasing enumeration of a "
    "finite set is unique) and the pigeonhole step from 'disjoint + lengths "
    "sum to n' to 'every index exactly once' are mathematical lemmas "
    "(Lean proof in lemmas/, see evidence for its status); batches are "
    "non-empty (np.max of an empty index array raises) and the threshold "
    "is the likelihood of a live sample (C17) - reported preconditions; "
    "likelihoods are reals (NaN excluded).",
}

CLAIMED["C02"] = {
    "text": "Proof over the reals (log-values handled through their "
    "exponential image) that: increment performs exactly the documented "
    "rectangle step Z += L (X_prev - X) with X = X_prev t(n), t = exp(-1/n) "
    "or exp(-log(1+1/n)), keeps prior volumes positive and strictly "
    "decreasing from log X_0 = 0 and maintains the integrator invariant; "
    "logsubexp and log_integrate_log_trap compute x-y resp. the trapezoid "
    "sum; finalise, log_posterior_weights, get_logx_live_points and the "
    "one-pass compute_weights (int and array live-count schedules) equal "
    "the trapezoid evidence with closing point X=0 and the rectangle "
    "posterior weights over the same L / X sequences. The links between "
    "the three computations (same recurrence => same sequence; rectangle "
    "closed form; shift by c scales Z by e^c and leaves weights unchanged) "
    "are code-independent lemmas proved in Lean (lemmas/Lib.lean).",
    "note": "NOT decided: agreement to floating-point accuracy and absence "
    "of overflow/underflow up to 1e5 (floats are reals here; -inf is the "
    "image 0). Assumed: exp/log laws (Lean exp_rules), finite-sum "
    "congruence / positivity lemmas (Lean), numpy cumsum / logaddexp / "
    "logsumexp / slicing contracts on images; preconditions reported: "
    "len(samples) >= nlive for the int schedule, expectation in "
    "{logt, t}.",
}
CLAIMED["C16"] = {
    "text": "Proof that draw_posterior_samples returns rows of the nested "
    "samples identified by the returned in-range indices; that rejection "
    "sampling keeps i exactly when log_w[i] - max(log_w) > log U_i with "
    "U_i in [0,1) (strictly increasing indices; the max-weight sample "
    "always, zero-weight samples never), that multinomial resampling "
    "draws exactly n (default int(ESS)) indices with probabilities "
    "w_i / sum w handed to numpy's generator, that unknown methods raise; "
    "and that effective_sample_size / effective_n_posterior_samples equal "
    "Kish's 1 / sum p_i^2. ESS in [1, N] and its shift invariance are Lean "
    "lemmas over that closed form.",
    "note": "NOT decided: empirical selection frequencies (statistical: "
    "they follow from the pinned rule and numpy's generator contract, "
    "assumed). Preconditions reported: at least one finite weight, no "
    "+inf/NaN weight. The thin wrapper "
    "ImportanceNestedSampler.draw_posterior_samples is unverified "
    "surrounding code (delegates to the function under contract).",
}

CLAIMED["C15"] = {
    "text": "Standard sampler: proof that nested_sampling_loop starts an "
    "iteration only while condition > tolerance, leaves by its guard only "
    "when condition <= tolerance, does not continue past the iteration "
    "cap, calls finalise iff the tolerance was reached (and not already "
    "finalised), returns at once without touching state or likelihood "
    "counters when already finalised; consume_sample sets condition to "
    "log((Z + Lmax e^{-it/nlive})/Z) with the just-updated evidence; "
    "finalise consumes each remaining live point once (C01). Importance "
    "sampler: reached_tolerance = any/all(c_i <= t_i); alias resolution "
    "maps every documented name to its criterion and unknown names, length "
    "mismatch and bad check_criteria raise; configure_iterations; the main "
    "loop leaves at the first iteration >= min_iteration at which "
    "reached_tolerance holds, or at the cap, does not continue past the "
    "cap, and a finished sampler returns immediately. Frames of all "
    "bookkeeping callees discharged by frame inference.",
    "note": "Assumed (listed as trusted contracts in the evidence): "
    "NestedSampler.initialise establishes the sampler invariant for a "
    "fresh run; the INS data-path callees keep the level-selection domain "
    "INS_LIVE_OK (depends on how many draws land above the threshold); "
    "inside the loop compute_stopping_criterion is used through 'one value "
    "per configured criterion' (its real body is under contract "
    "separately: the evidence-change criterion is the ABSOLUTE change, the "
    "list follows the configured order); history recording "
    "(update_history) and the "
    "numerical values of ESS / evidence-error criteria on real runs are "
    "not decided here (ESS formula: C16). Termination is not proved.",
}

CLAIMED["C13"] = {
    "text": "Proof of an interrupt invariant: the resumable-state invariant "
    "RI (full sorted live set, recorded == integrated, iteration == "
    "recorded count == insertion-index count, no point both recorded and "
    "live, no duplicated live point) is asserted after EVERY simple "
    "statement of consume_sample, insert_live_point, finalise and "
    "nested_sampling_loop (statement-granular interruption points, callee "
    "contracts from C01/C15); the handler is proved to request exactly one "
    "forced checkpoint and to end in SystemExit(self.exit_code) on every "
    "path; FlowSampler.__init__ is proved to register self.safe_exit for "
    "SIGTERM, SIGINT and SIGALRM (ghost handler table) and to store the "
    "configured exit code (fresh construction; sampler construction "
    "opaque); the importance sampler's checkpoint is proved not to write for "
    "a non-periodic (signal) request, so its last boundary checkpoint is "
    "intact. RI FAILS at 18 statement boundaries of the standard sampler "
    "(inside consume_sample, insert_live_point and finalise): a genuine "
    "defect, each point replayed on the real code with a line-level "
    "settrace signal injection + resume (duplicates / lost / double "
    "integration); listed in known_findings.txt, reported as KNOWN-FINDING. "
    "Any other statement where RI fails is a violation.",
    "note": "Not decided: bytecode-granular interruption inside a single "
    "statement (e.g. inside numpy's slice copy); signals during proposal "
    "population / flow training internals are covered only through the "
    "callee frames (they do not touch the RI attributes: frame inference). "
    "Assumed: initial live points are pairwise distinct records (part of "
    "the trusted initialise contract).",
}

CLAIMED["C11"] = {
    "text": "Proof of a crash invariant over a ghost file system (path -> "
    "Absent | Torn | Complete(version); rename atomic, open('wb') / dump / "
    "torch.save non-atomic): asserted after EVERY statement of "
    "safe_file_dump and of BaseNestedSampler.checkpoint, and in the middle "
    "of the in-place torch.save of FlowModel.save_weights -- the checkpoint "
    "file is never torn and what was recoverable stays recoverable "
    "(file complete and = previous or new, or absent with .old = previous); "
    "recovery contracts: FlowSampler.check_resume is true iff one of the "
    "two files exists, FlowSampler._resume_from_file returns a complete "
    "previous-or-new checkpoint and raises in no state satisfying the crash "
    "invariant, FlowProposal.resume installs complete previous-or-new "
    "weights from every state a kill inside save_weights can leave (this "
    "failed on the pinned tree: torn or missing weights file -> fixed, see "
    "known_findings.txt). Covers every crash point, with and without "
    "save_existing.",
    "note": "Assumed: shutil.move / os.replace are atomic on one file "
    "system, process kill only (no power-loss / fsync semantics), pickle / "
    "torch round trips of complete files (library), byte-level prefixes of "
    "a file being written abstracted to Torn. BaseNestedSampler.resume's "
    "behaviour on absent / torn files is an assumed contract (open + "
    "pickle.load). NOT under contract: the importance sampler's "
    "per-level weights directory (ImportanceFlowModel.update_weights_path "
    "/ load_all_weights): argued in DESIGN.md (a level file is written "
    "once and only the first _resume_n_models files are read), not "
    "machine-checked.",
}

CLAIMED["C20"] = {
    "text": "Partial claim (well-formedness + validation), decided "
    "statically for all inputs: resolver obligations over the samplers, "
    "proposals, flow models and evidence states -- every self.X read is "
    "defined somewhere in the MRO / pickled state / assigned from outside, "
    "every resolvable call of a package callable binds to its signature, "
    "every self.<typed attr>.X resolves in the receiver's class; plus the "
    "validation contracts proved under C15/C17 (unknown stopping criteria, "
    "length mismatch, bad check_criteria, min_samples / min_remove vs nlive "
    "raise before sampling). 13 resolver obligations FAIL on the pinned "
    "tree in six option-guarded late paths of the importance sampler "
    "(train_final_flow, bootstrap, plot_extra_state, redraw_samples, "
    "add_level_post_sampling): each option is accepted at construction and "
    "fails only after sampling -- confirmed end to end "
    "(tools/findings/c20_late_options.py); listed as known findings. "
    "Progress precondition of the importance sampler's loop: every level "
    "draws at least one point (add_and_update_points REQUIRES n >= 1; "
    "proved for constant draws / replace_all; FAILS for variable draws when "
    "a level removes nothing: known finding with an end-to-end witness, "
    "tools/findings/c20_zero_removal.py). Training options: "
    "FlowModel.prep_data never hands torch's DataLoader an invalid batch "
    "size (empty validation split, any val_size in [0,1), batch sizes >= 1, "
    "with / without weights).",
    "note": "NOT decided: that every population loop terminates within a "
    "bounded number of draws (probabilistic), wall-clock bounds, and the "
    "covering-array behaviour of real runs. Receivers whose class cannot be "
    "determined generate no obligation (count in the evidence); classes "
    "with dynamic attribute access or foreign bases (torch.nn.Module, "
    "ABC-only excluded) are skipped and named in the evidence.",
    "technique": "contract-based static well-formedness (resolver "
    "obligations: attribute definedness, call binding, library symbols) "
    "+ function contracts for option validation",
}

CLAIMED["C12"] = {
    "text": "Partial claim (frames and counters): pickle-frame obligations "
    "-- every attribute the property names (iteration, live / nested "
    "points, evidence state, insertion indices, history, proposal pool "
    "x / samples / indices, training counters, reparameterisation object, "
    "INS sample stores and proposal) is written to the pickle unchanged by "
    "the __getstate__ of its class; every attribute a __getstate__ drops is "
    "assigned again on the resume path; __setstate__ restores exactly the "
    "extras __getstate__ returns; the pickled evaluation counters are the "
    "model's values at pickling time; function contracts: "
    "resume_from_pickled_sampler adds the pickled count to the model's "
    "counter exactly once and wires model / resumed; check_resume restores "
    "`populated` for a pool that was populated at the checkpoint; "
    "timings (clock model: now() is a fresh real not below any earlier "
    "time; ghost attribute ghost_proc_start): BaseNestedSampler.checkpoint "
    "adds exactly the time since a non-stale start time, never decreases "
    "the total and moves the start time to the instant it counted up to; "
    "update_history records a value between the total and the total plus "
    "the time since the start; in both nested_sampling_loop bodies every "
    "callee that may read the start time (found by read-frame inference) "
    "is reached only after this process has reset it (a genuine defect of "
    "the importance sampler found here and fixed: e648c82); every "
    "checkpoint is taken in a resumable state: check_state REQUIRES, when "
    "checkpoint_on_training is set, that the point recorded last has left "
    "the live set -- refuted at the call inside consume_sample's "
    "replacement search (known finding, witnessed end to end: a resumed "
    "run records the point twice).",
    "note": "NOT decided: that pickle / torch.load reproduce array and "
    "tensor contents (assumed library round trip), float32 agreement of "
    "recomputed INS densities, double counting when the SAME model object "
    "is reused for a resume (caller-history precondition: fresh model "
    "object), and the validity of the continued run (that is C01 / C04 / "
    "C13, whose invariants only mention pickled-unchanged attributes). "
    "The restorer analysis is syntactic (may-write of the resume entry "
    "points), not a proof that the assignment precedes every read.",
    "technique": "contract-based: abstract interpretation of the "
    "__getstate__ / __setstate__ bodies into dropped / overridden / extra "
    "sets + function contracts discharged by z3",
}

CLAIMED["C05"] = {
    "text": "Proof (derived, over the C01/C02/C15 contracts) that after "
    "nested_sampling_loop the number of returned samples is iterations + "
    "nlive for a finished run and iterations for a run cut short by the "
    "cap (which reports the running estimator of exactly those samples: "
    "ghost `ghost_refined` of the evidence state -- set by "
    "_NSIntegralState.finalise, required false by increment, false "
    "between iterations and for a run cut short), their likelihoods "
    "ascend, recorded == integrated, the reported "
    "log-evidence is the trapezoid quadrature of exactly those likelihoods "
    "with the live-count schedule (nlive,...,nlive, nlive..1) that "
    "compute_weights assumes (C02 + Lean rec_unique link the two "
    "computations); birth log-likelihoods are logLs[it] and lie strictly "
    "below each sample's likelihood; the result dictionary reports the "
    "sampler's own evidence, samples, insertion indices, birth values and "
    "information; importance sampler: update_evidence / logZ / "
    "log_posterior_weights compute logsumexp(logL + logW) - log n and the "
    "weights normalised by it, the same estimator as the stand-alone "
    "log_evidence_from_ins_samples.",
    "note": "NOT decided: that stored logL / logP equal the model "
    "evaluated at the parameters (relative to C09 / C10 and the user's "
    "functions); the standard sampler's uncertainty sqrt(info/nlive) is "
    "reported as the sampler's value, no independent closed form is "
    "claimed; the INS uncertainty (longdouble exponentials) is not under "
    "contract; the INS result dictionary wiring IS (evidence, error, "
    "weights, samples, training / independent-set evidence, history are the "
    "sampler's own values) ('number of INS samples = "
    "sum of level draws' IS: it is part of the loop invariant of "
    "ImportanceNestedSampler.nested_sampling_loop proved for C03 and "
    "included in this check); FlowSampler.run_* attribute wiring not under "
    "contract. Floats as reals.",
}

CLAIMED["C07"] = {
    "text": "Partial claim (a stated set of maps), proved over the reals: "
    "for rescale_zero_to_one, rescale_minus_one_to_one, logit (eps=None), "
    "sigmoid, log / exp with log-Jacobian and their inverses: the closed "
    "form of the map, the reported log-Jacobian equal to log of the "
    "derivative of the returned expression (symbolic differentiation of "
    "the extracted term inside pyvc: sum / product / quotient / chain "
    "rules), and -- as lemmas over pairs of contracts -- inverse(forward(x)) "
    "= x both ways and the two log-Jacobians cancelling; class layer: "
    "ScaleAndShift.reparameterise / inverse_reparameterise (per-parameter "
    "loop unrolled for two names; values, scales, shifts symbolic; "
    "non-sampling fields untouched; round trip and cancelling Jacobians) "
    "and RescaleToBounds._rescale_to_bounds / _inverse_rescale_to_bounds "
    "(scalar and array arguments) and RescaleToBounds.reparameterise / "
    "inverse_reparameterise on arrays (two parameters with their own "
    "bounds / offsets / rescale bounds, no boundary inversion, without and "
    "with the logit post-rescaling): closed forms, log-Jacobian in image "
    "and log space, non-sampling fields and the other array untouched, "
    "and the round trip of the whole reparameterisation as a pair lemma; "
    "the same methods with the log pre-rescaling (closed forms, additive "
    "log-Jacobian, round trip of the argument of the final exponential); "
    "RescaleToBounds.update_bounds (the new bounds are the attained "
    "extremes of the training points after the offset; untouched when "
    "updating is off); "
    "RescaleToBounds.__init__ (configure_pre/post_rescaling inlined): no "
    "prime prior is offered once a post-rescaling is configured, logit "
    "forces unit rescale bounds and is rejected with moving bounds; "
    "determine_rescaled_bounds (no inversion, lower / upper inversion) and "
    "RescaleToBounds.update_prime_prior_bounds, with the lemma that a value "
    "lies in the prior interval iff its image under _rescale_to_bounds lies "
    "between the returned prime-prior bounds (same support; the map is "
    "affine, so the uniform prime prior is the prior over a constant "
    "Jacobian); NullReparameterisation (identity on its parameters, other "
    "fields and the log-Jacobian untouched); CombinedReparameterisation."
    "reparameterise / inverse_reparameterise over two abstract members on "
    "disjoint parameters (each applied exactly once for either value of "
    "reverse_order, both log-Jacobians added to the running value, the "
    "inverse in the opposite order); Angle.reparameterise / "
    "inverse_reparameterise (angle + given radius): closed forms over "
    "uninterpreted cos / sin / arctan2 / sqrt, accumulated log-Jacobian "
    "log r (the true one is scale * r), negative radius rejected, angles "
    "of a prior starting at zero mapped back to [0, 2 pi); "
    "the prime prior: log_uniform_prior is the log-indicator of "
    "[xmin, xmax] and RescaleToBounds.x_prime_log_prior is the product of "
    "the per-parameter uniform priors (support = the box of prime bounds; "
    "two parameters unrolled), raising exactly when no prime prior is "
    "configured.",
    "note": "NOT under contract (named as unverified): RescaleToBounds "
    "constructor beyond the two option families under contract (no "
    "post-rescaling / logit; default rescale bounds, no inversion, no "
    "offset), pre-rescalings other than log, "
    "inversion (split / duplicate), the prime bounds under "
    "inversion, Angle with a sampled radius (the round trip of Angle is "
    "proved MODULO two stated library facts -- arctan2 / sqrt invert the "
    "polar map -- which are hypotheses of the lemma, checked numerically "
    "in the thorough tier's library-conformance run), "
    "ToCartesian, AnglePair, CombinedReparameterisation's update / prior "
    "methods and its order checks, "
    "all GW reparameterisations, logit with eps "
    "(clipping is not a bijection), behaviour at the bounds and floating-"
    "point closeness. Domain = where the map is regular (open interval "
    "for logit / log, xmin < xmax, scale != 0, finite inputs as E(x) > 0).",
}

CLAIMED["C08"] = {
    "text": "Partial claim, proved over an abstract flow (the transform is "
    "an uninterpreted bijection Tf/Ti between data and latent space with "
    "log-Jacobians Dj/Di, Di(Tf x) = -Dj(x); base density Bz; alternative "
    "latent density AltB): for every such transform and density, "
    "NFlow.forward / inverse / log_prob / forward_and_log_prob / "
    "sample_and_log_prob / sample / base_distribution_log_prob and the "
    "numpy-level FlowModel.log_prob / forward_and_log_prob / "
    "sample_and_log_prob (drawn, supplied latent points, alternative latent "
    "distribution) satisfy: inverse(forward(x)) = x, the density reported "
    "with a generated sample equals log_prob evaluated at that sample "
    "(Bz(Tf x) + Dj x), supplied latent points use the base density or the "
    "alternative distribution exactly as documented, the array interface "
    "agrees with the model and leaves it in eval mode. Proposal layer "
    "(reparameterisation as an abstract bijection Rf/Ri with log-Jacobians "
    "RJ/RiJ): FlowProposal.forward_pass returns Tf(Rf p) with density "
    "Bz(Tf(Rf p)) + Dj(Rf p) + RJ(p); FlowProposal.backward_pass (with "
    "discarding of non-finite densities, prior-bounds filtering through the "
    "inlined check_prior_bounds, with and without returned latent points) "
    "attaches to every returned point exactly the density forward_pass "
    "computes for it, returns only in-bounds points and keeps x / log_prob "
    "/ z aligned. The real bodies of FlowProposal.rescale / "
    "inverse_rescale are proved against an abstract reparameterisation "
    "object (per-row maps with a log-Jacobian): right lengths, the "
    "log-Jacobian starts from zero, non-sampling fields carried over, the "
    "input array not written. Importance proposal: the real inverse_rescale is the "
    "abstract map Ri when clipping is off (proved) and is NOT when "
    "clip=True (known finding, witnessed on the real code: the density "
    "attached at generation is that of the un-clipped point); the "
    "constructor stores clip as given and leaves it off by default. "
    "FlowModel.train leaves no stale eval-mode cache of the LU layers "
    "behind (ghost: caches are filled by validation passes, emptied by "
    "train(), not by load_state_dict). "
    "Failed obligations are replayed on a concrete affine "
    "instance built from the package's own NFlow / FlowModel / FlowProposal "
    "classes (replay/c08_flow.py).",
    "note": "NOT decided here: that the built-in RealNVP / MAF / NSF "
    "transforms are bijections with correct log-determinants (glasflow / "
    "torch code: assumed as the abstract-flow axioms), normalisation of the "
    "density (an integral), floating-point tolerances, conditional inputs "
    "(conditional=None only); in the density contracts the configured "
    "reparameterisation appears as one abstract bijection with cancelling "
    "Jacobians (C07 proves that for the elementary maps, RescaleToBounds, "
    "the null and the combined reparameterisation; the plumbing of "
    "FlowProposal.rescale / inverse_rescale is proved here); the "
    "importance sampler's proposal contracts (compute_log_Q, update_log_q, "
    "draw, inverse_rescale, constructor) are those of C03 and are part of "
    "this check; the augmented / GW proposals are not under contract. "
    "Known finding: ImportanceFlowProposal(clip=True).",
}

CLAIMED["C03"] = {
    "text": "Partial claim, proved for all store sizes, level counts and "
    "weights over the reals (log-values through their exponential image): "
    "(a) ImportanceNestedSampler.add_new_proposal_weight sets every "
    "proposal weight to count/total with the new level's count, keeps the "
    "count and weight dictionaries keyed -1,0,1,... in insertion order "
    "(the order np.fromiter(d.values()) relies on: obligation "
    "dense_key_order), makes the weights sum to one (Lean lemmas "
    "sum_split / sum_last / sum_div) so that update_proposal_weights does "
    "not raise, and raises exactly when samples were already drawn from "
    "that level; (b) ImportanceFlowProposal.update_log_q appends exactly "
    "one column = current level's density at the sample + log-Jacobian, "
    "leaves the other columns untouched and raises iff the column exists; "
    "(c) compute_meta_proposal_from_log_q returns log sum_j w_j exp(q_ij) "
    "with column j weighted by the weight of key j-1; (d) "
    "add_and_update_points (both stores) re-establishes the invariant of "
    "C03 for EVERY stored sample: row has one column per proposal, column "
    "j equals proposal j re-evaluated at the sample's point (abstract "
    "densities LPX, reparameterisation Rf/RJ), logQ is the log of the "
    "weighted mixture, logW = logU - logQ -- carried through "
    "OrderedSamples.add_samples by the position maps proved in C04 "
    "(strengthened with a surjectivity clause).",
    "note": "Composition: ImportanceNestedSampler.initialise (with "
    "populate_live_points: rejection loop, unit-hypercube points only, one "
    "zero column, weight 1, count n_initial) ESTABLISHES, and every "
    "iteration of nested_sampling_loop PRESERVES, the invariant 'C03 row "
    "invariant for every training sample + one weight / one count / one "
    "column per level + counts sum to the number of samples + no NaN "
    "weight' (loop-level contract, without the independent sample set): "
    "the preconditions of the verified pieces are met in the order the loop "
    "calls them; the state left by the constructors is ASSUMED. "
    "Also proved: ImportanceFlowProposal.compute_log_Q (2-D table "
    "built column by column: column 0 = initial proposal, column j = flow "
    "j-1 + Jacobian; row-wise weighted logsumexp; raises exactly in the "
    "three documented cases) and ImportanceFlowProposal.draw (rejection "
    "loop with a loop invariant over the accumulated rows: every kept row "
    "is in the unit hypercube, carries its own density row -- the same "
    "boolean mask is applied to samples and table -- logQ from "
    "compute_log_Q and logW = logU - logQ; exactly n rows are returned). "
    "ASSUMED (trusted contracts, listed in the evidence): "
    "draw_n_samples adds only the likelihood to what draw returns, "
    "rescale / inverse_rescale = one abstract bijection with its "
    "log-Jacobians, get_proposal_log_prob(k) = LPX(k, .). Not "
    "decided: that samples lie in the unit hypercube and that logL equals "
    "the model's value (C10 proves the batch evaluation), finalise / "
    "adjust_final_samples, update_sample_counts (bincount), floating "
    "point. (resume_from_pickled_sampler, the proposal's constructor and "
    "inverse_rescale, and FlowModel.train's save-after-finalise order ARE "
    "under contract; clip=True is a known finding.)",
}

CLAIMED["C09"] = {
    "text": "Partial claim (the deterministic half of C09), proved for all "
    "pool sizes and index lists: AnalyticProposal.populate / draw, "
    "RejectionProposal.populate / compute_weights and FlowProposal.draw "
    "keep the pool invariant (indices pairwise distinct and in range; every "
    "row inside the prior bounds with logP = the model's log-prior and logL "
    "= the model's log-likelihood at its point); an analytic pool has "
    "exactly the requested size, a prior-rejection pool at most that size; "
    "FlowProposal.convert_to_samples fills logP with the model's "
    "log-prior at the row's point in both pool spaces (physical and "
    "x-prime); "
    "the row handed out is a pool row whose index leaves the list, so no "
    "row is handed out twice, and `populated` is exactly 'indices left'. "
    "The likelihood is only ever evaluated on in-bounds / in-unit-hypercube "
    "points (a REQUIRES clause of the abstract likelihood contract, proved "
    "at every call site: AnalyticProposal / RejectionProposal.populate, "
    "ImportanceNestedSampler.draw_n_samples). "
    "FlowProposal.backward_pass returns in-bounds points only and "
    "ImportanceFlowProposal.draw keeps unit-hypercube points only (shared "
    "with C08 / C03).",
    "note": "NOT decided: that the pool is distributed as the prior "
    "restricted to the contour (a statement about probability measures; no "
    "contract here expresses it), the radially truncated latent samplers "
    "(numerics), log-q truncation and the x-prime-prior mode of "
    "FlowProposal.populate, the augmented / GW / clustering proposals, "
    "ImportanceNestedSampler.populate_live_points. FlowProposal.populate "
    "itself IS under contract (rejection loop with loop invariants, both "
    "the per-batch and the accumulate-weights mode): exactly N in-bounds "
    "rows with the model's prior and likelihood and a permutation as index "
    "list, every row with a FINITE log-prior (neither -inf nor NaN: the "
    "acceptance masks (log_w - max) > log_u reject such points; this uses "
    "one IEEE fact added as a library fact of the comparison -- (p - q) > u "
    "is False when p is -inf or NaN -- and the IEEE clause of the trusted "
    "compute_weights) -- except that the accumulate-weights mode may return fewer rows "
    "when the documented max_samples escape hatch ends the loop (stated in "
    "the postcondition). Quick tier: radius handed in, no plotting flags "
    "(quick_requires); thorough tier: every flag combination.",
}

NA = {
    "C06": "statistical calibration over seeds: no pre/post-condition on a "
    "function expresses a distributional claim and no deductive back end "
    "here reasons about probability measures (DESIGN.md §5 C06)",
    "C14": "bit-identity of whole runs depends on torch/BLAS/numpy RNG and "
    "process scheduling, none of which has a contract here; the function-"
    "level part (batch evaluation order/values) is proved under C10",
    "C18": "the conversion functions are 3-10 line wrappers around numpy's "
    "structured-dtype machinery (np.dtype from a name list, field "
    "assignment, np.array of tuples with a dtype, "
    "rfn.structured_to_unstructured, ndarray(shape, dtype, buffer, "
    "strides).view): what the property asserts (names, order, values, "
    "defaults, zero-copy aliasing, for ANY list of 1..20 names) is decided "
    "by that machinery, for which no contract exists here; pyvc models a "
    "structured array with a FIXED set of field names, so a contract "
    "cannot even quantify over the names, and a proof over assumed numpy "
    "contracts would only restate the assumptions. The registry part "
    "(add / reset of extra fields) is history-dependent global state "
    "outside any function under contract. A bounded / generative "
    "technique fits this property; this family does not (DESIGN.md §5 "
    "C18, §11.6).",
    "C19": "read-back equality is decided by json.dump/json.load and h5py "
    "(NaN / Infinity tokens, tuples vs lists, None inside lists, numpy "
    "scalars in h5py, structured arrays as compound datasets): library "
    "semantics with no contract here. nessai's own part is a five-branch "
    "isinstance dispatch (NessaiJSONEncoder.default), a one-branch None "
    "encoding and a recursive dict walk; contracts on those can only say "
    "'np.integer -> int, np.floating -> float, ndarray -> tolist(), "
    "otherwise str()' and would assume, not decide, that the library "
    "round trip preserves each of those values. No obligation within "
    "reach expresses 'the file reads back equal' (DESIGN.md §5 C19, "
    "§11.6).",
}
WIP = "contracts not completed yet (work in progress; DESIGN.md §8 fallback rule)"


def main():
    props = [json.loads(l) for l in open(os.path.join(HERE,
                                                      "properties.jsonl"))]
    m = {
        "version": 1,
        "setup_cmd": "sh tools/setup.sh",
        "hooks": {
            "guard": "NESSAI_VERIF",
            "enable": "no hooks are needed: contracts are sidecars under "
            "/verif/contracts and the checks read /repo's working tree "
            "directly",
            "baseline_off_cmd": "cd /repo && /venv/bin/python -m pytest -ra "
            "-q -p no:cacheprovider --timeout=900 "
            "--continue-on-collection-errors",
            "source_commits": [],
            "add_only": True,
        },
        "engines": [{
            "name": "pyvc", "path": "pyvc/",
            "serves_properties": sorted(CLAIMED),
            "kind_free_text": "AST->SMT verification-condition generator "
            "over the real function bodies with sidecar contracts; z3 + "
            "cvc5; frame inference and resolver back ends; replay harness "
            "under /venv/bin/python"}],
        "checks": [], "not_applicable": [],
        "notes": "exit codes of ./vcheck: 0 held, 1 violation, 2 undecided, "
        "3 checker error. See DESIGN.md.",
    }
    for p in props:
        pid = p["id"]
        if pid in CLAIMED:
            c = CLAIMED[pid]
            m["checks"].append({
                "property_id": pid,
                "quick_cmd": f"./vcheck {pid} --tier quick",
                "thorough_cmd": f"./vcheck {pid} --tier thorough",
                "evidence_file": f"evidence/{pid}.json",
                "replay_cmd_template": f"./vcheck {pid} --replay {{path}}",
                "engine": "pyvc",
                "level_claimed": {"category": "proof", "text": c["text"],
                                  "design_ref": f"DESIGN.md §5 {pid}"},
                "level_note": c["note"],
                "technique": c.get("technique", TECH),
            })
        else:
            m["not_applicable"].append({"property_id": pid,
                                        "reason": NA.get(pid, WIP)})
    with open(os.path.join(HERE, "MANIFEST.json"), "w") as fh:
        json.dump(m, fh, indent=1)
    print("claimed:", sorted(CLAIMED), "not_applicable:",
          [x["property_id"] for x in m["not_applicable"]])


if __name__ == "__main__":
    main()
