#!/bin/sh
# Offline setup: nothing to build for the VC generator (pure python under
# python3-vt); check the interpreters and compile the Lean lemma library.
set -e
cd "$(dirname "$0")/.."
python3-vt -c "import z3, sys; print('z3', z3.get_version_string())"
/venv/bin/python -c "import numpy; print('numpy', numpy.__version__)"
mkdir -p .cache evidence replays
sh tools/lean_check.sh || echo "WARNING: lemma library did not compile (checks report it)"
