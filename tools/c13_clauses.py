"""Helper (maintenance, not a check): for every listed C13 finding compute
the set of interrupt-invariant clauses that are not provable at that statement
on the current tree (union over paths), to be recorded as `clauses=...` in
known_findings.txt."""
import os
import sys
import multiprocessing as mp

sys.path.insert(0, os.path.dirname(os.path.dirname(os.path.abspath(__file__))))
import z3                                              # noqa: E402
from pyvc import contracts as C, engine as E           # noqa: E402
from pyvc import extra as X                            # noqa: E402
from pyvc.verify import Verifier, discharge            # noqa: E402
from pyvc.cli import load_known, stable_name           # noqa: E402

C.load_all()
known = {k["key"] for k in load_known() if k["property"] == "C13"}
JOBS = []
for con in C.for_property("C13"):
    if not con.verify:
        continue
    V = Verifier("quick")
    X.configure(V, con, "C13")
    r = V.verify_function(con)
    for o in r.obls:
        ident = f"{con.func}::{stable_name(o)}"
        if o.kind == "interrupt_inv" and ident in known:
            JOBS.append((ident, o))


def work(i):
    ident, o = JOBS[i]
    out = set()
    cls_ = o.goal.children() if z3.is_and(o.goal) else [o.goal]
    for ci, c in enumerate(cls_):
        sub = E.Obl(o.name, "sub", o.func, o.lineno, o.hyps, c, o.path)
        sub.interp, sub.ncalls = o.interp, o.ncalls
        discharge([sub], 10000, use_cvc5=False, refute=False)
        if sub.status != "discharged":
            out.add(ci)
    return ident, sorted(out)


if __name__ == "__main__":
    with mp.get_context("fork").Pool(16) as pool:
        res = pool.map(work, range(len(JOBS)))
    acc = {}
    for ident, cl in res:
        acc.setdefault(ident, set()).update(cl)
    for k in sorted(acc):
        print(k, ",".join(map(str, sorted(acc[k]))))
