"""Bounded conformance test of the library contracts in pyvc/nplib.py against
the installed numpy / scipy / torch (run under /venv/bin/python).

The proofs ASSUME these contracts (they are listed under `assumptions` /
`trusted_base` in every evidence file).  This script checks, on random small
inputs, that each stated fact holds for the real library -- a *bounded*
stand-in (never counted as proved).  A failure means the library model is
wrong (a checker problem), not that nessai violates a property.

usage: lib_conformance.py [seed] [cases]      exit 0 = all facts held."""
import io
import math
import os
import sys
import tempfile

import numpy as np

SEED = int(sys.argv[1]) if len(sys.argv) > 1 else 1
CASES = int(sys.argv[2]) if len(sys.argv) > 2 else 300
rng = np.random.default_rng(SEED)
FAIL = []
COUNT = {}


def check(name, ok, detail=""):
    COUNT[name] = COUNT.get(name, 0) + 1
    if not ok:
        FAIL.append(f"{name}: {detail}")


def rint(lo, hi):
    return int(rng.integers(lo, hi + 1))


def rarr(n, ties=True):
    a = rng.normal(size=n)
    if ties and n:
        a = np.round(a * 2) / 2            # many ties
    return a


# 1. np.insert: position maps ------------------------------------------------
for _ in range(CASES):
    m, r = rint(0, 6), rint(0, 5)
    a = rarr(m)
    idx = np.sort(rng.integers(0, m + 1, size=r))
    vals = rng.normal(size=r) + 100
    out = np.insert(a, idx, vals)
    ok = len(out) == m + r
    for k in range(r):
        ok &= out[idx[k] + k] == vals[k]                 # posnew(k)
    for j in range(m):
        cnt = int(np.sum(idx <= j))                      # k < cnt <=> idx[k]<=j
        ok &= out[j + cnt] == a[j]                       # posold(j)
    pos = sorted([idx[k] + k for k in range(r)] +
                 [j + int(np.sum(idx <= j)) for j in range(m)])
    ok &= pos == list(range(m + r))                      # partition
    check("np.insert position maps", ok, f"a={a} idx={idx}")

# 2. np.searchsorted -----------------------------------------------------------
for _ in range(CASES):
    n = rint(0, 7)
    a = np.sort(rarr(n))
    v = float(rarr(1)[0])
    for side in ("left", "right"):
        r_ = int(np.searchsorted(a, v, side=side))
        ok = 0 <= r_ <= n
        for i in range(n):
            ok &= (i < r_) == ((a[i] < v) if side == "left" else (a[i] <= v))
        check(f"np.searchsorted side={side}", ok, f"a={a} v={v}")
    vs = rarr(rint(0, 4))
    rs = np.searchsorted(a, vs)
    ok = all((vs[i] <= vs[j]) <= (rs[i] <= rs[j])
             for i in range(len(vs)) for j in range(len(vs)))
    check("np.searchsorted monotone in the needle", ok)

# 3. argsort / sort by field --------------------------------------------------
for _ in range(CASES):
    n = rint(0, 7)
    a = rarr(n)
    p = np.argsort(a)
    ok = sorted(p.tolist()) == list(range(n)) and \
        all(a[p[i]] <= a[p[i + 1]] for i in range(n - 1))
    check("np.argsort is a sorting permutation", ok)
    s = np.zeros(n, dtype=[("logL", "f8"), ("x", "f8")])
    s["logL"], s["x"] = a, rng.normal(size=n)
    t = np.sort(s, order="logL")
    ok = all(t["logL"][i] <= t["logL"][i + 1] for i in range(n - 1)) and \
        sorted(map(tuple, t.tolist())) == sorted(map(tuple, s.tolist()))
    check("np.sort(order=) sorts rows, keeps rows", ok)

# 4. boolean masks ---------------------------------------------------------------
for _ in range(CASES):
    n = rint(0, 8)
    a, b = rarr(n), rarr(n)
    m = rng.random(n) < 0.5
    sel = a[m]
    src = [i for i in range(n) if m[i]]
    ok = len(sel) == int(m.sum()) == int(np.sum(m)) and \
        all(sel[k] == a[src[k]] for k in range(len(src))) and \
        all(b[m][k] == b[src[k]] for k in range(len(src)))
    check("a[mask]: True positions in order; len == mask.sum(); shared "
          "by all arrays", ok)
    w = np.where(m)[0]
    check("np.where(mask)[0] = increasing True positions",
          w.tolist() == src)
    s = np.zeros(n, dtype=[("u", "f8"), ("v", "f8")])
    s["u"], s["v"] = a, b
    check("struct[mask] selects rows field by field",
          s[m]["u"].tolist() == a[m].tolist() and
          s[m]["v"].tolist() == b[m].tolist())

# 5. cumsum / concatenate / array_split ------------------------------------------
for _ in range(CASES):
    n = rint(0, 7)
    a = rarr(n, ties=False)
    c = np.cumsum(a)
    ok = len(c) == n and (n == 0 or c[0] == a[0]) and \
        all(math.isclose(c[k], c[k - 1] + a[k]) for k in range(1, n))
    check("np.cumsum recurrence", ok)
    b = rarr(rint(0, 4))
    cc = np.concatenate([a, b])
    check("np.concatenate order", cc.tolist() == a.tolist() + b.tolist())
    K = rint(1, 5)
    pieces = np.array_split(a, K)
    ok = len(pieces) == K and \
        np.concatenate(pieces).tolist() == a.tolist() and \
        all(len(p) <= math.ceil(n / K) for p in pieces)
    check("np.array_split: K contiguous pieces covering x", ok)

# 6. isin / complement counting ----------------------------------------------
for _ in range(CASES):
    n = rint(0, 8)
    b = np.array(sorted(rng.choice(n, size=rint(0, n), replace=False))) \
        if n else np.array([], dtype=int)
    ar = np.arange(n)
    comp = ar[~np.isin(ar, b)]
    ok = len(comp) == n - len(b) and \
        all(comp[i] < comp[i + 1] for i in range(len(comp) - 1)) and \
        not set(comp.tolist()) & set(b.tolist())
    check("arange(n)[~isin(arange(n), b)]: n - len(b) increasing others", ok)

# 7. permutation / argmax / max --------------------------------------------------
for _ in range(CASES):
    n = rint(1, 8)
    p = np.random.permutation(n)
    check("np.random.permutation(n) is a permutation of range(n)",
          sorted(p.tolist()) == list(range(n)))
    a = rarr(n)
    i = int(np.argmax(a))
    check("np.argmax: first index of the maximum",
          a[i] == a.max() and all(a[j] < a[i] for j in range(i)))
    m = a >= np.median(a)
    k = int(np.argmax(m))
    check("np.argmax(bool): first True (0 if none)",
          (m[k] and not m[:k].any()) or (not m.any() and k == 0))

# 8. logsumexp -------------------------------------------------------------------
from scipy.special import logsumexp                       # noqa: E402
for _ in range(CASES):
    n = rint(1, 6)
    a = rarr(n, ties=False)
    b = rng.random(n)
    check("logsumexp(a) = log sum exp",
          math.isclose(math.exp(logsumexp(a)), np.exp(a).sum(),
                       rel_tol=1e-9))
    check("logsumexp(a, b=b) = log sum b exp",
          math.isclose(math.exp(logsumexp(a, b=b)), (b * np.exp(a)).sum(),
                       rel_tol=1e-9))
    t = rng.normal(size=(rint(1, 4), n))
    r_ = logsumexp(t, b=b, axis=1)
    check("logsumexp(T, b=b, axis=1): one value per row, column j weighted "
          "by b[j]",
          all(math.isclose(math.exp(r_[i]), (b * np.exp(t[i])).sum(),
                           rel_tol=1e-9) for i in range(t.shape[0])))

# 9. dictionaries: insertion order -------------------------------------------------
for _ in range(CASES):
    n = rint(1, 6)
    d = {}
    for k in range(-1, n - 1):
        d[k] = float(k) + 0.5
    check("np.fromiter(d.values()) follows insertion order",
          np.fromiter(d.values(), float).tolist() ==
          [float(k) + 0.5 for k in range(-1, n - 1)])
    e = {k: v * 2 for k, v in d.items()}
    e[n - 1] = -7.0                                  # one more key
    d2 = dict(d)
    d2.update(e)
    check("dict.update keeps existing positions, appends new keys in the "
          "argument's order",
          list(d2.keys()) == list(range(-1, n)) and
          all(d2[k] == e[k] for k in e))
    c = {it - 1: v for it, v in enumerate([3, 1, 4][:n])}
    check("dict comprehension over enumerate keeps order",
          list(c.keys()) == list(range(-1, len(c) - 1)))

# 10. 2-D tables ---------------------------------------------------------------------
for _ in range(CASES):
    n, m = rint(0, 4), rint(1, 4)
    t = rng.normal(size=(n, m))
    col = rng.normal(size=n)
    t2 = np.concatenate([t, col[:, np.newaxis]], axis=1)
    ok = t2.shape == (n, m + 1) and np.array_equal(t2[:, :m], t) and \
        np.array_equal(t2[:, m], col)
    check("np.concatenate([T, v[:, None]], axis=1) appends one column", ok)
    t3 = t + col[:, np.newaxis]
    check("T + v[:, None] adds v[i] to every column of row i",
          all(np.allclose(t3[i], t[i] + col[i]) for i in range(n)))
    z = np.zeros([n, m + 2])
    lo = rint(0, 2)
    z[:, lo:lo + m] = t
    ok = np.array_equal(z[:, lo:lo + m], t) and \
        (z[:, :lo] == 0).all() and (z[:, lo + m:] == 0).all()
    check("T[:, a:b] = S stores columns a..b-1, others untouched", ok)

# 11. isclose / log of indicator / int() ------------------------------------------------
for _ in range(CASES):
    a, b = float(rng.normal()), float(rng.normal())
    if rng.random() < 0.3:
        b = a + float(rng.normal()) * 1e-7
    check("np.isclose(a, b) <=> |a-b| <= 1e-8 + 1e-5 |b|",
          bool(np.isclose(a, b)) == (abs(a - b) <= 1e-8 + 1e-5 * abs(b)))
    x = rarr(5)
    with np.errstate(divide="ignore"):
        lg = np.log((x >= -0.5) & (x <= 0.5))
    check("np.log(bool array): 0 where True, -inf where False",
          all((lg[i] == 0) == bool(-0.5 <= x[i] <= 0.5) and
              (lg[i] == 0 or lg[i] == -np.inf) for i in range(5)))
    v = float(rng.normal()) * 5
    check("int(x) truncates toward zero",
          int(v) == (math.floor(v) if v >= 0 else -math.floor(-v)))

# 11b. IEEE: (p - q) > u is False whenever p is -inf or NaN -------------------------
SPECIAL = [-np.inf, np.inf, np.nan, 0.0, -1.5, 2.0]
with np.errstate(invalid="ignore"):
    for p_ in (-np.inf, np.nan):
        for q_ in SPECIAL:
            for u_ in SPECIAL:
                r_ = bool(np.greater(np.array([p_]) - q_,
                                     np.array([u_]))[0])
                check("(p - q) > u (strict) is False for p in {-inf, NaN}",
                      not r_, f"p={p_} q={q_} u={u_}")
    x = np.array([-np.inf, np.nan, 1.0])
    check("-inf / NaN minus a finite number stays -inf / NaN",
          (x - 0.5)[0] == -np.inf and np.isnan((x - 0.5)[1]))
    check("np.nan_to_num: NaN -> 0, -inf -> a finite number",
          np.nan_to_num(x)[1] == 0 and np.isfinite(np.nan_to_num(x)[0]))

# 12. slicing ---------------------------------------------------------------------------
for _ in range(CASES):
    n = rint(0, 6)
    a = np.arange(n)
    lo, hi = rint(-8, 8), rint(-8, 8)

    def nb(b_):
        return max(b_ + n, 0) if b_ < 0 else min(b_, n)
    check("a[lo:hi] clamps and wraps bounds like python",
          a[lo:hi].tolist() == list(range(nb(lo), max(nb(lo), nb(hi)))))

# 13. torch.load on truncated files / DataLoader batch size ------------------------------
try:
    import pickle
    import torch
    buf = io.BytesIO()
    torch.save(torch.nn.Linear(3, 3).state_dict(), buf)
    data = buf.getvalue()
    d = tempfile.mkdtemp(prefix="pyvc-libconf-")
    want = {0: EOFError, 1: pickle.UnpicklingError, 2: pickle.UnpicklingError,
            3: pickle.UnpicklingError, 4: RuntimeError,
            len(data) // 2: RuntimeError, len(data) - 1: RuntimeError}
    for nbytes, exc in want.items():
        p = os.path.join(d, "w.pt")
        with open(p, "wb") as fh:
            fh.write(data[:nbytes])
        try:
            torch.load(p)
            got = None
        except Exception as ex:                          # noqa: BLE001
            got = type(ex)
        check("torch.load on a truncated file: EOFError (0 bytes) / "
              "UnpicklingError (1-3) / RuntimeError (more)",
              got is not None and issubclass(got, exc),
              f"{nbytes} bytes -> {got}")
    os.remove(p)
    os.rmdir(d)
    ds = torch.utils.data.TensorDataset(torch.zeros(4, 2))
    for b_, bad in ((0, True), (1, False), (None, False), (3, False)):
        try:
            torch.utils.data.DataLoader(ds, batch_size=b_)
            raised = False
        except ValueError:
            raised = True
        check("DataLoader rejects exactly batch_size < 1 (None allowed)",
              raised == bad, f"batch_size={b_}")
except ImportError as ex:                                  # pragma: no cover
    FAIL.append(f"torch not importable: {ex}")

# multi-field assignment between structured arrays is by POSITION; np.clip
# into [0, 1] is the identity exactly on the points inside; str.lower is
# idempotent and fixes lower-case strings
for _ in range(CASES):
    n = rint(0, 5)
    dt = [("a", "f8"), ("b", "f8"), ("c", "f8")]
    x = np.zeros(n, dtype=dt)
    y = np.zeros(n, dtype=dt)
    for f_ in "abc":
        x[f_] = rarr(n)
        y[f_] = rarr(n)
    y0 = y.copy()
    names = list(rng.permutation(["a", "b", "c"])[:2])
    src = list(rng.permutation(["a", "b", "c"])[:2])
    y[names] = x[src]
    other = [f_ for f_ in "abc" if f_ not in names][0]
    check("a[[f1, f2]] = b[[g1, g2]]: by position, other fields untouched",
          all(np.array_equal(y[names[j]], x[src[j]]) for j in range(2))
          and np.array_equal(y[other], y0[other]), f"{names} <- {src}")
    p_ = rng.normal(0.5, 0.6, size=(rint(1, 4), 2))
    c_ = np.clip(p_, 0.0, 1.0)
    inside = ((p_ >= 0) & (p_ <= 1)).all(axis=1)
    check("np.clip(p, 0, 1) == p exactly for the points inside",
          all((c_[i] == p_[i]).all() == inside[i] for i in range(len(p_))),
          f"{p_}")
# the two polar-decomposition facts the Angle round-trip lemma takes as
# hypotheses (numerically, to 1e-9), and x % m for a positive modulus
for _ in range(CASES):
    r_ = float(rng.uniform(1e-3, 50))
    phi = float(rng.uniform(-np.pi + 1e-9, np.pi))
    check("arctan2(r sin p, r cos p) = p and sqrt((r cos p)^2 + "
          "(r sin p)^2) = r for r > 0, p in (-pi, pi]",
          abs(np.arctan2(r_ * np.sin(phi), r_ * np.cos(phi)) - phi) < 1e-9
          and abs(np.sqrt((r_ * np.cos(phi)) ** 2 + (r_ * np.sin(phi)) ** 2)
                  - r_) < 1e-9 * r_, f"r={r_} phi={phi}")
    m_ = float(rng.uniform(0.1, 10))
    v_ = float(rng.uniform(-m_, m_))
    check("x % m in [0, m); = x on [0, m), = x + m on [-m, 0)",
          0 <= v_ % m_ < m_ and abs(v_ % m_ - (v_ if v_ >= 0 else v_ + m_))
          < 1e-12, f"{v_} % {m_}")
for n in (0, 1, 4):
    a_ = rarr(n)
    check("zeros_like is all zeros, ones_like all ones, same length",
          len(np.zeros_like(a_)) == n and len(np.ones_like(a_)) == n and
          (np.zeros_like(a_) == 0).all() and (np.ones_like(a_) == 1).all(),
          f"n={n}")
for w in ("t", "logt", "LogT", "T", "LOGT", "Logit", "x_Y"):
    check("str.lower is idempotent and fixes lower-case strings",
          w.lower().lower() == w.lower() and
          (w.lower() == w) == (not any(ch.isupper() for ch in w)), w)

print(f"library conformance (seed {SEED}): {sum(COUNT.values())} evaluations "
      f"of {len(COUNT)} facts")
for f in FAIL[:20]:
    print("FAILED", f)
sys.exit(1 if FAIL else 0)
