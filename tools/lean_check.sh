#!/bin/sh
# Compile the code-independent lemma library with Lean 4 + Mathlib and write
# a stamp (sha256 of the source) on success.  Used by setup_cmd, by the
# thorough tier, and by the quick tier when the stamp is missing or stale.
cd "$(dirname "$0")/.." || exit 3
mkdir -p .cache
SHA=$(sha256sum lemmas/Lib.lean | cut -d' ' -f1)
if grep -n "sorry\|admit" lemmas/Lib.lean >/dev/null; then echo "lemma library contains sorry/admit"; exit 1; fi
if [ "$1" != "--force" ] && [ -f .cache/lean.stamp ] && [ "$(cat .cache/lean.stamp)" = "$SHA" ]; then echo "lean stamp ok ($SHA)"; exit 0; fi
( cd /opt/veriftools/mathlib4 && timeout 1500 lake env lean /verif/lemmas/Lib.lean ) > .cache/lean.log 2>&1
rc=$?
if [ $rc -eq 0 ] && ! grep -q "error" .cache/lean.log; then echo "$SHA" > .cache/lean.stamp; echo "lean ok ($SHA)"; exit 0; fi
echo "lean FAILED rc=$rc"; tail -20 .cache/lean.log; exit 1
