#!/bin/sh
# run every claimed property's quick check (4 at a time), rewrite baselines,
# then validate MANIFEST / evidence against the schemas.  usage: tools/runall.sh
cd "$(dirname "$0")/.." || exit 3
IDS=$(/venv/bin/python -c "import json;print(' '.join(c['property_id'] for c in json.load(open('MANIFEST.json'))['checks']))" 2>/dev/null)
[ -n "$IDS" ] || IDS="C01 C02 C03 C04 C05 C07 C08 C09 C10 C11 C12 C13 C15 C16 C17 C20"
n=0
for P in $IDS; do
  ( ./vcheck $P --write-baseline > /tmp/runall-$P.log 2>&1; echo "$P rc=$? $(grep -E '^\[' /tmp/runall-$P.log | tail -1)" ) &
  n=$((n+1)); [ $((n % 4)) -eq 0 ] && wait
done
wait
python3-vt - <<'PY'
import json, glob, jsonschema
m = json.load(open('MANIFEST.json'))
jsonschema.validate(m, json.load(open('/root/.vp/MANIFEST.schema.json')))
es = json.load(open('/root/.vp/EVIDENCE.schema.json'))
bad = 0
for f in sorted(glob.glob('evidence/C*.json')):
    e = json.load(open(f)); jsonschema.validate(e, es)
    c = e['coverage']
    if e['level'] == 'proof' and c['obligations'] != c['discharged']:
        print('BAD', f, c['obligations'], c['discharged']); bad += 1
    if e.get('tier') != 'quick':
        print('TIER', f, e.get('tier'))
print('schemas ok' if not bad else 'PROBLEMS')
PY
